"""Run Apalache (symbolic model checker) on a typed TLA+ module under spec/apalache/."""

from __future__ import annotations

import os
import shutil
import subprocess

VERIF = os.path.dirname(os.path.dirname(os.path.abspath(__file__)))


def available() -> bool:
    return shutil.which("apalache-mc") is not None


def check(module: str, init: str, inv: str, length: int, scratch: str, timeout: float = 900):
    """returns "ok" | "violated" | "error:<tail of the output>" """
    out = os.path.join(scratch, f"apa-{module}-{init}-{inv}")
    os.makedirs(out, exist_ok=True)
    try:
        p = subprocess.run(["apalache-mc", "check", f"--init={init}", f"--inv={inv}", f"--length={length}", f"--out-dir={out}", module + ".tla"],
                           cwd=os.path.join(VERIF, "spec", "apalache"), capture_output=True, text=True, timeout=timeout)
    except subprocess.TimeoutExpired:
        return "error:timeout"
    finally:
        shutil.rmtree(out, ignore_errors=True)
    if "EXITCODE: OK" in p.stdout:
        return "ok"
    if "EXITCODE: ERROR (12)" in p.stdout:
        return "violated"
    return "error:" + (p.stdout + p.stderr)[-600:]
