"""Projection between Python objects and the model values of spec/Serializer.tla.

Model values as JSON arrays (-> TLA+ tuples):
  ["none"] ["bool", b] ["int", neg, [digits]] ["float", [8 bytes]] ["complex", [16 bytes]]
  ["bytes", [..]] ["str", [code points]] ["list", [..]] ["tuple", [..]]
  ["dict", [[k, v], ..]] ["set", [..]] ["frozenset", [..]] ["bad"]
Type-exact: anything whose type() is not exactly one of the supported builtins is "bad".
"""

from __future__ import annotations

import struct


class Unsupported:
    """An arbitrary unsupported leaf."""

    def __repr__(self) -> str:
        return "<Unsupported>"


class IntSub(int):
    pass


class StrSub(str):
    pass


class ListSub(list):
    pass


class DictSub(dict):
    pass


def to_model(o):
    t = type(o)
    if o is None:
        return ["none"]
    if t is bool:
        return ["bool", bool(o)]
    if t is int:
        s = str(abs(o)) if abs(o) < 10**4000 else _bigstr(abs(o))
        return ["int", o < 0, [ord(c) - 48 for c in s]]
    if t is float:
        return ["float", list(struct.pack("!d", o))]
    if t is complex:
        return ["complex", list(struct.pack("!d", o.real) + struct.pack("!d", o.imag))]
    if t is bytes:
        return ["bytes", list(o)]
    if t is str:
        return ["str", [ord(c) for c in o]]
    if t is list:
        return ["list", [to_model(x) for x in o]]
    if t is tuple:
        return ["tuple", [to_model(x) for x in o]]
    if t is dict:
        return ["dict", [[to_model(k), to_model(v)] for k, v in o.items()]]
    if t is set:
        return ["set", [to_model(x) for x in o]]
    if t is frozenset:
        return ["frozenset", [to_model(x) for x in o]]
    return ["bad"]


class IntSub(int):
    pass


class StrSub(str):
    pass


class ListSub(list):
    pass


class DictSub(dict):
    pass


class FloatSub(float):
    pass


class BytesSub(bytes):
    pass


class TupleSub(tuple):
    pass


class SetSub(set):
    pass


_SUBS = {"int": lambda: IntSub(2), "str": lambda: StrSub("s"), "list": lambda: ListSub([1]), "dict": lambda: DictSub(a=1), "float": lambda: FloatSub(1.5),
         "bytes": lambda: BytesSub(b"b"), "tuple": lambda: TupleSub((1,)), "set": lambda: SetSub({1})}


def _bigstr(n: int) -> str:
    # decimal text without tripping the interpreter's int->str digit limit
    import sys

    if hasattr(sys, "set_int_max_str_digits"):
        old = sys.get_int_max_str_digits()
        sys.set_int_max_str_digits(0)
        try:
            return str(n)
        finally:
            sys.set_int_max_str_digits(old)
    return str(n)


def from_model(m):
    """Build the Python object a model value stands for ("bad" -> Unsupported())."""
    tag = m[0]
    if tag == "none":
        return None
    if tag == "bool":
        return bool(m[1])
    if tag == "int":
        n = 0
        for d in m[2]:
            n = n * 10 + d
        return -n if m[1] else n
    if tag == "float":
        return struct.unpack("!d", bytes(m[1]))[0]
    if tag == "complex":
        b = bytes(m[1])
        return complex(struct.unpack("!d", b[:8])[0], struct.unpack("!d", b[8:])[0])
    if tag == "bytes":
        return bytes(m[1])
    if tag == "str":
        return "".join(chr(c) for c in m[1])
    if tag == "list":
        return [from_model(x) for x in m[1]]
    if tag == "tuple":
        return tuple(from_model(x) for x in m[1])
    if tag == "dict":
        return {from_model(k): from_model(v) for k, v in m[1]}
    if tag == "set":
        return {from_model(x) for x in m[1]}
    if tag == "frozenset":
        return frozenset(from_model(x) for x in m[1])
    if tag == "bad":
        # ["bad"] = an object of an unrelated class; ["bad", kind] = an instance of a subclass of a supported builtin
        # (type-exactness: these are unsupported too, also when they directly follow an instance of the base type)
        return _SUBS[m[1]]() if len(m) > 1 else Unsupported()
    raise ValueError(m)


def from_tla(v):
    """A TLA+ value parsed by mbt.tlaval (tuples) -> the JSON-list form."""
    if isinstance(v, tuple):
        return [from_tla(x) for x in v]
    return v
