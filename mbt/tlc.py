"""Run TLC and read back what it says: counts, coverage, counterexamples, printed values.

All model checking in this framework goes through `run()`; state files go to a
scratch metadir which is removed afterwards.
"""

from __future__ import annotations

import os
import re
import shutil
import subprocess
import time
from dataclasses import dataclass, field

from .tlaval import parse_value

JAR = "/opt/veriftools/tla/tla2tools.jar:/opt/veriftools/tla/CommunityModules-deps.jar"
SPEC = os.path.join(os.path.dirname(os.path.dirname(os.path.abspath(__file__))), "spec")


@dataclass
class TLCResult:
    ok: bool = False  # completed without error
    generated: int = 0
    distinct: int = 0
    depth: int = 0
    violated: str | None = None  # invariant / property name, "deadlock", or "error"
    error: str = ""
    trace: list = field(default_factory=list)  # [(action_label, {var: value})]
    coverage: dict = field(default_factory=dict)  # action -> (distinct, total)
    printed: list = field(default_factory=list)  # PrintT'd values (raw strings)
    out: str = ""
    wall: float = 0.0
    cmd: str = ""
    timed_out: bool = False


_STATE_HDR = re.compile(r"^State (\d+): (.*)$")
_CONJ = re.compile(r"^/\\ (\w+) = ", re.M)


def parse_state_text(txt: str) -> dict:
    """'/\\ x = 1\n/\\ y = <<>>' -> {'x': 1, 'y': ()}"""
    res = {}
    ms = list(_CONJ.finditer(txt))
    for i, m in enumerate(ms):
        end = ms[i + 1].start() if i + 1 < len(ms) else len(txt)
        res[m.group(1)] = parse_value(txt[m.end():end].strip())
    return res


def _parse_trace(lines: list[str]) -> list:
    trace = []
    cur_label = None
    cur: list[str] = []
    for ln in lines:
        m = _STATE_HDR.match(ln)
        if m:
            if cur_label is not None:
                trace.append((cur_label, parse_state_text("\n".join(cur))))
            lab = m.group(2)
            am = re.match(r"<(\w+)", lab)
            cur_label = am.group(1) if am else lab
            cur = []
        elif cur_label is not None:
            if ln.startswith(("/\\", " ", "\t")) or (cur and ln and not ln[0].isalpha()):
                cur.append(ln)
            elif ln.strip() == "":
                continue
            else:
                trace.append((cur_label, parse_state_text("\n".join(cur))))
                cur_label = None
                cur = []
    if cur_label is not None:
        trace.append((cur_label, parse_state_text("\n".join(cur))))
    return [(lab, st) for lab, st in trace if st]  # drop 'Stuttering' / 'Back to state' markers


def run(
    module: str,
    cfg: str | None = None,
    *,
    workers: int | str = "auto",
    args: list[str] | None = None,
    env: dict | None = None,
    timeout: float = 900,
    scratch: str,
    specdir: str = SPEC,
    coverage: bool = False,
    deadlock: bool = True,
    java_opts: list[str] | None = None,
    parse_trace: bool = True,
) -> TLCResult:
    meta = os.path.join(scratch, f"tlc-{module}-{os.getpid()}-{time.time_ns()}")
    os.makedirs(meta, exist_ok=True)
    cmd = ["java", "-XX:+UseParallelGC", "-Xss16m"] + (java_opts or []) + ["-cp", JAR, "tlc2.TLC"]
    cmd += ["-workers", str(workers), "-metadir", meta, "-noGenerateSpecTE"]
    if cfg:
        cmd += ["-config", cfg]
    if coverage:
        cmd += ["-coverage", "1"]
    if not deadlock:
        cmd += ["-deadlock"]
    cmd += list(args or [])
    cmd += [module]
    e = dict(os.environ)
    e.pop("JAVA_TOOL_OPTIONS", None)
    if env:
        e.update({k: str(v) for k, v in env.items()})
    t0 = time.time()
    r = TLCResult(cmd=" ".join(cmd))
    try:
        p = subprocess.run(cmd, cwd=specdir, env=e, capture_output=True, text=True, timeout=timeout)
        out = p.stdout + p.stderr
    except subprocess.TimeoutExpired as ex:
        out = (ex.stdout or b"").decode(errors="replace") if isinstance(ex.stdout, bytes) else (ex.stdout or "")
        r.timed_out = True
        subprocess.run(["pkill", "-f", meta], capture_output=True)
    finally:
        shutil.rmtree(meta, ignore_errors=True)
    r.wall = time.time() - t0
    r.out = out
    lines = out.splitlines()
    for ln in lines:
        m = re.match(r"^(\d+) states generated, (\d+) distinct states found", ln)
        if m:
            r.generated, r.distinct = int(m.group(1)), int(m.group(2))
        m = re.match(r"^The depth of the complete state graph search is (\d+)", ln)
        if m:
            r.depth = int(m.group(1))
        m = re.match(r"^<(\w+) line \d+, col \d+ to line \d+, col \d+ of module (\w+)>: (\d+):(\d+)", ln)
        if m:
            d, t = int(m.group(3)), int(m.group(4))
            od, ot = r.coverage.get(m.group(1), (0, 0))
            r.coverage[m.group(1)] = (od + d, ot + t)
    if "Model checking completed. No error has been found." in out or (
        "Finished in" in out and "Error:" not in out and not r.timed_out and "states generated" in out
    ):
        r.ok = "Error:" not in out
    m = re.search(r"Error: Invariant (\w+) is violated", out)
    if m:
        r.violated = m.group(1)
    elif re.search(r"Error: Action property (\w+) is violated", out):
        r.violated = re.search(r"Error: Action property (\w+) is violated", out).group(1)
    elif re.search(r"Temporal propert(y|ies) .*violated", out):
        r.violated = "temporal"
    elif "Error: Deadlock reached" in out:
        r.violated = "deadlock"
    elif "Error:" in out:
        r.violated = "error"
        i = out.index("Error:")
        r.error = out[i : i + 1500]
    if r.violated and parse_trace and r.violated != "error":
        try:
            r.trace = _parse_trace(lines)
        except Exception as ex:  # parsing a counterexample is best effort
            r.error += f"\n(trace parse failed: {ex})"
    # PrintT'd values: TLC prints them as bare lines; callers use a unique tag.
    return r


def printed_values(out: str, tag: str) -> list:
    """Values printed with PrintT(<<"tag", v>>) -- possibly multi-line; parsed by bracket matching."""
    res = []
    pat = re.compile(r'<<\s*"' + re.escape(tag) + '"')
    i = 0
    while True:
        mm = pat.search(out, i)
        if mm is None:
            break
        i = mm.start()
        depth = 0
        j = i
        instr = False
        while j < len(out):
            c = out[j]
            if instr:
                if c == "\\":
                    j += 1
                elif c == '"':
                    instr = False
            elif c == '"':
                instr = True
            elif out.startswith("<<", j):
                depth += 1
                j += 1
            elif out.startswith(">>", j):
                depth -= 1
                j += 1
                if depth == 0:
                    j += 1
                    break
            j += 1
        v = parse_value(out[i:j])
        res.append(v[1] if len(v) == 2 else v[1:])
        i = j
    return res


def sany(module: str, specdir: str = SPEC) -> tuple[bool, str]:
    p = subprocess.run(
        ["java", "-cp", JAR, "tla2sany.SANY", module + ".tla"], cwd=specdir, capture_output=True, text=True
    )
    out = p.stdout + p.stderr
    ok = "Semantic processing of module" in out and "error" not in out.lower().replace("errors: 0", "")
    return ok, out


def simulate(
    module: str,
    cfg: str,
    *,
    num: int,
    depth: int,
    seed: int,
    scratch: str,
    specdir: str = SPEC,
    env: dict | None = None,
    timeout: float = 600,
) -> list:
    """tlc -simulate file=...: returns a list of behaviours [[(action, state)...]...]."""
    d = os.path.join(scratch, f"sim-{module}-{seed}-{time.time_ns()}")
    os.makedirs(d, exist_ok=True)
    r = run(
        module,
        cfg,
        workers=1,
        args=["-simulate", f"file={d}/tr,num={num}", "-depth", str(depth), "-seed", str(seed)],
        env=env,
        timeout=timeout,
        scratch=scratch,
        specdir=specdir,
        parse_trace=False,
    )
    behs = []
    for fn in sorted(os.listdir(d)):
        txt = open(os.path.join(d, fn)).read()
        beh = []
        # file format: '\* <Action line ...>' comment followed by 'STATE_n == \n/\ x = ...'
        parts = re.split(r"^STATE_(\d+) ==\s*$", txt, flags=re.M)
        # parts: [pre, n1, body1, n2, body2...]
        pre = parts[0]
        for k in range(1, len(parts), 2):
            body = parts[k + 1]
            lab_m = re.findall(r"\\\* <(\w+)[^>]*>", pre if k == 1 else parts[k - 1])
            label = lab_m[-1] if lab_m else "?"
            # strip trailing comment for next state
            body_clean = re.split(r"^\\\* <", body, flags=re.M)[0]
            body_clean = re.split(r"^={4,}", body_clean, flags=re.M)[0]
            beh.append((label, parse_state_text(body_clean)))
        behs.append(beh)
    shutil.rmtree(d, ignore_errors=True)
    if not behs and "Error" in r.out:
        raise RuntimeError("TLC simulate failed:\n" + r.out[-3000:])
    return behs
