"""Batch evaluation of recorded cases by a TLA+ module (mode M5 for pure mechanisms).

The module reads IOEnv.CASES (a JSON array), and prints
<<"verdicts", [i \\in 1..Len(Cases) |-> Verdict(Cases[i])]>> from an ASSUME.
Chunks are evaluated by parallel single-worker TLC processes.
"""

from __future__ import annotations

import json
import os
from concurrent.futures import ThreadPoolExecutor

from . import tlc


def judge(module: str, cases: list, scratch: str, *, chunks: int = 16, cfg: str = "Batch.cfg",
          timeout: float = 1800, tag: str = "verdicts", extra_env: dict | None = None) -> list:
    if not cases:
        return []
    n = len(cases)
    chunks = max(1, min(chunks, (n + 49) // 50))
    size = (n + chunks - 1) // chunks
    parts = [cases[i:i + size] for i in range(0, n, size)]

    def one(idx_part):
        idx, part = idx_part
        path = os.path.join(scratch, f"cases-{module}-{idx}-{os.getpid()}.json")
        with open(path, "w") as f:
            json.dump(part, f)
        env = {"CASES": path}
        env.update(extra_env or {})
        for attempt in range(3):
            r = tlc.run(module, cfg, workers=1, env=env, scratch=scratch, timeout=timeout, parse_trace=False)
            vals = tlc.printed_values(r.out, tag)
            if len(vals) == 1:
                break
            # the JVM did not come up or was killed (many TLC processes at once on a loaded machine): not a verdict, try again
            import time

            time.sleep(2 + 3 * attempt)
        os.unlink(path)
        if len(vals) != 1:
            raise RuntimeError(f"TLC batch {module} chunk {idx} failed:\n{r.out[-1200:]}")
        v = vals[0]
        if isinstance(v, dict):  # function printed as (1 :> a @@ ...)
            v = tuple(v[k] for k in sorted(v))
        if len(v) != len(part):
            raise RuntimeError(f"TLC batch {module}: {len(v)} verdicts for {len(part)} cases")
        return list(v)

    with ThreadPoolExecutor(max_workers=min(16, len(parts))) as ex:
        res = list(ex.map(one, enumerate(parts)))
    return [x for part in res for x in part]
