"""Write MANIFEST.json from the table below (single source of truth for the interface)."""
import json, os, subprocess

VERIF = os.path.dirname(os.path.dirname(os.path.abspath(__file__)))

CLAIMS = {
 "C01": dict(
   text="TLC exhaustively checks Dec(Enc(v)) = v, DumpError iff unsupported leaf, and 'no strict prefix loads' on the reference encoder/decoder (spec/Serializer.tla) for a bounded value grammar; the same values (TLC-enumerated) plus seeded generated values far beyond the bounds are pushed through the real dumps/loads, dump/load, dumps_internal and a real popen channel, and every recorded result is judged by TLC against the reference (spec/SerCases.tla). Values also travel over socket and via= gateways, including multi-megabyte ones (compared through length and SHA-1 by TLC), next to an unrelated channel whose coercion was reconfigured; every ordered pair of leaves of different types and instances of subclasses next to their base type are among the values.",
   note="Trusted: the Python<->model value projection (mbt/pyval.py), TLC, struct.pack for float bits. Bounded grammar in TLC; beyond it conformance sampling only.",
   technique="TLA+ reference codec model-checked with TLC; TLC-enumerated + generated values replayed into real code; recorded results validated by TLC",
   ref="5/C01"),
 "C12": dict(
   text="The byte format is pinned by an independent TLA+ reference encoder/decoder (opcode letters, INT/LONGINT cut-over, post-order containers, STOP, legacy opcodes x coercion switches, version byte); real dumps() output is compared byte-for-byte with Dumps(v) evaluated by TLC and real loads() of reference-built legacy streams with the reference decoder, under interpreters 3.10-3.13. The execnet release installed in the venv serves as a second binary of the format (its output and its loads judged against the same reference; each side loads what the other wrote). The plumbing of the coercion switches (Gateway.reconfigure, Channel.reconfigure, inheritance at channel creation, decode at dispatch) is modelled in spec/StrConfig.tla; every operation sequence of the model (TLC-enumerated) is replayed on the real gateway pair with legacy-opcode frames injected and TLC judges what receive() returned.",
   note="No historical execnet release or Python 2 is available offline; compatibility is established against the specification of format v2, not against old binaries.",
   technique="TLA+ reference codec; byte-for-byte conformance of recorded dumps()/loads() results evaluated by TLC; multi-interpreter replay",
   ref="5/C12"),
 "C13": dict(
   text="TLC shows the decoder machine total (typed outcome, progress, termination, no channel without factory) on all opcode soups of bounded length (raw alphabet and structured tokens); the real loads()/load() is run on TLC's token soups, raw soups, random bytes and every prefix/1-byte mutation of valid dumps under an audit hook, and TLC judges each recorded outcome (allowed exception class, supported types only, equality on well-formed streams, no prefix loads). Malformed streams whose stack is thousands of containers deep when the error is detected are among the inputs.",
   note="Side effects are observed via sys.addaudithook; lenient acceptance of malformed input is allowed; memory-bomb length fields are a listed known finding (run under RLIMIT_AS).",
   technique="TLA+ decoder machine model-checked with TLC over bounded soups; TLC-enumerated tokens + mutations replayed into real loader; outcomes validated by TLC",
   ref="5/C13"),
 "C09": dict(
   text="spec/WorkerPool.tla models spawn / _try_send_to_primary_thread / integrate_as_primary_thread / trigger_shutdown / _perform_spawn / waitall at critical-section granularity; TLC checks at-most-once, waitall truthfulness and, under weak fairness, that every accepted task runs, every waitall returns and the primary leaves after shutdown, for thread / main_thread_only / no-primary pools, and kills the un-fixed design (Fix_KeepPendingTask=FALSE). The real WorkerPool runs under a deterministic baton scheduler (DFS, random, PCT, post-yield and TLC-behaviour-hinted schedules); every distinct observable trace is judged by TLC with the property automaton spec/PoolAbs.tla. On a real popen worker a task running on a secondary pool thread when gateway.exit() arrives must still reach its last statement (spec/PoolRealCases.tla).",
   note="Trusted: simulated Lock/Event/Queue semantics, timed waits expire only at quiescence, preemption at synchronisation operations only. Bounded thread/task counts.",
   technique="TLA+ model of WorkerPool model-checked with TLC (safety+liveness, mutant); real pool under deterministic schedule exploration incl. TLC-generated schedules; traces validated by TLC against property automaton",
   ref="5/C09"),
 "C02": dict(
   text="spec/Gateway.tla models data frames, the receiver thread's dispatch under _receivelock, the item queue, concurrent receive() loops and setcallback() draining; TLC checks ordered, duplicate-free delivery and liveness. Generated channel programs run on the real Gateway + WorkerGateway.serve() pair over the real Popen2IO/SocketIO with scripted pipes under a deterministic baton scheduler; TLC judges every distinct event trace with spec/GatewayAbs.tla (items dequeued / passed to callbacks per endpoint = the frames that arrived, in order, once, on the right channel).",
   note='Trusted: simulated Lock/Event/Queue/pipe semantics; preemption at synchronisation/IO operations and at source lines of listed functions; virtual time. TLC instance: one channel, K<=3 items, <=3 receivers. Oracle = property automaton spec/GatewayAbs.tla evaluated by TLC on every distinct trace.',
   technique='TLA+ model of channel send/dispatch/receive/close/setcallback model-checked with TLC; real Gateway+WorkerGateway pair under deterministic schedule exploration (sync-point and line-level preemption); every trace validated by TLC against the TLA+ property automaton',
   ref="5/C02"),
 "C03": dict(
   text='spec/Gateway.tla models _local_close and Channel.close write by write (error list, closed flag, ENDMARKER, endmarker callback, receiveclosed event); TLC checks EOF-means-complete, observer-sees-closed and liveness for all interleavings with 1-3 receivers, a waitclose caller, setcallback and a local close, and kills the pinned-tree ordering (Fix_CloseFlagFirst=FALSE). Generated send/close histories run on the real gateway pair in the simulator; GatewayAbs.tla (evaluated by TLC) demands EOF only after all arrived items, EOF forever after, and OSError/isclosed()/immediate waitclose after a close was performed or observed.',
   note='Trusted: simulated Lock/Event/Queue/pipe semantics; preemption at synchronisation/IO operations and at source lines of listed functions; virtual time. TLC instance: one channel, K<=3 items, <=3 receivers. Oracle = property automaton spec/GatewayAbs.tla evaluated by TLC on every distinct trace.',
   technique='TLA+ model of channel send/dispatch/receive/close/setcallback model-checked with TLC; real Gateway+WorkerGateway pair under deterministic schedule exploration (sync-point and line-level preemption); every trace validated by TLC against the TLA+ property automaton',
   ref="5/C03"),
 "C07": dict(
   text='spec/Gateway.tla with error closes: TLC checks the error is raised at most once, is delivered, and does not disturb ordering. Failures at every stream position (remote bodies, callbacks on either side, channel alive or dropped, after reconfigure) run on the real gateway pair in the simulator with a sibling channel; GatewayAbs.tla (TLC) demands RemoteError exactly once, only after all arrived items, never EOFError in its place, a proper error on the failing side, and a live receiver thread afterwards. On a real gateway remote code sends text and then fails while the initiator reads through makefile('r'); TLC requires exactly one RemoteError among all reads, waitclose and receive (spec/ChanFileErrCases.tla). The program families also run on a gateway whose string coercion was reconfigured and on the scripted socket.',
   note='Trusted: simulated Lock/Event/Queue/pipe semantics; preemption at synchronisation/IO operations and at source lines of listed functions; virtual time. TLC instance: one channel, K<=3 items, <=3 receivers. Oracle = property automaton spec/GatewayAbs.tla evaluated by TLC on every distinct trace.',
   technique='TLA+ model of channel send/dispatch/receive/close/setcallback model-checked with TLC; real Gateway+WorkerGateway pair under deterministic schedule exploration (sync-point and line-level preemption); every trace validated by TLC against the TLA+ property automaton',
   ref="5/C07"),
 "C10": dict(
   text='spec/Gateway.tla models setcallback under _receivelock against dispatch and concurrent receive(); TLC checks callback order, at most one endmarker, and that a lone callback gets all K items and exactly one endmarker. Programs placing setcallback before/between/after in-flight items and closes (incl. dropped channel objects, gateway exit) run on the real gateway pair; GatewayAbs.tla (TLC) checks every item once in order, nothing after the endmarker, exactly one requested endmarker, receive() refused; callbacks that raise or close their own channel, MultiChannel queues and dropped callback channels are among the programs; spec/ChanLife.tla (channel life cycle of both ends) is replayed operation by operation on the real pair with the abstract state compared after every step.',
   note='Trusted: simulated Lock/Event/Queue/pipe semantics; preemption at synchronisation/IO operations and at source lines of listed functions; virtual time. TLC instance: one channel, K<=3 items, <=3 receivers. Oracle = property automaton spec/GatewayAbs.tla evaluated by TLC on every distinct trace.',
   technique='TLA+ model of channel send/dispatch/receive/close/setcallback model-checked with TLC; real Gateway+WorkerGateway pair under deterministic schedule exploration (sync-point and line-level preemption); every trace validated by TLC against the TLA+ property automaton',
   ref="5/C10"),
 "C18": dict(
   text='spec/ChanIds.tla (TLC) models id allocation of both sides (odd/even counters under the factory lock, explicit ids from the peer) and kills the unlocked design. Concurrent newchannel/remote_exec on both sides and channels passed over channels (also nested) run on the real gateway pair with line-level preemption inside ChannelFactory.new; GatewayAbs.tla (TLC) checks ids pairwise distinct with the right parity, traffic on transferred channels reaching the original conversation (per-endpoint order), and channel/callback tables not larger after open/transfer/close/drop cycles than before (once the conversation has settled). spec/ChanLife.tla models the channel life cycle of both ends (opened/sendonly/closed/deleted, weak _channels, strong _callbacks, the four channel frames); TLC checks no table entry is left, the endmarker exactly once, nothing after it; every maximal sequential behaviour of the model (TLC-enumerated) is replayed on the real pair and the abstract state of both ends compared after every operation.',
   note='Trusted: simulated Lock/Event/Queue/pipe semantics; preemption at synchronisation/IO operations and at source lines of listed functions; virtual time. TLC instance: one channel, K<=3 items, <=3 receivers. Oracle = property automaton spec/GatewayAbs.tla evaluated by TLC on every distinct trace.',
   technique='TLA+ models of channel-id allocation and of channel send/dispatch/receive/close/setcallback model-checked with TLC; real Gateway+WorkerGateway pair under deterministic schedule exploration (sync-point and line-level preemption); every trace validated by TLC against the TLA+ property automaton',
   ref="5/C18"),
 "C04": dict(
   text='The worker->initiator byte stream of each program is cut after every possible number of bytes (0..L: inside headers, inside payloads, between frames), either breaking the connection or killing the peer, over the real Popen2IO and SocketIO under explored schedules and read chunkings; the survivor has blocked receivers, waitclose callers and a callback with endmarker. spec/GatewayAbs.tla (TLC) demands: delivered items = the frames that arrived completely, in order; then EOFError; endmarker exactly once; no thread blocked forever; after join() send/newchannel/remote_exec raise OSError and hasreceiver() is false. spec/Gateway.tla gives the exhaustive interleaving argument for the close path. On real transports the worker process of a popen, socket and via= gateway (also behind an execnet-less interpreter) is SIGKILLed in mid-conversation and every blocked and later operation of the survivor is judged clause by clause by TLC (spec/LossCases.tla).',
   note="Trusted: simulated Lock/Event/Queue/pipe semantics; preemption at synchronisation/IO operations and at source lines of listed functions; virtual time. Oracle = property automaton spec/GatewayAbs.tla evaluated by TLC on every distinct trace. 'From then on' = from the return of join().",
   technique='TLA+ model of channel dispatch/close model-checked with TLC; real gateway pair in a deterministic simulator with the connection cut at every byte offset (two failure modes, two IO classes) x schedules; every trace validated by TLC against the TLA+ property automaton',
   ref="5/C04"),
 "C08": dict(
   text='spec/Wire.tla models N writer threads, atomic pipe writes vs. partial socket sends with and without the write lock, arbitrary read chunking and a cut losing any suffix; TLC checks that the decoded frames are exactly sent frames in per-writer order (frame-granular interleaving), kills the lock-free socket design, and proves arrival under fairness. The real Message.to_io/from_io run over the real Popen2IO and SocketIO on scripted files/sockets with generated frame programs (codes 0-7, ids over the signed 32-bit range, payloads 0-200000 bytes), 1-byte/ random chunkings, partial sends, cuts, random/PCT schedules and line-level preemption; concurrent senders of MB-sized items run on real popen, socket and via gateways. Every recorded execution is judged by TLC (spec/WireCases.tla). The worker is also the sending side: several threads, or greenlets of a gevent-hosted socket worker, send 8 MB frames at once.',
   note="Trusted: one write() on a buffered pipe file is atomic; socket sendall = loop of partial sends; payload identity via (type, id, length, uniform fill byte). Real-transport part cannot choose schedules.",
   technique="TLA+ wire model model-checked with TLC (incl. mutant); real framing code over scripted files/sockets under explored schedules/chunkings + real transports; executions validated by TLC against the TLA+ property automaton",
   ref="5/C08"),
 "C14": dict(
   text="spec/ExecSched.tla models _local_schedulexec (wait on _executetask_complete with the 1 s time-out firing only at quiescence, clear, spawn), the main_thread_only mailbox hand-over, the main thread and executetask's epilogue for ALL histories of outcomes {return, raise, SystemExit, blocked} x {sequential, overlapping} of length <= 3 (thorough 4); TLC checks start order, that the deadlock error is only produced while a body occupies the main thread and never for a sequential submission, that every submission is answered, and kills two mutants (event set on the success path only; event cleared after spawn). The same histories run on the real WorkerGateway(main_thread_only)+initiator in the simulator (line-level preemption in the scheduling functions) and on real popen//execmodel=main_thread_only workers; TLC judges every trace with spec/ExecAbs.tla (main thread, one at a time, submission order, no false deadlock, earlier body undisturbed). main_thread_only is also requested through Group.set_execmodel and observed on a socket worker hosted by a main_thread_only gateway.",
   note="Trusted: simulator primitives and virtual time (1 s wait expires only at quiescence); KeyboardInterrupt outcome not driven in the simulator. Histories bounded in length.",
   technique="TLA+ model of main_thread_only scheduling model-checked with TLC over all bounded histories (incl. 2 mutants); real worker+initiator under deterministic schedule exploration and real popen workers; traces validated by TLC against the TLA+ property automaton",
   ref="5/C14"),
 "C19": dict(
   text="spec/ChanFile.tla states the reference (a position in the concatenation of the items) next to the buffer algorithm of ChannelFileRead.read/readline; TLC checks algorithm = reference for every split of every string over {a, b, newline} (<= 3/4 chars, <= 3 items incl. empty) and every call sequence. The same scenario space (text and bytes), generated long unicode/binary inputs and real popen channels (makefile('r') and makefile('w'): one item per write, flush, write after close, proxyclose) are run on the real code; TLC judges every recorded result against the reference (spec/ChanFileCases.tla). Real channels that end in every way (end of the remote code, local close with unread items, a peer that dropped its end, gateway exit) are read to EOF and beyond; a read that blocks is a violation.",
   note="Trusted: stub channel for the exhaustive part; code points / bytes projection. An ended channel without any item yields '' also for byte streams (accepted as empty).",
   technique="TLA+ reference file semantics + transliterated buffer algorithm model-checked with TLC; model's scenario space replayed on the real ChannelFile classes; results validated by TLC",
   ref="5/C19"),
 "C20": dict(
   text='spec/XSpec.tla defines Split/Parse and, independently, Expected(kvs) for key/value lists; TLC checks Parse(Join(kvs)) = Expected(kvs) for all lists of <= 2 (3) pairs over an alphabet with every structural character and determines the unambiguous domain; spec/GroupIds.tla models allocate_id / _register of concurrent makegateway calls and terminate (TLC kills the check-then-append design). The real XSpec is run on enumerated and generated lists and judged by TLC (attributes, env, str/eq/hash, absent names, ValueError on any repeated key). Group id allocation/registration and the container protocol run as the real code under the baton scheduler with line-level preemption (preemption-bounded systematic + random schedules) and on a real Group with real popen gateways; TLC checks no two live gateways share an id, auto ids unique, lookups agree with iteration, failed makegateway leaves no process. spec/GroupIds.tla also covers creations that fail (the counter-hand-back design is killed); the group simulator injects such failures, looks gateways up by object after id reuse and exits gateways twice.',
   note="Trusted: process creation replaced by recording fakes in the simulated Group runs; ambiguous joins are outside the domain. Known findings: key named 'env', concurrent id collision leaves a process.",
   technique="TLA+ parser spec model-checked with TLC over bounded key/value lists; recorded XSpec results and Group event traces (deterministic simulator with line-level preemption + real gateways) validated by TLC",
   ref="5/C20"),
 "C17": dict(
   text="spec/RSync.tla transcribes the receiver's decision at a path as a function of (source entry, prior target entry, delete, cwd) and states Want (what the statement demands) next to it; TLC checks target = source, that the two accepted limitations are exactly characterised, and minimality (a second sync transfers nothing and changes nothing) for all 86400 cases of the pair-complete instance (24 files x modes x mtimes, 5 link kinds, absent, directories), and kills the two pre-fix designs (mode | 0o700 on files, cwd-relative link classification). The case space is materialised on disk and synced by the real RSync through a real popen gateway (kind-changing pairs + sample in quick, all 14400 pairs in thorough), each with a re-sync, plus generated trees with several targets and modify-then-resync; TLC judges every recorded outcome (spec/RSyncCases.tla). spec/RSyncProto.tla models the 1:N protocol message by message (structure broadcast, serve loop, per-target request/data/ack/links/done, failing targets); TLC checks pairing, completeness of every target at return, callbacks once, send() ends, kills 3 mutants, and that the model stays inside the sender-observable language spec/RSyncProtoAbs.tla, against which sender-side event traces of real 1-3 target syncs are validated.",
   note="Run as root (no permission-denied paths); timestamps of directories and of symlinks themselves not compared; known findings: directory mode | 0o700, same-size-same-mtime quick check.",
   technique="TLA+ decision-table model of the rsync receiver model-checked with TLC over the full pair-complete case space (incl. 2 mutants); cases replayed on the real RSync over a real gateway; outcomes validated by TLC",
   ref="5/C17"),
 "C11": dict(
   text="spec/Termination.tla models the worker's exit ladder (EOF/terminate seen, pool shutdown, waitall 5 s, SIGINT to itself, waitall 10 s, os._exit) against an environment automaton (idle, blocked in receive, busy, sleeping, swallowing KeyboardInterrupt, stopped, dead) with a discrete clock; TLC checks that the worker is gone within 15 ticks by the expected rung and kills the sys.exit-instead-of-os._exit mutant. Real initiator processes create workers over popen / popen//python= / via / socket with thread, main_thread_only and gevent execmodels running generated activities and are SIGKILLed, close the connection, _exit, or die in the middle of a frame or of the bootstrap; every worker pid is watched in /proc and TLC compares the observed time-to-exit with the model's rung deadline (spec/TermCases.tla). The worker side also runs in the deterministic simulator: the stream ends at every point of generated conversations and GatewayAbs.tla (TLC) requires the receiver thread, the pool and every body to wind down (nothing left blocked). Composite activities (a sleeping main-thread body next to a flooding or a short-lived one), flooded workers, lingering user threads / exit hooks (listed finding) are part of the plan; the simulated worker side also runs with line-level preemption inside the pool.",
   note="Wall-clock bounds with fixed slack (3-5.5 s); via= adds one 5 s rung per forwarding level; the OS chooses schedules. Known finding: gevent workers with non-cooperative bodies.",
   technique="TLA+ model of the worker exit ladder with discrete clock model-checked with TLC (incl. mutant); real initiator/worker processes with generated activities and death modes; timed observations validated by TLC against the model's rung deadlines",
   ref="5/C11"),
 "C05": dict(
   text='spec/Termination.tla (initiator half): Group.terminate(timeout) = exit() for every member, then one (join+wait, kill) pair per gateway with `timeout` for the term function, SIGKILL afterwards and a bounded 2*timeout wait, against the environment automaton of remote states; TLC checks terminate returns, within 2*timeout (+1 tick), with no child left, for every environment and time-out, and kills the never-kills mutant. Real Groups with 1-3 popen / via / socket gateways whose workers are idle, blocked, busy, sleeping, swallowing or ignoring interrupts, running extra threads, SIGSTOPped or already dead are terminated with several time-outs; elapsed time, len(group) and every descendant process are observed and judged by TLC (spec/TermCases.tla); failing makegateway calls are checked for leaked processes (also in the simulated Group of C20). Failed makegateway calls under concurrency run in the group simulator (real allocate_id / _register / makegateway with line-level preemption, process creation faked, creation failures injected) and are judged by the Group automaton of spec/XSpecCases.tla.',
   note="Wall-clock bound rounds*2*timeout + 3 s; the OS chooses schedules; run as root. Known finding (shared with C20): concurrent id collision leaves a process.",
   technique="TLA+ model of terminate/kill with discrete clock model-checked with TLC (incl. mutant); real Groups and worker processes with injected signals; timed observations and process-table diffs validated by TLC",
   ref="5/C05"),
 "C15": dict(
   text="spec/Bootstrap.tla models the handshake of the four bootstrap paths against child interpreters with and without execnet, with the set of modules each shipped text imports and the balance of its guarded fallback imports extracted from the current sources by an AST pass at check time; TLC checks that every source-shipping path comes up on a stdlib-only child. Decisive part: children started as `python -I -S` of 3.10-3.13 (execnet verified unimportable) via popen//python=, via= and socket//installvia= (thread and main_thread_only, also with EXECNET_DEBUG set) run the transcript program set; TLC compares each transcript entry by entry with the import-bootstrapped popen worker's, and checks kill/wait through an execnet-less forwarder. The AST projection also lists, per shipped text, the global names it reads that neither it nor the text executed before it binds (Unresolved, required empty by TLC); children whose standard streams are not UTF-8 (legacy C locale, no coercion) are part of the matrix.",
   note="ssh/vagrant not runnable here (same exec-over-pipe path as python=); run-time references on undriven paths are only seen through the import projection.",
   technique="TLA+ handshake model instantiated with an AST projection of the shipped sources, checked with TLC; real execnet-less interpreters 3.10-3.13 on every source bootstrap path; transcripts validated by TLC against the import-bootstrapped baseline",
   ref="5/C15"),
 "C16": dict(
   text="spec/Proxy.tla models ProxyIO + serve_proxy_io (one channel item per master write, forwarder callback into the sub's pipe, one item per complete frame upstream, ChannelFileRead buffering on the master, control channel); TLC checks that the proxied connection is a FIFO byte stream in both directions, control requests are answered in order and kill reaches the sub (42k states). The transcript program set (all serialisable types and sizes up to 4 MB, sub-channels, callbacks, errors, closes, kwargs, stdio floods, two concurrent senders of 150 kB items) runs on {popen, popen//python=, socket//installvia, popen//via} x {thread, main_thread_only, gevent}; TLC compares every transcript with the direct popen one; wait/kill on proxied gateways are observed through the sub's pid. The matrix includes a socket worker hosted by a gevent gateway, concurrent multi-megabyte and tiny senders, and control requests behind a pending wait and after the connection closed; spec/ProxyCtl.tla models the forwarder's receiver thread shared by data and control requests.",
   note="Equivalence on deterministic sequential programs; timing-dependent numbers excluded. Known finding: socket gateways ignore execmodel=.",
   technique="TLA+ proxy model (refinement to a FIFO byte stream) model-checked with TLC; channel-program transcripts on the full transport x execmodel matrix validated by TLC against the popen baseline",
   ref="5/C16"),
 "C06": dict(
   text="spec/RemoteExec.tla states remote_exec's local front end as a two-phase decision table over the shape of what is passed (string / module / function x lambda, first parameter, closure, non-builtin global, shadowed global, nested, defaults, decorated, kwargs none/serialisable/unserialisable); TLC checks that a rejection never sends a frame and that the table agrees with the statement's list of rejected shapes. TLC enumerates the ~250 shapes; each is synthesised as a real source file / module / string and passed to the real remote_exec on a real popen gateway (thorough: also main_thread_only and via): exception class, nothing sent on rejection, code ran, channel bound, __name__, kwargs equal by value and type. Tracebacks of functions, modules and strings are checked for the original file and line; explicit close from inside is refused (also after the initiator closed first) and the channel stays open until the code ends; stdout/stderr/fd 1/fd 2/subprocess output of 0..5 MB is followed by further traffic. TLC judges every recorded case (spec/RemoteExecCases.tla). The stdio cases (incl. remote code that rebinds sys.stdout / sys.stdin) are repeated on a gevent worker. spec/FdTable.tla models the worker's descriptor table (init_popen_io, then raw writes / rebinding / open / close by remote code); every operation sequence of the model runs on a fresh real popen worker and TLC compares the observations and the final /proc/self/fd table with the model. The same code executed repeatedly on one gateway must not see state of an earlier execution.",
   note="The purity analysis is not decided for all Python syntax: the table covers the shapes the statement enumerates plus the shadowed-global shape. 'Nothing sent' is observed through channel id allocation.",
   technique="TLA+ decision-table model of remote_exec checked with TLC; TLC-enumerated shapes synthesised and replayed on the real remote_exec over real gateways; recorded outcomes validated by TLC",
   ref="5/C06"),
}

NOT_YET = {}

def main():
    props = [json.loads(l) for l in open(os.path.join(VERIF, "properties.jsonl"))]
    try:
        commits = subprocess.run(["git", "-C", "/repo", "log", "--format=%H %s", "c817090..HEAD"], capture_output=True, text=True).stdout.splitlines()
    except Exception:
        commits = []
    hook_commits = [c.split()[0] for c in commits if " hooks:" in c or c.split(" ", 1)[1].startswith("hooks:")]
    checks = []
    na = []
    for p in props:
        pid = p["id"]
        c = CLAIMS.get(pid)
        if c is None:
            na.append({"property_id": pid, "reason": NOT_YET.get(pid, "check not built yet in this round; planned in DESIGN.md section 5")})
            continue
        checks.append({
            "property_id": pid,
            "quick_cmd": f"./check {pid} --tier quick",
            "thorough_cmd": f"./check {pid} --tier thorough",
            "evidence_file": f"/verif/evidence/{pid}.json",
            "replay_cmd_template": f"./check {pid} --replay {{path}}",
            "engine": "tlc+conformance",
            "level_claimed": {"category": c.get("category", "model_checking"), "text": c["text"], "design_ref": "DESIGN.md " + c["ref"]},
            "level_note": c["note"],
            "technique": c["technique"],
        })
    m = {
        "version": 1,
        "setup_cmd": "./setup.sh",
        "hooks": {
            "guard": "EXECNET_VERIF",
            "enable": "export EXECNET_VERIF=1 (and EXECNET_VERIF_TRACE=<prefix> for the ndjson sink); pure Python, nothing to build; checks also set PYTHONPATH=/repo/src",
            "baseline_off_cmd": "cd /repo && env -u EXECNET_VERIF -u EXECNET_VERIF_TRACE PYTHONPATH=/repo/src /venv/bin/python -m pytest -ra -q -p no:cacheprovider --timeout=900 --continue-on-collection-errors",
            "source_commits": hook_commits,
            "add_only": True,
        },
        "engines": [
            {"name": "tlc+conformance", "path": "/verif/check", "serves_properties": sorted(CLAIMS),
             "kind_free_text": "explicit TLA+ specifications under /verif/spec checked with TLC; bound to /repo by replaying TLC-generated cases/behaviours into the real code and validating recorded executions of the real code with TLC"},
        ],
        "checks": checks,
        "not_applicable": na,
        "notes": "See DESIGN.md. Exit 2 of ./check means machinery failure, never a verdict. KNOWN_FINDINGS.txt lists recorded defects and fixed ones.",
    }
    json.dump(m, open(os.path.join(VERIF, "MANIFEST.json"), "w"), indent=1)
    print(f"{len(checks)} checks, {len(na)} not_applicable")

if __name__ == "__main__":
    main()
