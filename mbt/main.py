"""./check entry point: dispatch to drivers/cNN.py, write evidence, decide exit code.

Exit codes: 0 held / known findings only; 1 VIOLATION printed; 2 machinery failure.
"""

from __future__ import annotations

import argparse
import importlib
import json
import os
import shutil
import sys
import time
import traceback

from . import findings as findings_mod

VERIF = os.path.dirname(os.path.dirname(os.path.abspath(__file__)))
REPO = os.environ.get("VERIF_REPO") or "/repo"
# runs against a scratch copy of the repository (seeded changes) keep their evidence and replays apart
OUT = VERIF if REPO == "/repo" else os.path.join(VERIF, ".alt")


class MachineryError(Exception):
    pass


class Ctx:
    """What a driver gets: tier, seed, scratch dir, reporters."""

    def __init__(self, pid: str, tier: str, seed: int, replay: str | None) -> None:
        self.pid = pid
        self.tier = tier
        self.seed = seed
        self.replay = replay
        self.quick = tier == "quick"
        self.scratch = os.path.join(VERIF, ".scratch", f"{pid}-{os.getpid()}")
        shutil.rmtree(self.scratch, ignore_errors=True)
        os.makedirs(self.scratch)
        import glob

        for old in glob.glob(os.path.join(OUT, "replays", f"{pid}-*.json")):
            os.unlink(old)
        self.violations: list[dict] = []
        self.known: list[str] = []
        self.findings = findings_mod.load(os.path.join(VERIF, "KNOWN_FINDINGS.txt"))
        self.coverage: dict = {}
        self.assumptions: list[str] = []
        self.t0 = time.time()
        self._nrep = 0
        self.notes: list[str] = []

    # ---- reporting -----------------------------------------------------
    def violation(self, what: str, replay_obj, key: str | None = None) -> None:
        """Report a property violation.  `key` is matched against known findings."""
        kf = self.findings.match(self.pid, key) if key else None
        if kf is not None:
            line = f"KNOWN-FINDING: property={self.pid} key={key} {kf}"
            if line not in self.known:
                self.known.append(line)
                print(line, flush=True)
            return
        self._nrep += 1
        os.makedirs(os.path.join(OUT, "replays"), exist_ok=True)
        path = os.path.join(OUT, "replays", f"{self.pid}-{self._nrep}.json")
        with open(path, "w") as f:
            json.dump({"property": self.pid, "what": what, "replay": replay_obj}, f, default=repr, indent=1)
        self.violations.append({"what": what, "replay": path})
        if self._nrep <= 5:
            print(f"VIOLATION property={self.pid} replay={path}", flush=True)
            print(f"  what: {what[:400]}", flush=True)

    def note(self, msg: str) -> None:
        self.notes.append(msg)
        print(f"[{self.pid}] {msg}", flush=True)

    def machinery(self, msg: str) -> None:
        raise MachineryError(msg)


def assert_repo_execnet() -> None:
    import execnet

    f = os.path.realpath(execnet.__file__)
    if not f.startswith(REPO + "/src/"):
        print(f"MACHINERY: execnet imported from {f}, not {REPO}/src", file=sys.stderr)
        sys.exit(2)


def main(argv=None) -> int:
    ap = argparse.ArgumentParser()
    ap.add_argument("pid")
    ap.add_argument("--tier", default=os.environ.get("VERIF_TIER", "quick"), choices=["quick", "thorough"])
    ap.add_argument("--replay", default=None)
    ap.add_argument("--keep", action="store_true", help="keep scratch dir")
    args = ap.parse_args(argv)
    pid = args.pid.upper()
    seed = int(os.environ.get("VERIF_SEED", "0") or 0)
    assert_repo_execnet()
    ctx = Ctx(pid, args.tier, seed, args.replay)
    try:
        mod = importlib.import_module(f"drivers.{pid.lower()}")
    except ModuleNotFoundError as e:
        print(f"MACHINERY: no driver for {pid}: {e}", file=sys.stderr)
        return 2
    rc = 0
    try:
        level = mod.run(ctx) or "model_checking"
    except MachineryError as e:
        print(f"MACHINERY: {e}", file=sys.stderr)
        rc = 2
        level = None
    except Exception:
        traceback.print_exc()
        try:  # keep the reason where a later look can find it (callers often filter stderr)
            os.makedirs(os.path.join(OUT, "replays"), exist_ok=True)
            with open(os.path.join(OUT, "replays", f"{pid}.machinery.txt"), "w") as f:
                f.write(f"tier={args.tier} seed={seed}\n" + traceback.format_exc())
        except OSError:
            pass
        print("MACHINERY: driver raised", file=sys.stderr)
        rc = 2
        level = None
    wall = time.time() - ctx.t0
    if rc == 0:
        ev = {
            "property_id": pid,
            "tier": args.tier,
            "seed": seed,
            "level": level,
            "coverage": ctx.coverage,
            "assumptions": ctx.assumptions,
            "wall_s": round(wall, 2),
            "violations": len(ctx.violations),
            "known_findings": ctx.known,
            "notes": ctx.notes[-40:],
        }
        os.makedirs(os.path.join(OUT, "evidence"), exist_ok=True)
        with open(os.path.join(OUT, "evidence", f"{pid}.json"), "w") as f:
            json.dump(ev, f, indent=1, default=repr)
        if ctx.violations:
            rc = 1
    if not args.keep:
        shutil.rmtree(ctx.scratch, ignore_errors=True)
        try:
            os.rmdir(os.path.join(VERIF, ".scratch"))
        except OSError:
            pass
    print(f"[{pid}] tier={args.tier} seed={seed} rc={rc} wall={wall:.1f}s violations={len(ctx.violations)} known={len(ctx.known)}", flush=True)
    return rc


if __name__ == "__main__":
    sys.exit(main())
