"""Parser for TLA+ values as TLC prints them.

  ints, "strings", TRUE/FALSE, model values (bare identifiers)
  <<a, b>>            -> tuple
  {a, b}              -> frozenset
  [f |-> v, g |-> w]  -> dict (record)
  (k :> v @@ k2 :> v2)-> dict (function)
  a..b                -> tuple of ints a..b (TLC prints intervals for some sets) -> frozenset
"""

from __future__ import annotations


class ModelValue(str):
    def __repr__(self) -> str:
        return f"MV({str.__repr__(self)})"


class _P:
    def __init__(self, s: str) -> None:
        self.s = s
        self.i = 0

    def ws(self) -> None:
        s = self.s
        while self.i < len(s) and s[self.i] in " \t\r\n":
            self.i += 1

    def peek(self, t: str) -> bool:
        self.ws()
        return self.s.startswith(t, self.i)

    def eat(self, t: str) -> None:
        self.ws()
        if not self.s.startswith(t, self.i):
            raise ValueError(f"expected {t!r} at {self.i}: {self.s[self.i:self.i+40]!r}")
        self.i += len(t)

    def value(self):
        self.ws()
        s = self.s
        c = s[self.i]
        if s.startswith("<<", self.i):
            self.i += 2
            items = []
            if self.peek(">>"):
                self.eat(">>")
                return ()
            while True:
                items.append(self.value())
                if self.peek(","):
                    self.eat(",")
                    continue
                self.eat(">>")
                return tuple(items)
        if c == "{":
            self.i += 1
            items = []
            if self.peek("}"):
                self.eat("}")
                return frozenset()
            while True:
                items.append(self.value())
                if self.peek(","):
                    self.eat(",")
                    continue
                self.eat("}")
                return frozenset(_hashable(x) for x in items)
        if c == "[":
            self.i += 1
            d = {}
            if self.peek("]"):
                self.eat("]")
                return d
            while True:
                self.ws()
                j = self.i
                while s[j].isalnum() or s[j] == "_":
                    j += 1
                k = s[self.i:j]
                self.i = j
                self.eat("|->")
                d[k] = self.value()
                if self.peek(","):
                    self.eat(",")
                    continue
                self.eat("]")
                return d
        if c == "(":
            self.i += 1
            d = {}
            while True:
                k = self.value()
                self.eat(":>")
                v = self.value()
                d[_hashable(k)] = v
                if self.peek("@@"):
                    self.eat("@@")
                    continue
                self.eat(")")
                return d
        if c == '"':
            j = self.i + 1
            out = []
            while s[j] != '"':
                if s[j] == "\\":
                    j += 1
                    out.append({"n": "\n", "t": "\t", "r": "\r"}.get(s[j], s[j]))
                else:
                    out.append(s[j])
                j += 1
            self.i = j + 1
            return "".join(out)
        if c.isdigit() or c == "-":
            j = self.i + 1
            while j < len(s) and s[j].isdigit():
                j += 1
            n = int(s[self.i:j])
            self.i = j
            if s.startswith("..", self.i):
                self.i += 2
                m = self.value()
                return frozenset(range(n, m + 1))
            return n
        j = self.i
        while j < len(s) and (s[j].isalnum() or s[j] == "_"):
            j += 1
        if j == self.i:
            raise ValueError(f"cannot parse at {self.i}: {s[self.i:self.i+40]!r}")
        w = s[self.i:j]
        self.i = j
        if w == "TRUE":
            return True
        if w == "FALSE":
            return False
        return ModelValue(w)


def _hashable(x):
    if isinstance(x, dict):
        return tuple(sorted((k, _hashable(v)) for k, v in x.items()))
    if isinstance(x, (list, tuple)):
        return tuple(_hashable(y) for y in x)
    return x


def parse_value(s: str):
    p = _P(s)
    v = p.value()
    p.ws()
    if p.i != len(s):
        raise ValueError(f"trailing text at {p.i}: {s[p.i:p.i+40]!r}")
    return v


def fn_to_seq(d):
    """A TLC function with domain 1..n printed as (1 :> a @@ 2 :> b) -> tuple."""
    if isinstance(d, dict) and d and all(isinstance(k, int) for k in d):
        return tuple(d[k] for k in sorted(d))
    return d
