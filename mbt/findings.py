"""KNOWN_FINDINGS.txt: committed, line oriented, never written at run time.

    known: property=C13 key=overcommit  <what fails>
    fixed: property=C09 <commit> <what failed>

Only `known:` lines suppress, and only a violation whose matcher key (computed
by the oracle from the failing input / call site / history) equals the line's
key.  `fixed:` lines are documentation and suppress nothing.
"""

from __future__ import annotations

import os
import re


class Findings:
    def __init__(self) -> None:
        self.known: dict[tuple[str, str], str] = {}
        self.fixed: list[str] = []

    def match(self, pid: str, key: str | None) -> str | None:
        if key is None:
            return None
        return self.known.get((pid, key))


def load(path: str) -> Findings:
    f = Findings()
    if not os.path.exists(path):
        return f
    for line in open(path):
        line = line.strip()
        if not line or line.startswith("#"):
            continue
        m = re.match(r"known:\s+property=(\S+)\s+key=(\S+)\s+(.*)", line)
        if m:
            f.known[(m.group(1), m.group(2))] = m.group(3)
            continue
        if line.startswith("fixed:"):
            f.fixed.append(line)
    return f
