"""The real Message.to_io / Message.from_io over the real Popen2IO / SocketIO with scripted
files / sockets: N writer threads, one reader, arbitrary chunking and partial sends (C08)."""

from __future__ import annotations

from execnet import gateway_base
from execnet.gateway_base import Message

from sim.pipes import PipeR, PipeW, SimPipe, SimSocket
from sim.prims import SimExecModel
from sim.sched import Sched


def run_wire(program, chooser, transport="popen", chunking="random", cut=None, post_yields=True, line_level=None):
    s = Sched(chooser, max_steps=20000, post_yields=post_yields)
    if line_level:
        import execnet.gateway_socket as gs

        s.line_funcs = set(line_level)
        s.trace_files = {gateway_base.__file__, gs.__file__}
    em = SimExecModel(s, "thread", "em")
    fwd = SimPipe(s, "a>b", "a", "b", chunking)
    back = SimPipe(s, "b>a", "b", "a", chunking)
    fwd.observe_frames = False
    if cut is not None:
        fwd.cut_at = cut
    if transport == "socket":
        from execnet.gateway_socket import SocketIO

        io_w = SocketIO(SimSocket(fwd, back), em)
        io_r = SocketIO(SimSocket(back, fwd), em)
    else:
        io_w = gateway_base.Popen2IO(PipeW(fwd), PipeR(back), em)
        io_r = gateway_base.Popen2IO(PipeW(back), PipeR(fwd), em)
    events = []
    done = []

    def writer(w, frames):
        try:
            for code, chan, ln, fill in frames:
                events.append({"ev": "wcall", "w": w, "code": code, "chan": str(chan), "len": ln, "fill": fill if ln else 0, "res": "", "cut": False})
                try:
                    Message(code, chan, bytes([fill]) * ln).to_io(io_w)
                except OSError:
                    break  # connection cut
        finally:
            done.append(w)
            if len(done) == len(program["writers"]):
                try:
                    io_w.close_write()
                except Exception:
                    pass

    def reader():
        while True:
            try:
                m = Message.from_io(io_r)
            except EOFError:
                events.append({"ev": "end", "w": "", "code": 0, "chan": "0", "len": 0, "fill": 0, "res": "", "cut": cut is not None})
                return
            except BaseException as e:  # noqa: BLE001
                if type(e).__name__ == "SimAbort":
                    raise
                events.append({"ev": "rerr", "w": "", "code": 0, "chan": "0", "len": 0, "fill": 0, "res": type(e).__name__, "cut": False})
                return
            d = m.data
            fill = d[0] if d and d == bytes([d[0]]) * len(d) else (0 if not d else -1)
            events.append({"ev": "rdec", "w": "", "code": m.msgcode, "chan": str(m.channelid), "len": len(d), "fill": fill, "res": "", "cut": False})

    for i, frames in enumerate(program["writers"]):
        s.spawn(f"w{i}", writer, (f"w{i}", frames))
    s.spawn("reader", reader)
    outcome = s.run()
    if outcome != "done":
        events.append({"ev": "stuck", "w": "", "code": 0, "chan": "0", "len": 0, "fill": 0, "res": outcome, "cut": False})
    return {"outcome": outcome, "events": events, "decisions": [d[0] for d in chooser.decisions], "wire_bytes": fwd.written}
