"""Replay of StrConfig.tla operation sequences on the real gateway pair (C12: plumbing of the string-coercion switches).

A "probe" makes one side emit a CHANNEL_DATA frame whose payload uses the Python-2 era opcodes (as a Python 2 peer would);
the other side receives it through Channel.receive() and the value it got is recorded in model form."""

from __future__ import annotations

import gc

from execnet import gateway_base

from mbt import pyval
from sim.chanlife import LifeWorld

PROBE = bytes([77, 0, 0, 0, 1, 97, 78, 0, 0, 0, 1, 98, 83, 0, 0, 0, 1, 99, 71, 0, 0, 0, 7, 64, 0, 0, 0, 4, 81])


class StrWorld(LifeWorld):
    def _drive(self):
        chans = {"L": {}, "R": {}}
        chans["L"]["c"] = self.gw.remote_exec("import sim.world as W\nW.CURRENT.remote_body(channel, 1)\n")
        self._settle()
        if self.rchan is None:
            raise RuntimeError("the body did not start")
        chans["R"]["c"] = self.rchan
        cbitems = {"L": {}, "R": {}}
        for name, side, c, a, b in self.cl_ops:
            obs = ""
            if name == "gwreconf":
                self.gw.reconfigure(py2str_as_py3str=a, py3str_as_py2str=b)
            elif name == "newchan":
                chans["L"]["d"] = self.gw.newchannel()
                chans["L"]["c"].send(chans["L"]["d"])
                self._settle()
                chans["R"]["d"] = chans["R"]["c"].receive(timeout=5)
            elif name == "orphanreconf":
                orphan = self.gw.newchannel()
                orphan.reconfigure(py2str_as_py3str=a, py3str_as_py2str=b)
                self._settle()
                orphan.close()
                orphan = None
            elif name == "chreconf":
                chans[side][c].reconfigure(py2str_as_py3str=a, py3str_as_py2str=b)
            elif name == "setcb":
                cbitems[side][c] = []
                chans[side][c].setcallback(cbitems[side][c].append)
            elif name == "drop":
                del chans["L"][c]
                gc.collect()
            elif name == "probe":
                src = chans[side][c]
                src.gateway._send(gateway_base.Message.CHANNEL_DATA, src.id, PROBE)
                self._settle()
                other = "R" if side == "L" else "L"
                if c in cbitems[other]:
                    obs = pyval.to_model(cbitems[other][c].pop()) if cbitems[other][c] else "nothing-delivered"
                else:
                    obs = pyval.to_model(chans[other][c].receive(timeout=5))
            else:
                raise ValueError(name)
            self._settle()
            self.cl_obs.append(obs)
        chans.clear()
        self.rchan = None


def replay(ops):
    w = StrWorld(ops)
    r = w.run()
    return {"ops": [list(o) for o in ops], "obs": w.cl_obs, "error": w.cl_error, "outcome": r["outcome"]}
