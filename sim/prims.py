"""Simulated concurrency primitives and the ExecModel that hands them to execnet.

Semantics assumed (stated in DESIGN.md 9): Lock/RLock are re-entrant mutexes
(ThreadExecModel.Lock() *is* threading.RLock), Event and Queue as in the
standard library, waits with a timeout expire only at quiescence (virtual time).
"""

from __future__ import annotations

from execnet import gateway_base


class SimLock:
    def __init__(self, sched, name="lock"):
        self.s = sched
        self.name = name
        self.owner = None
        self.count = 0

    def _free_for(self, me):
        return self.owner is None or self.owner is me

    def acquire(self, blocking=True, timeout=-1):
        me = self.s.me()
        if me is None:
            me = "ctl"
        if not blocking:
            self.s.yield_(("tryacq", self.name))
            if not self._free_for(me):
                return False
        else:
            to = None if timeout is None or timeout < 0 else timeout
            ok = self.s.yield_(("acq", self.name), lambda: self._free_for(me), timeout=to)
            if not ok:
                return False
        self.owner = me
        self.count += 1
        return True

    def release(self):
        me = self.s.me() or "ctl"
        if self.owner is not me:
            raise RuntimeError("cannot release un-acquired lock")
        self.count -= 1
        if self.count == 0:
            self.owner = None
            self.s.milestone()
            if self.s.post_yields:
                self.s.yield_(("rel", self.name))

    __enter__ = acquire

    def __exit__(self, *a):
        self.release()

    def locked(self):
        return self.owner is not None


class SimEvent:
    def __init__(self, sched, name="event"):
        self.s = sched
        self.name = name
        self.flag = False

    def is_set(self):
        self.s.yield_(("is_set", self.name))
        return self.flag

    isSet = is_set

    def set(self):
        self.s.yield_(("set", self.name))
        self.flag = True
        self.s.milestone()
        if self.s.post_yields:
            self.s.yield_(("set-post", self.name))

    def clear(self):
        self.s.yield_(("clear", self.name))
        self.flag = False

    def wait(self, timeout=None):
        self.s.yield_(("wait", self.name), lambda: self.flag, timeout=timeout)
        self.s.milestone()
        return self.flag


class Empty(Exception):
    pass


class Full(Exception):
    pass


class SimQueue:
    def __init__(self, sched, name="queue", maxsize=0):
        self.s = sched
        self.name = name
        self.items = []
        self.on_get = None  # observation hook: (queue, item)

    def put(self, item, block=True, timeout=None):
        self.s.yield_(("put", self.name))
        self.items.append(item)
        if self.s.post_yields:
            self.s.yield_(("put-post", self.name))

    def put_nowait(self, item):
        self.put(item)

    def get(self, block=True, timeout=None):
        if not block:
            self.s.yield_(("get_nowait", self.name))
            if not self.items:
                raise Empty
        else:
            ok = self.s.yield_(("get", self.name), lambda: bool(self.items), timeout=timeout)
            if not ok:
                raise Empty
        item = self.items.pop(0)
        if self.on_get is not None:
            self.on_get(self, item)
        return item

    def get_nowait(self):
        return self.get(block=False)

    def qsize(self):
        return len(self.items)

    def empty(self):
        return not self.items


class _QueueModule:
    Empty = Empty
    Full = Full

    def __init__(self, sched):
        self._s = sched
        self._n = 0
        self.created = []

    def Queue(self, maxsize=0):
        self._n += 1
        q = SimQueue(self._s, f"q{self._n}")
        self.created.append(q)
        return q


class SimExecModel(gateway_base.ThreadExecModel):
    """All blocking and all thread creation of execnet under the baton scheduler."""

    def __init__(self, sched, backend="thread", name="em"):
        self.s = sched
        self._backend = backend
        self.name = name
        self._queue = _QueueModule(sched)
        self._nlock = 0
        self._nev = 0
        self._nthreads = 0
        self.thread_prefix = name
        self.namer = None

    @property
    def backend(self):
        return self._backend

    @property
    def queue(self):
        return self._queue

    def get_ident(self):
        t = self.s.me()
        return t.ident if t is not None else 0

    def sleep(self, delay):
        self.s.yield_(("sleep", delay), lambda: False, timeout=delay)

    def start(self, func, args=()):
        self._nthreads += 1
        self.s.yield_(("start", self._nthreads))
        name = self.namer(func, args) if self.namer is not None else None
        self.s.spawn(name or f"{self.thread_prefix}-t{self._nthreads}", func, args)

    def Lock(self):
        self._nlock += 1
        return SimLock(self.s, f"{self.name}-L{self._nlock}")

    RLock = Lock

    def Event(self):
        self._nev += 1
        return SimEvent(self.s, f"{self.name}-E{self._nev}")
