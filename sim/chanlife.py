"""Replay of ChanLife.tla's sequential behaviours on the real gateway pair (spec -> code, state compared after each step).

One user channel: side "L" is the initiator's end of a remote_exec channel, side "R" the body's `channel`.
After every operation the driver sleeps in virtual time (the sleep ends only at quiescence: both receiver
threads have handled everything in flight), then projects the abstract state of both ends from the real
objects: Channel._closed / _receiveclosed / _items, ChannelFactory._channels / _callbacks, what the callback
and receive() calls obtained."""

from __future__ import annotations

import gc

from execnet import gateway_base

from sim.sched import Chooser
from sim.world import World


class LifeWorld(World):
    def __init__(self, ops):
        program = {"threads": [{"name": "u1", "side": "i", "ops": []}], "bodies": {"1": []}}
        super().__init__(program, Chooser(default="first"))
        self.cl_ops = ops
        self.cl_obs: list = []
        self.rchan = None
        self.end_body = False
        self.fail_body = False
        self.cnt = {s: {"ends": 0, "cbgot": 0, "rgot": 0, "eof": False, "rerr": 0, "tmo": 0, "operr": 0} for s in "LR"}
        self.cl_error = ""

    # the body of the remote_exec: park until told to end (the ops of side R are applied to its channel by the driver)
    def remote_body(self, channel, body_id):
        self.rchan = channel
        self.open_bodies += 1
        try:
            channel = None
            self.s.yield_(("gate", "end_body"), lambda: self.end_body)
            if self.fail_body:
                raise RuntimeError("BOOM in body")
        finally:
            self.open_bodies -= 1

    def _settle(self):
        gc.collect()
        self.em_i.sleep(1.0)
        gc.collect()

    def _cb(self, side):
        def cb(item):
            if isinstance(item, str) and item == "ENDMARK":
                self.cnt[side]["ends"] += 1
            else:
                self.cnt[side]["cbgot"] += 1
        return cb

    def _project(self, side, chan, factory, cid):
        alive = chan is not None
        ent = factory._callbacks.get(cid)
        q = []
        if alive and chan._items is not None:
            q = ["E" if x is gateway_base.ENDMARKER else "d" for x in list(chan._items.items)]
        c = self.cnt[side]
        return {"alive": alive, "reg": cid in factory._channels,
                "cb": "none" if ent is None else ("plain" if ent[1] is gateway_base.NO_ENDMARKER_WANTED else "end"),
                "ends": c["ends"], "cbgot": c["cbgot"], "rgot": c["rgot"], "eof": c["eof"], "rerr": c["rerr"], "tmo": c["tmo"], "operr": c["operr"],
                "closed": bool(alive and chan._closed), "rc": bool(alive and chan._receiveclosed.is_set()),
                "hasq": bool(alive and chan._items is not None), "queue": q,
                "errs": len(chan._remoteerrors) if alive else 0}

    def run_thread(self, th):
        try:
            self._drive()
        except BaseException as e:  # noqa: BLE001
            self.cl_error = f"{type(e).__name__}: {e}"
        finally:
            self.end_body = True

    def _drive(self):
        lchan = self.gw.remote_exec("import sim.world as W\nW.CURRENT.remote_body(channel, 1)\n")
        cid = lchan.id
        self._settle()
        if self.rchan is None:
            raise RuntimeError("the body did not start")
        for name, side, kind in self.cl_ops:
            chan = lchan if side == "L" else self.rchan
            if name in ("send", "setcb", "close"):
                try:
                    if name == "send":
                        chan.send(1)
                    elif name == "close":
                        chan.close()
                    elif kind == "end":
                        chan.setcallback(self._cb(side), endmarker="ENDMARK")
                    else:
                        chan.setcallback(self._cb(side))
                except (OSError, ValueError, TypeError, KeyError, RuntimeError):
                    self.cnt[side]["operr"] += 1  # the model enables this operation, the real one raised
            elif name == "receive":
                try:
                    chan.receive(timeout=5)
                    self.cnt[side]["rgot"] += 1
                except EOFError:
                    self.cnt[side]["eof"] = True
                except gateway_base.RemoteError:
                    self.cnt[side]["rerr"] += 1
                except gateway_base.TimeoutError:
                    self.cnt[side]["tmo"] += 1  # the model has an item or the endmarker in the queue, the real receive() found nothing
            elif name == "drop":
                lchan = None
            elif name in ("bodyend", "bodyfail"):
                self.rchan = None
                self.fail_body = name == "bodyfail"
                self.end_body = True
            else:
                raise ValueError(name)
            chan = None
            self._settle()
            self.cl_obs.append({"L": self._project("L", lchan, self.gw._channelfactory, cid),
                                "R": self._project("R", self.rchan, self.wgw._channelfactory, cid)})


def replay(ops):
    w = LifeWorld(ops)
    r = w.run()
    return {"ops": [list(o) for o in ops], "obs": w.cl_obs, "error": w.cl_error, "outcome": r["outcome"]}


def replay_many(words):
    return [replay(w) for w in words]
