"""execnet.multi.Group id allocation / registration under the baton scheduler (C20, C05 logic).
Process creation and bootstrap are replaced by recording fakes; Group, allocate_id, _register,
_unregister and the container protocol are the real code."""

from __future__ import annotations

import atexit

import execnet.multi as multi
from execnet.xspec import XSpec

from sim.prims import SimExecModel, SimLock
from sim.sched import Sched


class FakeGateway:
    def __init__(self, io, spec, world):
        self.id = spec.id
        self.spec = spec
        self._io = io
        self.world = world

    def exit(self):
        if self in self._group:
            self._group._unregister(self)

    def join(self, timeout=None):
        pass


class _FakeIO:
    def wait(self):
        return 0

    def kill(self):
        pass


def run_group(program, chooser, line_level=("allocate_id", "_register", "makegateway", "_unregister", "__contains__", "__getitem__")):
    s = Sched(chooser, max_steps=8000, post_yields=True)
    s.line_funcs = set(line_level)
    s.trace_files = {multi.__file__}
    em = SimExecModel(s, "thread", "g")
    events = []
    started = [0]
    old = (multi.Lock, multi.gateway_io.create_io, multi.gateway_bootstrap.bootstrap)
    multi.Lock = lambda: SimLock(s, "autoid")

    mine_started = {}
    allgws = []

    failing = set()

    def fake_create_io(spec, execmodel):
        s.yield_(("create_io", spec.id))
        if s.me().name in failing:  # the process cannot be started (exec fails, connection refused ...): nothing is left behind
            failing.discard(s.me().name)
            raise OSError("injected: cannot start the process")
        started[0] += 1
        mine_started[s.me().name] = True
        return _FakeIO()

    def fake_bootstrap(io, spec):
        s.yield_(("bootstrap", spec.id))
        return FakeGateway(io, spec, None)

    multi.gateway_io.create_io = fake_create_io
    multi.gateway_bootstrap.bootstrap = fake_bootstrap
    try:
        group = multi.Group(execmodel=em)
        atexit.unregister(group._cleanup_atexit)

        def snap(e, op, thread, gid, res, auto):
            saved, s.line_funcs = s.line_funcs, set()  # the observation itself is atomic
            try:
                _snap(e, op, thread, gid, res, auto)
            finally:
                s.line_funcs = saved

        def _snap(e, op, thread, gid, res, auto):
            live = [gw.id for gw in group]
            agree = True
            try:
                members = list(group)
                for i, gw in enumerate(members):
                    if group[gw.id].id != gw.id or gw.id not in group:
                        agree = False
                # lookups by gateway object: exactly the members are "in" the group, and a member is found as itself
                # (also when a gateway that has exited and a live one carry the same id)
                for g in list(allgws):
                    ismember = any(g is m for m in members)
                    if (g in group) != ismember or (ismember and group[g] is not g):
                        agree = False
            except Exception:
                pass  # the group changed under the snapshot: not an observation of disagreement
            events.append({"ev": e, "op": op, "thread": thread, "id": gid or "", "res": res, "live": live, "agree": agree,
                           "started": started[0], "flag": auto, "mine": bool(mine_started.get(thread)) if e == "ret" else False})
            if e == "call":
                mine_started[thread] = False

        def worker(name, ops):
            mine = []
            gone = []
            for op in ops:
                if op[0] in ("make", "make_fail"):
                    if op[0] == "make_fail":
                        failing.add(name)
                    spec = XSpec("popen" + (f"//id={op[1]}" if op[1] else ""))
                    snap("call", "makegateway", name, op[1], "", op[1] is None)
                    try:
                        gw = group.makegateway(spec)
                        mine.append(gw)
                        allgws.append(gw)
                        snap("ret", "makegateway", name, gw.id, "ok", op[1] is None)
                    except BaseException as e:  # noqa: BLE001
                        if type(e).__name__ == "SimAbort":
                            raise
                        failing.discard(name)
                        snap("ret", "makegateway", name, spec.id or op[1], "Injected" if "injected" in str(e) else type(e).__name__, op[1] is None)
                elif op[0] == "alloc":  # the public allocate_id(): an automatic id is reserved for a spec that is used later (or never)
                    spec = XSpec("popen")
                    snap("call", "allocate", name, None, "", True)
                    try:
                        group.allocate_id(spec)
                        snap("ret", "allocate", name, spec.id, "ok", True)
                    except BaseException as e:  # noqa: BLE001
                        if type(e).__name__ == "SimAbort":
                            raise
                        snap("ret", "allocate", name, spec.id, type(e).__name__, True)
                elif op[0] == "terminate":
                    snap("call", "terminate", name, None, "", False)
                    try:
                        group.terminate(timeout=None)
                        del mine[:]
                        snap("ret", "terminate", name, None, "ok", False)
                    except BaseException as e:  # noqa: BLE001
                        if type(e).__name__ == "SimAbort":
                            raise
                        snap("ret", "terminate", name, None, type(e).__name__, False)
                elif op[0] == "exit" and mine:
                    gw = mine.pop(0)
                    gone.append(gw)
                    snap("call", "exit", name, gw.id, "", False)
                    gw.exit()
                    snap("ret", "exit", name, gw.id, "ok", False)
                elif op[0] == "reexit" and gone:  # exit() of a gateway that has exited already is a no-op
                    gw = gone[0]
                    snap("call", "exit", name, gw.id, "", False)
                    try:
                        gw.exit()
                        snap("ret", "exit", name, gw.id, "ok", False)
                    except BaseException as e:  # noqa: BLE001
                        if type(e).__name__ == "SimAbort":
                            raise
                        snap("ret", "exit", name, gw.id, type(e).__name__, False)

        for name, ops in program["threads"]:
            s.spawn(name, worker, (name, ops))
        outcome = s.run()
    finally:
        multi.Lock, multi.gateway_io.create_io, multi.gateway_bootstrap.bootstrap = old
    return {"outcome": outcome, "events": events, "decisions": [d[0] for d in chooser.decisions]}
