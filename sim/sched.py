"""Deterministic baton scheduler over real threads (source S1 of DESIGN.md).

Exactly one task thread runs at a time.  A task hands the baton back at every
`yield_()` -- the simulated synchronisation primitives call it before (and,
optionally, after) every operation with a visible effect.  The controller picks
the next task through a `Chooser`, which makes every run replayable from its
list of decisions.  Time is virtual: a timed wait may fire only when no task is
runnable; the waiter with the earliest deadline fires first.
"""

from __future__ import annotations

import random
import threading
import traceback


class SimAbort(BaseException):
    """Raised inside task threads to unwind them when a run is abandoned."""


class Task:
    def __init__(self, sched, name, fn, args):
        self.sched = sched
        self.name = name
        self.fn = fn
        self.args = args
        self.go = threading.Semaphore(0)
        self.done = False
        self.started = False
        self.cond = None  # None = runnable; callable = blocked until it returns True
        self.deadline = None  # virtual time at which a timed wait gives up
        self.timed_out = False
        self.why = ("start",)
        self.exc = None
        self.result = None
        self.pending_exc = None
        self.killed = False
        self.in_yield = False
        self.ident = len(sched.tasks) + 1000
        self.thread = threading.Thread(target=self._run, name=f"sim-{name}", daemon=True)

    def _run(self):
        self.go.acquire()
        try:
            if self.sched.aborting:
                return
            self.sched._tls.task = self
            if self.sched.line_funcs:
                import sys

                sys.settrace(self.sched._global_trace)
            self.result = self.fn(*self.args)
        except SimAbort:
            pass
        except BaseException as e:  # noqa: BLE001 - a task dying is an observation, not a crash
            self.exc = e
            self.tb = traceback.format_exc()
            if not self.sched.aborting:
                self.sched.observe("task_died", task=self.name, exc=type(e).__name__, msg=str(e)[:200])
        finally:
            self.done = True
            self.sched._tls.task = None
            self.sched.ctl.release()


class Chooser:
    """Decides every choice point.  Records decisions so that a run can be replayed."""

    def __init__(self, rng=None, prefix=None, default="random"):
        self.rng = rng or random.Random(0)
        self.prefix = list(prefix or [])
        self.default = default
        self.decisions = []  # (chosen index, number of options)
        self.pos = 0

    def pick(self, n, kind, labels=None):
        if n == 1:
            idx = 0
        elif self.pos < len(self.prefix):
            idx = self.prefix[self.pos]
            if idx >= n:
                idx = n - 1
        elif self.default == "first":
            idx = 0
        else:
            idx = self.rng.randrange(n)
        if n > 1:
            self.pos += 1
            self.decisions.append((idx, n))
        return idx


class PCTChooser(Chooser):
    """Random priorities with d-1 priority change points (PCT, Burckhardt et al.)."""

    def __init__(self, rng, depth=3, est_steps=200):
        super().__init__(rng)
        self.prio = {}
        self.change = set(rng.sample(range(1, est_steps), min(depth - 1, est_steps - 1))) if depth > 1 else set()
        self.step = 0

    def pick(self, n, kind, labels=None):
        if kind != "task" or labels is None:
            return super().pick(n, kind, labels)
        self.step += 1
        for lab in labels:
            if lab not in self.prio:
                self.prio[lab] = self.rng.random() + 1.0
        best = max(range(n), key=lambda i: self.prio[labels[i]])
        if self.step in self.change:
            self.prio[labels[best]] = self.rng.random() * 0.5  # demote
            best = max(range(n), key=lambda i: self.prio[labels[i]])
        if n > 1:
            self.decisions.append((best, n))
        return best


class BoundedChooser(Chooser):
    """Preemption-bounded systematic search (Musuvathi/Qadeer): switching away from a task that could
    continue costs one unit of the budget; choices among tasks at a point where the running task
    blocked or finished are free.  `prefix` holds positions in the ordered list of allowed options."""

    def __init__(self, prefix=None, bound=1):
        super().__init__(None, prefix, "first")
        self.bound = bound
        self.used = 0
        self.last_label = None

    def pick(self, n, kind, labels=None):
        if kind != "task" or labels is None:
            return super().pick(n, kind, labels)
        if self.last_label in labels:
            cur = labels.index(self.last_label)
            order = [cur] + ([i for i in range(n) if i != cur] if self.used < self.bound else [])
        else:
            cur = None
            order = list(range(n))
        if len(order) == 1:
            idx = order[0]
        else:
            pos = self.prefix[self.pos] if self.pos < len(self.prefix) else 0
            if pos >= len(order):
                pos = len(order) - 1
            self.pos += 1
            self.decisions.append((pos, len(order)))
            idx = order[pos]
        if cur is not None and idx != cur:
            self.used += 1
        self.last_label = labels[idx]
        return idx


class HintChooser(Chooser):
    """Follows a list of task-name hints (e.g. projected from a TLC behaviour); a hint whose
    task is not enabled is skipped, so hints steer but can never invalidate a run."""

    def __init__(self, hints, rng=None):
        super().__init__(rng)
        self.hints = list(hints)
        self.hpos = 0
        self.followed = 0

    def pick(self, n, kind, labels=None):
        if kind != "task" or labels is None or n == 1:
            return super().pick(n, kind, labels)
        while self.hpos < len(self.hints):
            h = self.hints[self.hpos]
            if h in labels:
                idx = labels.index(h)
                self.followed += 1
                self.decisions.append((idx, n))
                return idx
            self.hpos += 1
        return super().pick(n, kind, labels)

    def advance(self, name):
        """called by the scheduler when task `name` completed a milestone"""
        if self.hpos < len(self.hints) and self.hints[self.hpos] == name:
            self.hpos += 1


def _in_finalizer():
    import sys

    f = sys._getframe(2)
    for _ in range(8):
        if f is None:
            return False
        if f.f_code.co_name == "__del__":
            return True
        f = f.f_back
    return False


class Sched:
    def __init__(self, chooser=None, max_steps=20000, post_yields=False):
        self.chooser = chooser or Chooser()
        self.tasks: list[Task] = []
        self.ctl = threading.Semaphore(0)
        self._tls = threading.local()
        self.now = 0.0
        self.steps = 0
        self.max_steps = max_steps
        self.events: list[dict] = []  # observations, in baton order
        self.sched_trace: list = []
        self.aborting = False
        self.post_yields = post_yields
        self.outcome = None
        self.preemptions = 0
        self._last = None
        self.quiesce_hooks = []  # callables run when nothing is runnable; return True if they made progress
        self.line_funcs = set()  # names of functions of the code under test that are preemptible at every source line
        self.trace_files = set()

    # -------------------------------------------- line-level preemption
    def _global_trace(self, frame, event, arg):
        if event == "call":
            code = frame.f_code
            if code.co_name in self.line_funcs and code.co_filename in self.trace_files:
                return self._local_trace
        return None

    def _local_trace(self, frame, event, arg):
        if event == "line" and not self.aborting:
            self.yield_(("line", frame.f_code.co_name, frame.f_lineno))
        return self._local_trace

    # ------------------------------------------------------------ tasks
    def me(self) -> Task | None:
        return getattr(self._tls, "task", None)

    def spawn(self, name, fn, args=()):
        t = Task(self, name, fn, args)
        self.tasks.append(t)
        t.thread.start()
        return t

    def observe(self, ev, **fields):
        if self.aborting and ev not in ("stuck", "end"):
            return
        d = {"ev": ev}
        t = self.me()
        if t is not None and "thread" not in fields:
            d["thread"] = t.name
        d.update(fields)
        self.events.append(d)

    # ------------------------------------------------------ yield points
    def yield_(self, why, cond=None, timeout=None):
        """Hand the baton back.  Returns False iff a timed wait expired."""
        t = self.me()
        if t is None:
            # not a task thread (e.g. a finalizer run by the controller): cannot block
            return True
        if self.aborting or t.killed:
            if _in_finalizer():
                return True
            raise SimAbort()
        if t.in_yield:
            # a finalizer (Channel.__del__ sends a frame) ran while this task was already handing the baton back, i.e. inside the
            # non-reentrant lock of a semaphore: it cannot wait for the baton (that is how the baton used to get lost)
            return True
        t.in_yield = True
        t.why = why
        t.cond = cond
        t.deadline = (self.now + timeout) if (timeout is not None and cond is not None) else None
        t.timed_out = False
        try:
            self.ctl.release()
            t.go.acquire()
        finally:
            t.in_yield = False
        if self.aborting or t.killed:
            raise SimAbort()
        t.cond = None
        t.deadline = None
        if t.pending_exc is not None:
            exc, t.pending_exc = t.pending_exc, None
            raise exc
        return not t.timed_out

    def interrupt(self, task, exc):
        """deliver an asynchronous exception (a signal) to `task` at its next scheduling point;
        a blocked task becomes runnable"""
        task.pending_exc = exc

    def kill_tasks(self, pred):
        """the 'process' these tasks belong to dies: they unwind at their next scheduling point"""
        for t in self.tasks:
            if not t.done and pred(t):
                t.killed = True

    def choice(self, n, why):
        """a data choice (chunk size, ...) decided by the chooser"""
        if n <= 1:
            return 0
        return self.chooser.pick(n, "data")

    def milestone(self):
        t = self.me()
        if t is not None and hasattr(self.chooser, "advance"):
            self.chooser.advance(t.name)

    # ------------------------------------------------------------- run
    def _enabled(self, t):
        if t.cond is None or t.pending_exc is not None or t.killed:
            return True
        try:
            return bool(t.cond())
        except Exception:
            return False

    def run(self):
        """Run until all tasks are done, nothing can move (stuck) or the step budget is exhausted.
        The cyclic garbage collector is switched off for the duration: a collection may start at any allocation, also inside the
        scheduler's own semaphores, and run Channel.__del__ there; reference counting still finalises dropped channels at once,
        and the programs call gc.collect() where they drop something."""
        import gc

        was = gc.isenabled()
        gc.disable()
        try:
            return self._run_loop()
        finally:
            if was:
                gc.enable()

    def _run_loop(self):
        while True:
            live = [t for t in self.tasks if not t.done]
            if not live:
                self.outcome = "done"
                break
            if self.steps >= self.max_steps:
                self.outcome = "budget"
                break
            en = [t for t in live if self._enabled(t)]
            if en:
                labels = [t.name for t in en]
                idx = self.chooser.pick(len(en), "task", labels)
                t = en[idx]
                if self._last is not None and self._last is not t and self._last in en:
                    self.preemptions += 1
            else:
                if any(h() for h in self.quiesce_hooks):
                    continue
                timed = [t for t in live if t.deadline is not None]
                if not timed:
                    self.outcome = "stuck"
                    break
                dl = min(t.deadline for t in timed)
                first = [t for t in timed if t.deadline == dl]
                idx = self.chooser.pick(len(first), "timer", [t.name for t in first])
                t = first[idx]
                self.now = dl
                t.timed_out = True
            self.steps += 1
            self._last = t
            self.sched_trace.append((t.name, t.why))
            t.go.release()
            self.ctl.acquire()
        blocked = [(t.name, t.why) for t in self.tasks if not t.done]
        self.final_blocked = blocked
        if self.outcome == "stuck":
            self.observe("stuck", blocked=[{"task": n, "why": list(map(str, w))} for n, w in blocked])
        self.abort()
        return self.outcome

    def abort(self):
        self.aborting = True
        for t in self.tasks:
            if not t.done:
                t.go.release()
        for t in self.tasks:
            t.thread.join(timeout=5)
