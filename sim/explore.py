"""Schedule exploration strategies over a run function `run(chooser) -> result`."""

from __future__ import annotations

import random

from sim.sched import BoundedChooser, Chooser, HintChooser, PCTChooser


def dfs(run, max_runs):
    """Stateless depth-first search over all decision sequences (sync-point granularity).
    Yields results; sets dfs.exhaustive = True if the whole tree was visited."""
    prefix: list[int] = []
    n = 0
    state = {"exhaustive": False}
    while n < max_runs:
        ch = Chooser(prefix=prefix, default="first")
        res = run(ch)
        n += 1
        yield res, state
        dec = ch.decisions
        i = len(dec) - 1
        while i >= 0 and dec[i][0] + 1 >= dec[i][1]:
            i -= 1
        if i < 0:
            state["exhaustive"] = True
            return
        prefix = [d[0] for d in dec[:i]] + [dec[i][0] + 1]


def randoms(run, n, seed):
    for i in range(n):
        yield run(Chooser(random.Random(seed * 1000003 + i)))


def pct(run, n, seed, depth=3, est_steps=120):
    for i in range(n):
        yield run(PCTChooser(random.Random(seed * 7919 + i), depth=depth, est_steps=est_steps))


def hinted(run, hint_lists, seed):
    for i, hints in enumerate(hint_lists):
        yield run(HintChooser(hints, random.Random(seed + i)))


def replay(run, decisions):
    return run(Chooser(prefix=decisions, default="first"))


def bounded(run, bound, max_runs):
    """systematic search over all schedules with at most `bound` preemptions"""
    prefix: list[int] = []
    n = 0
    state = {"exhaustive": False}
    while n < max_runs:
        ch = BoundedChooser(prefix=prefix, bound=bound)
        res = run(ch)
        n += 1
        yield res, state
        dec = ch.decisions
        i = len(dec) - 1
        while i >= 0 and dec[i][0] + 1 >= dec[i][1]:
            i -= 1
        if i < 0:
            state["exhaustive"] = True
            return
        prefix = [d[0] for d in dec[:i]] + [dec[i][0] + 1]


def one_preemption_everywhere(run, max_runs):
    """Every schedule that follows the non-preemptive default except for ONE deviation, at every decision point and for every
    alternative there (breadth-first over the position, unlike the depth-first `bounded`, so early points are reached too).
    Free choices (the running task blocked or finished) count as decision points as well."""
    state = {"exhaustive": False}
    base_ch = BoundedChooser(prefix=[], bound=1)
    res = run(base_ch)
    yield res, state
    n = 1
    points = [(i, k) for i, (_pos, k) in enumerate(base_ch.decisions)]
    for i, k in points:
        for j in range(1, k):
            if n >= max_runs:
                return
            ch = BoundedChooser(prefix=[0] * i + [j], bound=1)
            yield run(ch), state
            n += 1
    state["exhaustive"] = True
