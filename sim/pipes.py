"""Scripted byte pipes under the real Popen2IO / SocketIO (source S1).

A SimPipe is one direction of a connection.  The writer end appends atomically
per write() call (CPython's BufferedWriter holds its lock across the call);
the reader end returns 1..n bytes per low-level read as decided by the chunk
policy.  `cut_at` cuts the connection after that many bytes: everything beyond
is lost and the reader sees end-of-file, the writer a broken pipe.

The pipe also observes the wire: every complete frame written ("fout") and
every frame whose last byte has been consumed by the reader ("fin").
"""

from __future__ import annotations

import struct


def parse_token(payload: bytes):
    """Item tokens are small ints: dumps_internal(int) = b'F' + 4 bytes + b'Q' (format pinned by C12)."""
    if len(payload) == 6 and payload[0:1] == b"F" and payload[5:6] == b"Q":
        return struct.unpack("!i", payload[1:5])[0]
    # a big item (token, bytes): INT token, BYTES ..., BUILDTUPLE 2
    if payload[0:1] == b"F" and payload[5:6] == b"A" and payload.endswith(b"@\x00\x00\x00\x02Q"):
        return struct.unpack("!i", payload[1:5])[0]
    # a channel object (CHANNEL opcode + id), plain or as {"k": [channel]}: token 100000 + id
    if len(payload) == 6 and payload[0:1] == b"B" and payload[5:6] == b"Q":
        return 100000 + struct.unpack("!i", payload[1:5])[0]
    if payload.endswith(b"PPQ") and len(payload) > 8 and payload[-8:-7] == b"B":
        return 100000 + struct.unpack("!i", payload[-7:-3])[0]
    return 0


class SimPipe:
    def __init__(self, sched, name, src_side, dst_side, chunking="all"):
        self.s = sched
        self.name = name
        self.src, self.dst = src_side, dst_side
        self.buf = bytearray()
        self.wclosed = False
        self.rclosed = False
        self.cut_at = None
        self.written = 0  # bytes accepted from the writer (before the cut)
        self.consumed = 0
        self.chunking = chunking
        self.frames = []  # (end offset, code, chan, length, token)
        self._nfin = 0
        self._partial = bytearray()  # writer-side frame reassembly
        self.stream = bytearray()  # everything that went over the wire (before the cut)
        self.observe_frames = True
        self._cut_fired = False
        self.on_cut = None

    # ---- writer side
    def _append(self, data: bytes):
        if self.cut_at is not None:
            room = max(0, self.cut_at - self.written)
            data = data[:room]
        self.buf += data
        self.stream += data
        self.written += len(data)
        if self.cut_at is not None and self.written >= self.cut_at and not self._cut_fired:
            self._cut_fired = True
            self.s.observe("cut", side=self.dst, op="", chan=0, tok=self.written, res="", thread="", flag=False)
            if self.on_cut is not None:
                self.on_cut()

    def note_frames(self, data: bytes):
        """reassemble frames from what was written, log fout for each complete one"""
        if not self.observe_frames:
            return
        self._partial += data
        while len(self._partial) >= 9:
            code, chan, ln = struct.unpack("!bii", bytes(self._partial[:9]))
            if ln < 0 or len(self._partial) < 9 + ln:
                break
            payload = bytes(self._partial[9:9 + ln])
            del self._partial[:9 + ln]
            end = (self.frames[-1][0] if self.frames else self.base) + 9 + ln
            tok = parse_token(payload) if code == 4 else 0
            self.frames.append((end, code, chan, ln, tok))
            self.s.observe("fout", side=self.src, op=str(code), chan=chan, tok=tok, res="", thread=_tn(self.s), flag=False)

    base = 0  # stream offset at which framing starts (after a bootstrap byte, if any)

    def cut_here(self):
        self.cut_at = self.written
        if not self._cut_fired:
            self._cut_fired = True
            self.s.observe("cut", side=self.dst, op="", chan=0, tok=self.written, res="", thread="", flag=False)

    def note_consumed(self, n):
        self.consumed += n
        while self._nfin < len(self.frames) and self.frames[self._nfin][0] <= self.consumed:
            end, code, chan, ln, tok = self.frames[self._nfin]
            self._nfin += 1
            self.s.observe("fin", side=self.dst, op=str(code), chan=chan, tok=tok, res="", thread=_tn(self.s), flag=False)

    def eof(self):
        return self.wclosed or (self.cut_at is not None and self.written >= self.cut_at)


def _tn(s):
    t = s.me()
    return t.name if t is not None else ""


class PipeW:
    def __init__(self, pipe: SimPipe):
        self.p = pipe
        self.closed = False

    def write(self, data):
        p = self.p
        p.s.yield_(("write", p.name))
        if self.closed:
            raise ValueError("write to closed file")
        if p.rclosed or (p.cut_at is not None and p.written >= p.cut_at):
            raise BrokenPipeError(32, "Broken pipe")
        data = bytes(data)
        p.note_frames(data)
        p._append(data)
        if p.s.post_yields:
            p.s.yield_(("write-post", p.name))
        return len(data)

    def flush(self):
        if self.closed:
            raise ValueError("flush of closed file")

    def close(self):
        if not self.closed:
            self.p.s.yield_(("close_w", self.p.name))
            self.closed = True
            self.p.wclosed = True

    def fileno(self):
        raise OSError("no fileno")


class PipeR:
    def __init__(self, pipe: SimPipe):
        self.p = pipe
        self.closed = False

    def read(self, n=-1):
        p = self.p
        p.s.yield_(("read", p.name), lambda: bool(p.buf) or p.eof() or self.closed)
        if self.closed:
            raise ValueError("read of closed file")
        if not p.buf:
            return b""
        avail = len(p.buf) if n is None or n < 0 else min(n, len(p.buf))
        k = avail
        if p.chunking == "random" and avail > 1:
            opts = sorted({1, 2, (avail + 1) // 2, avail} & set(range(1, avail + 1)))
            k = opts[p.s.choice(len(opts), ("chunk", p.name))]
        elif p.chunking == "one":
            k = 1
        data = bytes(p.buf[:k])
        del p.buf[:k]
        p.note_consumed(k)
        return data

    def close(self):
        if not self.closed:
            self.p.s.yield_(("close_r", self.p.name))
            self.closed = True
            self.p.rclosed = True

    def fileno(self):
        raise OSError("no fileno")


class SimSocket:
    """One end of a connected stream socket over two SimPipes (for the real SocketIO).
    send() may transmit only a prefix (partial send), sendall() is the loop the C library runs:
    several sends with other threads free to run in between."""

    def __init__(self, out_pipe: SimPipe, in_pipe: SimPipe, partial=True):
        self.out, self.inp = out_pipe, in_pipe
        self.partial = partial
        self.rshut = False
        self.wshut = False

    def setsockopt(self, *a):
        pass

    def recv(self, n):
        p = self.inp
        p.s.yield_(("recv", p.name), lambda: bool(p.buf) or p.eof() or self.rshut)
        if self.rshut or not p.buf:
            return b""
        avail = min(n, len(p.buf))
        k = avail
        if p.chunking == "random" and avail > 1:
            opts = sorted({1, 2, (avail + 1) // 2, avail} & set(range(1, avail + 1)))
            k = opts[p.s.choice(len(opts), ("chunk", p.name))]
        data = bytes(p.buf[:k])
        del p.buf[:k]
        p.note_consumed(k)
        return data

    def send(self, data):
        p = self.out
        p.s.yield_(("send", p.name))
        if self.wshut:
            raise BrokenPipeError(32, "Broken pipe")
        if p.rclosed or (p.cut_at is not None and p.written >= p.cut_at):
            raise BrokenPipeError(32, "Broken pipe")
        n = len(data)
        k = n
        if self.partial and n > 1:
            opts = sorted({1, (n + 1) // 2, n})
            k = opts[p.s.choice(len(opts), ("sendsize", p.name))]
        chunk = bytes(data[:k])
        p.note_frames(chunk)
        p._append(chunk)
        return k

    def sendall(self, data):
        data = bytes(data)
        while data:
            k = self.send(data)
            data = data[k:]

    def shutdown(self, how):
        if how in (0, 2):
            self.rshut = True
            self.inp.rclosed = True
        if how in (1, 2):
            self.out.s.yield_(("shutdown_w", self.out.name))
            self.wshut = True
            self.out.wclosed = True

    def close(self):
        self.shutdown(2)
