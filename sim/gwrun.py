"""Run many (program, schedule) pairs of the gateway world, in parallel processes."""

from __future__ import annotations

import json
import multiprocessing as mp
import os
import random

from sim.sched import Chooser, PCTChooser


def make_chooser(spec):
    kind = spec[0]
    if kind == "random":
        return Chooser(random.Random(spec[1]))
    if kind == "pct":
        return PCTChooser(random.Random(spec[1]), depth=spec[2], est_steps=spec[3])
    if kind == "replay":
        return Chooser(prefix=spec[1], default="first")
    if kind == "bounded":
        from sim.sched import BoundedChooser

        return BoundedChooser(prefix=spec[2], bound=spec[1])
    if kind == "first":
        return Chooser(default="first")
    raise ValueError(spec)


class HarnessHang(Exception):
    """a simulated run made no progress for minutes of wall-clock time: the baton was lost inside the harness"""


def _on_alarm(signum, frame):
    raise HarnessHang()


def guarded(fn, seconds=240):
    """run fn() in this (main) thread under a wall-clock watchdog; a run of the simulator takes milliseconds to seconds"""
    import signal

    old = signal.signal(signal.SIGALRM, _on_alarm)
    signal.alarm(seconds)
    try:
        return fn()
    finally:
        signal.alarm(0)
        signal.signal(signal.SIGALRM, old)


def run_one(job):
    from sim.world import World

    program, chooser_spec, opts = job
    try:
        w = World(program, make_chooser(chooser_spec), **opts)
        r = guarded(w.run)
    except HarnessHang:
        return {"harness_hang": True, "program": program, "chooser": chooser_spec, "opts": opts}
    except Exception as e:  # harness failure: report, never a verdict
        import traceback

        return {"harness_error": traceback.format_exc(), "program": program, "chooser": chooser_spec}
    r["program"] = program
    r["chooser"] = chooser_spec
    r["opts"] = opts
    return r


def run_search(job):
    """preemption-bounded systematic search over one program, inside one worker process;
    returns the distinct results and whether the search finished"""
    from sim import explore
    from sim.world import World

    program, bound, max_runs, opts = job
    seen = {}
    state = {"exhaustive": False}
    n = 0
    try:
        search = explore.one_preemption_everywhere if bound == 1 else explore.bounded
        args = (max_runs,) if bound == 1 else (bound, max_runs)
        for res, state in search(lambda ch: guarded(World(program, ch, **opts).run), *args):
            n += 1
            key = json.dumps(res["events"], sort_keys=True)
            if key not in seen:
                res["program"] = program
                res["chooser"] = ("bounded", bound, res["decisions"])
                res["opts"] = opts
                seen[key] = res
    except HarnessHang:
        return {"results": list(seen.values()) + [{"harness_hang": True, "program": program, "chooser": ("bounded", bound), "opts": opts}], "runs": n, "exhaustive": False}
    except Exception:  # harness failure: report, never a verdict
        import traceback

        return {"results": [{"harness_error": traceback.format_exc(), "program": program, "chooser": ("bounded", bound)}], "runs": n, "exhaustive": False}
    return {"results": list(seen.values()), "runs": n, "exhaustive": bool(state["exhaustive"])}


def run_searches(jobs, procs=None):
    global _pool
    if not jobs:
        return []
    procs = procs or min(14, os.cpu_count() or 4)
    if _pool is None:
        ctx = mp.get_context("fork")
        _pool = ctx.Pool(procs, initializer=_quiet, maxtasksperchild=400)
    return _pool.map(run_search, jobs, chunksize=1)


_pool = None


def _quiet():
    """RemoteError.warn() and 'Exception ignored in __del__' chatter of the code under test goes to stderr"""
    import sys

    sys.stderr = open(os.devnull, "w")


def run_many(jobs, procs=None):
    global _pool
    if not jobs:
        return []
    procs = procs or min(14, os.cpu_count() or 4)
    if _pool is None:
        ctx = mp.get_context("fork")
        _pool = ctx.Pool(procs, initializer=_quiet, maxtasksperchild=400)
    return _pool.map(run_one, jobs, chunksize=max(1, len(jobs) // (procs * 8)))


def _replay_chunk(job):
    import importlib

    modname, words = job
    mod = importlib.import_module(modname)
    out = []
    for w in words:
        try:
            out.append(guarded(lambda w=w: mod.replay(w)))
        except HarnessHang:
            out.append({"harness_hang": True, "ops": [list(o) for o in w]})
        except Exception:  # harness failure: report, never a verdict
            import traceback

            out.append({"harness_error": traceback.format_exc(), "ops": [list(o) for o in w]})
    return out


def run_chanlife(words, procs=None, module="sim.chanlife"):
    """replay model operation sequences (ChanLife, StrConfig) on the real gateway pair, in the worker pool"""
    global _pool
    procs = procs or min(14, os.cpu_count() or 4)
    if _pool is None:
        ctx = mp.get_context("fork")
        _pool = ctx.Pool(procs, initializer=_quiet, maxtasksperchild=400)
    size = max(1, len(words) // (procs * 4))
    chunks = [words[i:i + size] for i in range(0, len(words), size)]
    return [r for part in _pool.map(_replay_chunk, [(module, c) for c in chunks], chunksize=1) for r in part]


def close_pool():
    global _pool
    if _pool is not None:
        _pool.close()
        _pool.join()
        _pool = None


def dedupe(results):
    seen = {}
    for r in results:
        if "harness_hang" in r:
            seen.setdefault("HANG" + json.dumps(r["program"])[:200] + str(r["chooser"])[:80], r)
            continue
        if "harness_error" in r:
            seen.setdefault("H" + r["harness_error"][-200:], r)
            continue
        key = json.dumps(r["events"], sort_keys=True)
        if key not in seen:
            seen[key] = r
    return list(seen.values())
