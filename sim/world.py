"""A complete initiator + worker gateway pair in one process under the baton scheduler.

Real code under test: execnet.gateway.Gateway, gateway_base.WorkerGateway.serve(),
Popen2IO / SocketIO, Channel, ChannelFactory, WorkerPool, Message, serializer.
Harness: scripted pipes (sim/pipes.py), SimExecModel (sim/prims.py), the op
interpreter below (user threads on the initiator, remote_exec bodies on the worker).

Event vocabulary (all fields always present):
  ev in call|ret|deq|cb|fout|fin|cut|down|stuck|end|died
  side 'i'|'w', op, chan (channel id, 0 = none), tok (item token, 0 = none), res, thread, flag
"""

from __future__ import annotations

import gc
import sys

import execnet
from execnet import gateway_base
from execnet.gateway import Gateway
from execnet.xspec import XSpec

from sim.pipes import PipeR, PipeW, SimPipe, SimSocket
from sim.prims import SimExecModel
from sim.sched import Sched, SimAbort

CURRENT = None  # the World of the running simulation (remote bodies find it here)

ENDMARK_TOKEN = -1


class _SkipOp(Exception):
    pass


class _FakeGroup:
    def __init__(self):
        self.members = []
        self.to_join = []

    def __contains__(self, gw):
        return gw in self.members

    def _unregister(self, gw):
        self.members.remove(gw)
        self.to_join.append(gw)


class _OsProxy:
    """gateway_base.os for the duration of a simulation: kill/_exit are recorded, not performed."""

    def __init__(self, real, world):
        self._real = real
        self._world = world

    def __getattr__(self, name):
        return getattr(self._real, name)

    def kill(self, pid, sig):
        self._world.on_self_signal(sig)

    def _exit(self, code):
        self._world.on_self_exit(code)


class World:
    def __init__(self, program: dict, chooser, *, post_yields=False, max_steps=6000, transport="popen",
                 chunking="all", worker_backend="thread", cut=None, line_level=None, reconfigure=None):
        global CURRENT
        CURRENT = self
        self.program = program
        self.s = Sched(chooser, max_steps=max_steps, post_yields=post_yields)
        self.transport = transport
        self.reconfigure = reconfigure  # (py2str_as_py3str, py3str_as_py2str): Gateway.reconfigure() right after the gateway is up
        s = self.s
        if line_level:
            import execnet.gateway as _g
            import execnet.multi as _m

            s.line_funcs = set(line_level)
            s.trace_files = {gateway_base.__file__, _g.__file__, _m.__file__}
        self.em_i = SimExecModel(s, "thread", "i")
        self.em_w = SimExecModel(s, worker_backend, "w")
        self.em_i._queue.owner_side = "i"
        self.em_w._queue.owner_side = "w"
        for em, side in ((self.em_i, "i"), (self.em_w, "w")):
            self._hook_queues(em, side)
        self.p_iw = SimPipe(s, "i>w", "i", "w", chunking)
        self.p_wi = SimPipe(s, "w>i", "w", "i", chunking)
        self.cut = cut
        if cut is not None:  # ("w>i", offset[, "die"]): the stream to the initiator ends after `offset` bytes
            pipe = self.p_wi if cut[0] == "w>i" else self.p_iw
            pipe.cut_at = cut[1]
            if cut[1] == 0:
                pipe._cut_fired = True
                self.s.events.append({"ev": "cut", "side": pipe.dst, "op": "", "chan": 0, "tok": 0, "res": "", "thread": "", "flag": False})
            if len(cut) > 2 and cut[2] == "die":
                pipe.on_cut = self.on_peer_death
                if cut[1] == 0:
                    self._dead_from_start = True
        if transport == "socket":
            from execnet.gateway_socket import SocketIO

            self.sock_i = SimSocket(self.p_iw, self.p_wi)
            self.sock_w = SimSocket(self.p_wi, self.p_iw)
            self.io_i = SocketIO(self.sock_i, self.em_i)
            self.io_w = SocketIO(self.sock_w, self.em_w)
        else:
            self.io_i = gateway_base.Popen2IO(PipeW(self.p_iw), PipeR(self.p_wi), self.em_i)
            self.io_w = gateway_base.Popen2IO(PipeW(self.p_wi), PipeR(self.p_iw), self.em_w)
        self.io_i.wait = lambda: None
        self.io_i.kill = lambda: None
        self.ns = {"i": {}, "w": {}}
        self.bodies = program.get("bodies", {})
        self.signals = []
        self.gw = None
        self.wgw = None
        self.group = _FakeGroup()
        self._oldos = None
        self.worker_main = None
        self.draining = set()
        self.failed_vars = set()
        self.first_tablesize = {}
        self.open_bodies = 0

    # ------------------------------------------------------------ observation
    def _hook_queues(self, em, side):
        qm = em._queue
        orig = qm.Queue
        world = self

        def Queue(maxsize=0):
            import sys

            q = orig(maxsize)
            f = sys._getframe(1)
            owner = f.f_locals.get("self")
            if isinstance(owner, gateway_base.Channel) and f.f_code.co_name == "__init__":
                q.chan_id = f.f_locals.get("id")
                q.side = side
                q.on_get = world._on_get
            return q

        qm.Queue = Queue

    def _on_get(self, q, item):
        t = self.s.me()
        if t is not None and t.name in self.draining:
            return
        tok = ENDMARK_TOKEN if item is gateway_base.ENDMARKER else self.tok_of(item)
        self.ev("deq", q.side, "", q.chan_id, tok)

    def tok_of(self, item):
        if isinstance(item, bool):
            return 0
        if isinstance(item, int):
            return item
        if isinstance(item, tuple) and len(item) == 2 and isinstance(item[0], int) and isinstance(item[1], bytes):
            return item[0] if item[1] == b"B" * len(item[1]) else -7  # -7: the payload bytes were damaged
        if isinstance(item, dict) and ("k" in item or b"k" in item):  # (the key arrives as bytes on a gateway reconfigured that way)
            item = item["k" if "k" in item else b"k"][0]
        if isinstance(item, gateway_base.Channel):
            return 100000 + item.id
        return 0

    def ev(self, e, side, op="", chan=0, tok=0, res="", flag=False):
        if self.s.aborting and e != "end":
            return  # the run is over: threads are only being unwound
        t = self.s.me()
        self.s.events.append({"ev": e, "side": side, "op": op, "chan": int(chan or 0), "tok": int(tok or 0),
                              "res": res, "thread": t.name if t else "", "flag": bool(flag)})

    def on_self_signal(self, sig):
        self.ev("ladder", "w", "sigint")
        self.signals.append(sig)
        if self.worker_main is not None and not self.worker_main.done:
            self.s.interrupt(self.worker_main, KeyboardInterrupt())

    def on_peer_death(self):
        """the worker process dies: all its threads stop, both directions of the connection break"""
        self.s.kill_tasks(lambda t: t.name.startswith("w"))
        self.p_iw.cut_here()

    def on_self_exit(self, code):
        self.ev("ladder", "w", "_exit")
        self.s.kill_tasks(lambda t: t.name.startswith("w"))
        raise SimAbort()

    # ------------------------------------------------------------------ setup
    def start(self):
        self._oldos = gateway_base.os
        gateway_base.os = _OsProxy(self._oldos, self)
        s = self.s
        self.wgw = gateway_base.WorkerGateway(io=self.io_w, id="w", _startcount=2)

        def wmain():
            try:
                self.wgw.serve()
            finally:
                self.ev("down", "w", "serve")

        self.em_w.namer = lambda func, args: None
        self.em_w.thread_prefix = "w"
        self.em_i.thread_prefix = "i"
        self.worker_main = s.spawn("wmain", wmain)
        self.gw = Gateway(self.io_i, XSpec("popen//id=g"))
        self.gw._group = self.group
        self.group.members.append(self.gw)
        if self.reconfigure is not None:
            self.gw.reconfigure(py2str_as_py3str=self.reconfigure[0], py3str_as_py2str=self.reconfigure[1])
        for th in self.program["threads"]:
            s.spawn(th["name"], self.run_thread, (th,))
        if getattr(self, "_dead_from_start", False):
            self.on_peer_death()

    def run(self):
        try:
            self.start()
            outcome = self.s.run()
        finally:
            if self._oldos is not None:
                gateway_base.os = self._oldos
        if outcome == "stuck" and self.open_bodies == 0:
            # only infrastructure threads are left (receiver threads blocked in read, the worker's
            # main thread idle): the connection is simply still open -- a normal end of the program
            left = {n for n, _ in self.s.final_blocked}
            users = {th["name"] for th in self.program["threads"]}
            if not (left & users) and all(n in ("wmain", "i-t1", "w-t1") for n in left):
                outcome = "done"
                self.s.events = [e for e in self.s.events if e["ev"] != "stuck"]
        if self.cut is not None:
            pipe = self.p_wi if self.cut[0] == "w>i" else self.p_iw
            if not pipe._cut_fired:
                outcome = "nocut"  # this schedule never produced that many bytes
        if outcome == "done":
            self.ev("end", "", "")
        evs = []
        for e in self.s.events:
            if e["ev"] == "stuck":
                tables = ""
                try:
                    tables = " tables i:%s/%s w:%s/%s" % (sorted(self.gw._channelfactory._channels.keys()), sorted(self.gw._channelfactory._callbacks),
                                                          sorted(self.wgw._channelfactory._channels.keys()), sorted(self.wgw._channelfactory._callbacks))
                except Exception:
                    pass
                evs.append({"ev": "stuck", "side": "", "op": "", "chan": 0, "tok": 0,
                            "res": ",".join(b["task"] + ":" + b["why"][0] for b in e["blocked"]) + tables, "thread": "", "flag": False})
            elif e["ev"] == "task_died":
                evs.append({"ev": "died", "side": "", "op": "", "chan": 0, "tok": 0, "res": e["exc"] + ":" + e.get("msg", "")[:80],
                            "thread": e["task"], "flag": False})
            else:
                evs.append(e)
        ns = self.ns
        self.ns = None
        del ns
        return {"outcome": outcome, "events": evs, "decisions": [d[0] for d in self.s.chooser.decisions], "steps": self.s.steps,
                "wi_bytes": self.p_wi.written, "wi_frames": [f[0] for f in self.p_wi.frames]}

    # --------------------------------------------------------- op interpreter
    def run_thread(self, th):
        side = th["side"]
        self.run_ops(side, th["ops"], None)

    def remote_body(self, channel, body_id):
        """called from inside exec()'d remote_exec source on the worker side"""
        ops = self.bodies[str(body_id)]
        self.ev("body_start", "w", str(body_id), channel.id, flag=(self.s.me() is self.worker_main))
        self.open_bodies += 1
        try:
            self.run_ops("w", ops, channel)
        finally:
            self.open_bodies -= 1
            exc = sys.exc_info()[1]
            # flag: the remote code ends with an ordinary exception (executetask will close the channel with the error text)
            self.ev("body_end", "w", str(body_id), channel.id, flag=isinstance(exc, Exception) and not isinstance(exc, (EOFError, SimAbort)))

    def classify(self, e):
        if isinstance(e, gateway_base.RemoteError):
            txt = e.formatted
            if "concurrent remote_exec would cause deadlock" in txt:
                return "RemoteError:deadlock"
            if "BOOM" in txt:
                return "RemoteError:boom"
            return "RemoteError"
        if isinstance(e, gateway_base.TimeoutError):
            return "Timeout"
        if isinstance(e, EOFError):
            return "EOF"
        if isinstance(e, gateway_base.DumpError):
            return "DumpError"
        if isinstance(e, OSError):
            return "OSError"
        return "exc:" + type(e).__name__

    def run_ops(self, side, ops, channel):
        ns = self.ns[side]
        local = {"channel": channel}
        s = self.s

        def ch(v):
            if v in local:
                return local[v]
            if v not in ns:
                raise _SkipOp()  # an earlier op that should have bound it failed (logged there)
            return ns[v]

        def call(op, c=None, tok=0):
            self.ev("call", side, op, c.id if c is not None else 0, tok)

        def ret(op, c=None, tok=0, res="ok", flag=False):
            self.ev("ret", side, op, c.id if c is not None else 0, tok, res, flag)

        c = c2 = x = None
        for op in ops:
            k = op[0]
            try:
                if k == "await":
                    s.yield_(("await", op[1]), lambda: op[1] in ns or op[1] in self.failed_vars)
                elif k == "newchannel":
                    call("newchannel")
                    try:
                        c = self.gw.newchannel() if side == "i" else channel.gateway.newchannel()
                    except Exception as e:
                        ret("newchannel", None, 0, self.classify(e))
                        self.failed_vars.add(op[1])
                        continue
                    ns[op[1]] = c
                    ret("newchannel", c)
                elif k == "remote_exec":
                    call("remote_exec", None, op[3] if len(op) > 3 else 0)
                    src = f"import sim.world as W\nW.CURRENT.remote_body(channel, {op[2]!r})\n"
                    try:
                        c = self.gw.remote_exec(src)
                    except Exception as e:
                        ret("remote_exec", None, 0, self.classify(e))
                        self.failed_vars.add(op[1])
                        continue
                    ns[op[1]] = c
                    ret("remote_exec", c)
                elif k == "send":
                    c = ch(op[1])
                    call("send", c, op[2])
                    try:
                        c.send(op[2])
                        ret("send", c, op[2])
                    except Exception as e:
                        ret("send", c, op[2], self.classify(e))
                elif k == "sendchan":
                    c, c2 = ch(op[1]), ch(op[2])
                    call("send", c, 100000 + c2.id)
                    try:
                        c.send(c2 if len(op) < 4 else {"k": [c2]})
                        ret("send", c, 100000 + c2.id)
                    except Exception as e:
                        ret("send", c, 100000 + c2.id, self.classify(e))
                elif k in ("receive", "receive_all"):
                    c = ch(op[1])
                    while True:
                        call("receive", c)
                        try:
                            x = c.receive(op[2] if len(op) > 2 and k == "receive" else None)
                        except Exception as e:
                            ret("receive", c, 0, self.classify(e))
                            break
                        if isinstance(x, dict) and ("k" in x or b"k" in x):
                            x = x["k" if "k" in x else b"k"][0]
                        if isinstance(x, gateway_base.Channel):
                            if len(op) > 3:
                                ns[op[3]] = x
                            ret("receive", c, 100000 + x.id)
                        else:
                            ret("receive", c, self.tok_of(x))
                        if k == "receive":
                            break
                elif k == "iterate":  # for item in channel: ... (Channel.__iter__ / next); the loop ends when the channel is closed
                    c = ch(op[1])
                    it = iter(c)
                    while True:
                        call("receive", c)
                        try:
                            x = next(it)
                        except StopIteration:
                            ret("receive", c, 0, "EOF")
                            break
                        except Exception as e:
                            ret("receive", c, 0, self.classify(e))
                            break
                        ret("receive", c, self.tok_of(x))
                    it = None
                elif k == "receive_escape":  # a receive whose EOFError / RemoteError escapes the running code
                    c = ch(op[1])
                    call("receive", c)
                    try:
                        x = c.receive()
                    except BaseException as e:
                        ret("receive", c, 0, self.classify(e))
                        c = None
                        raise
                    ret("receive", c, self.tok_of(x))
                elif k == "sendbig":  # an item whose frame is larger than any write-splitting threshold: (token, 70 kB of bytes)
                    c = ch(op[1])
                    call("send", c, op[2])
                    try:
                        c.send((op[2], b"B" * 70000))
                        ret("send", c, op[2])
                    except Exception as e:
                        ret("send", c, op[2], self.classify(e))
                elif k == "recvchan":  # receive a channel object and bind it
                    c = ch(op[1])
                    call("receive", c)
                    try:
                        x = c.receive()
                        if isinstance(x, dict) and ("k" in x or b"k" in x):
                            x = x["k" if "k" in x else b"k"][0]
                        ns[op[2]] = x
                        ret("receive", c, self.tok_of(x))
                    except Exception as e:
                        ret("receive", c, 0, self.classify(e))
                elif k == "close":
                    c = ch(op[1])
                    call("close", c, 0)
                    try:
                        c.close(*op[2:])
                        ret("close", c)
                    except Exception as e:
                        ret("close", c, 0, self.classify(e))
                elif k == "waitclose":
                    c = ch(op[1])
                    call("waitclose", c)
                    try:
                        c.waitclose(*op[2:])
                        ret("waitclose", c)
                    except Exception as e:
                        ret("waitclose", c, 0, self.classify(e))
                elif k == "isclosed":
                    c = ch(op[1])
                    call("isclosed", c)
                    ret("isclosed", c, 0, "true" if c.isclosed() else "false")
                elif k == "setcallback":
                    c = ch(op[1])
                    cid = c.id
                    none_end = len(op) > 2 and op[2] == "none"   # endmarker=None: a falsy endmarker is an endmarker all the same
                    want_end = bool(op[2]) if len(op) > 2 else False
                    boom_at = op[3] if len(op) > 3 else None
                    boom_exc = {"key": KeyError, "lookup": LookupError, "os": OSError, "eof": EOFError}.get(op[4] if len(op) > 4 else "", RuntimeError)

                    closeself = len(op) > 4 and op[4] == "closeself"
                    holder = [c] if closeself else []

                    def cb(item, cid=cid, side=side, boom_at=boom_at, boom_exc=boom_exc, none_end=none_end):
                        tok = ENDMARK_TOKEN if (item is None and none_end) or (item == "ENDMARK" and isinstance(item, str)) else self.tok_of(item)
                        self.ev("cb", side, "", cid, tok, flag=(boom_at is not None and tok == boom_at and not closeself))
                        if closeself and tok == boom_at and holder:
                            # the callback closes its own channel while it is being fed (e.g. "got the last item")
                            chan = holder.pop()
                            self.ev("call", side, "close", cid)
                            chan.close()
                            self.ev("ret", side, "close", cid, 0, "ok")
                            return
                        if boom_at is not None and tok == boom_at:
                            raise boom_exc("BOOM in callback")

                    call("setcallback", c, 0)
                    me = s.me().name
                    self.draining.add(me)
                    try:
                        if none_end:
                            c.setcallback(cb, endmarker=None)
                        elif want_end:
                            c.setcallback(cb, endmarker="ENDMARK")
                        else:
                            c.setcallback(cb)
                        ret("setcallback", c, 0, "ok", want_end)
                    except (RuntimeError, LookupError, OSError, EOFError) as e:
                        # the callback raised while setcallback() itself was draining queued items:
                        # the exception propagates to the caller of setcallback (accepted, see DESIGN.md)
                        ret("setcallback", c, 0, "BoomPropagated" if "BOOM" in str(e) else self.classify(e))
                    except Exception as e:
                        ret("setcallback", c, 0, self.classify(e))
                    finally:
                        self.draining.discard(me)
                    del cb
                elif k == "mc_queue":
                    # MultiChannel.make_receive_queue over several member channels (execnet.multi)
                    from execnet.multi import MultiChannel

                    members = [ch(v) for v in op[1]]
                    want_end = bool(op[2])
                    for m in members:
                        self.ev("call", side, "setcallback", m.id)
                    me = s.me().name
                    self.draining.add(me)
                    try:
                        mc = MultiChannel(members)
                        if op[2] == "none":   # endmarker=None is an endmarker like any other
                            q = mc.make_receive_queue(endmarker=None)
                        else:
                            q = mc.make_receive_queue(endmarker="ENDMARK") if want_end else mc.make_receive_queue()
                    finally:
                        self.draining.discard(me)
                    for m in members:
                        self.ev("ret", side, "setcallback", m.id, 0, "ok", want_end)
                    ns[op[3]] = (q, len(members), op[2] == "none")
                    members = mc = None
                elif k == "mc_drain":
                    # read (channel, obj) pairs from the receive queue until every member delivered its endmarker
                    q, nmem, none_end = ns[op[1]]
                    ends = 0
                    while ends < nmem:
                        chan, obj = q.get()
                        if (obj == "ENDMARK" and isinstance(obj, str)) or (none_end and obj is None):
                            ends += 1
                            self.ev("cb", side, "mq", chan.id, ENDMARK_TOKEN)
                        else:
                            self.ev("cb", side, "mq", chan.id, self.tok_of(obj))
                        chan = None
                elif k == "drop":
                    c = None
                    v = op[1]
                    cid = ch(v).id
                    self.ev("call", side, "drop", cid)
                    local.pop(v, None)
                    ns.pop(v, None)
                    gc.collect()
                    self.ev("ret", side, "drop", cid, 0, "ok")
                elif k == "gw_reconfigure":
                    self.gw.reconfigure(py2str_as_py3str=op[1], py3str_as_py2str=op[2])
                elif k == "reconfigure":
                    try:
                        ch(op[1]).reconfigure(py2str_as_py3str=op[2], py3str_as_py2str=op[3])
                    except OSError:
                        pass  # the gateway has gone down meanwhile: nothing to reconfigure any more
                elif k == "raise":
                    raise RuntimeError("BOOM in body")
                elif k == "sysexit":
                    raise SystemExit(3)
                elif k == "kbdint":
                    raise KeyboardInterrupt()
                elif k == "exit":
                    call("exit")
                    self.gw.exit()
                    ret("exit")
                elif k == "join":
                    call("join")
                    self.gw.join()
                    ret("join")
                elif k == "hasreceiver":
                    call("hasreceiver")
                    ret("hasreceiver", None, 0, "true" if self.gw.hasreceiver() else "false")
                elif k == "status":
                    # remote_status() uses a channel of its own: its id (seen on the STATUS frame) must be as fresh as any other
                    seen = []
                    orig = self.gw._send

                    def spy(msgcode, channelid=0, data=b"", _orig=orig, _seen=seen):
                        if msgcode == gateway_base.Message.STATUS:
                            _seen.append(channelid)
                        return _orig(msgcode, channelid, data)

                    self.gw._send = spy
                    call("status")
                    try:
                        st = self.gw.remote_status()
                        self.gw._send = orig
                        self.ev("ret", side, "newchannel", seen[0] if seen else 0, 0, "ok" if st is not None else "bad-status")
                    except Exception as e:
                        self.gw._send = orig
                        self.ev("ret", side, "newchannel", seen[0] if seen else 0, 0, self.classify(e))
                elif k == "cut":
                    p = self.p_wi if op[1] == "w>i" else self.p_iw
                    p.cut_here()
                elif k in ("tablesize", "tablesize_settled"):
                    g = self.gw if side == "i" else self.wgw

                    def size(g=g):
                        return len(g._channelfactory._channels) + len(g._channelfactory._callbacks)

                    if k == "tablesize_settled":
                        # closes travel asynchronously: wait (forever if need be -> reported as blocked) until the tables are back
                        # to the size of the first measurement, then report
                        base = self.first_tablesize.get(side, 0)
                        gc.collect()
                        s.yield_(("tables", side), lambda: size() <= base)
                    n = size()
                    self.first_tablesize.setdefault(side, n)
                    self.ev("ret", side, "tablesize", 0, n, "ok")
                elif k == "wait_gate":
                    s.yield_(("gate", op[1]), lambda: op[1] in self.ns["i"] or op[1] in self.ns["w"])
                elif k == "open_gate":
                    ns[op[1]] = True
                elif k == "sleep":
                    (self.em_i if side == "i" else self.em_w).sleep(op[1])
                else:
                    raise ValueError(f"unknown op {op!r}")
            except _SkipOp:
                continue
            finally:
                c = c2 = x = None
