"""The real gateway_base.WorkerPool under the baton scheduler (C09).

A program = pool configuration + thread scripts, mirroring spec/WorkerPool.tla:
  spawners s1..sN (each submits `tasks_per` tasks), primary thread p (optional),
  shutdown caller sh (optional), waitall callers w1.., optional reply.get callers.
Observable events only (no lock/flag/queue of execnet appears in the trace).
"""

from __future__ import annotations

from execnet import gateway_base

from sim.prims import SimExecModel
from sim.sched import Sched


class TaskError(Exception):
    pass


class TaskInterrupt(KeyboardInterrupt):
    """a task that ends by an exception that is not an Exception (KeyboardInterrupt / SystemExit in remote code)"""


def run_pool(program: dict, chooser, post_yields=False, max_steps=4000):
    s = Sched(chooser, max_steps=max_steps, post_yields=post_yields)
    backend = "main_thread_only" if program["mto"] else "thread"
    em = SimExecModel(s, backend, "em")
    pool = gateway_base.WorkerPool(em, hasprimary=program["hasprimary"])
    gated = program["mto"] and program["hasprimary"]
    accepted, ended = set(), set()
    replies = {}
    gates = {}
    gates_open = []
    submitting: list = []

    def ev(e, op="", task=0, who="", res="", flag=False):
        s.observe(e, op=op, task=task, who=who, res=res, flag=flag)

    def taskid(sp, k):
        return program["spawners"].index(sp) * 10 + k

    def make_task(tid, raises, gate):
        def body():
            ev("task_start", task=tid)
            if gate is not None:
                gate.wait()
            ended.add(tid)
            ev("task_end", task=tid, flag=raises)
            if raises:
                raise (TaskInterrupt if tid in program.get("raising_base", ()) else TaskError)(tid)
            return tid * 100

        body.taskid = tid
        return body

    def namer(func, args):
        if args and isinstance(args[0], gateway_base.Reply):
            f = args[0].task[0]
            if hasattr(f, "taskid"):
                return f"wk{f.taskid}"
        return None

    em.namer = namer

    def spawner(sp):
        for k in range(1, program["tasks_per"] + 1):
            tid = taskid(sp, k)
            if gated:
                # the gateway's submission protocol: one submitter at a time, and only after the
                # previous task's function has returned
                s.yield_(("gate", sp), lambda: accepted <= ended and not submitting)
                submitting.append(sp)
            raises = tid in program.get("raising", ())
            gate = None
            if tid in program.get("gated_tasks", ()):
                gate = em.Event()
                gates[tid] = gate
                if gates_open:
                    gate.set()
            ev("call", "spawn", tid, sp)
            try:
                r = pool.spawn(make_task(tid, raises, gate))
            except ValueError:
                del submitting[:]
                ev("ret", "spawn", tid, sp, "ValueError")
                continue
            except BaseException as e:  # noqa: BLE001
                del submitting[:]
                if type(e).__name__ == "SimAbort":
                    raise
                ev("ret", "spawn", tid, sp, type(e).__name__)
                continue
            accepted.add(tid)
            del submitting[:]
            replies[tid] = r
            ev("ret", "spawn", tid, sp, "ok")
            if tid in program.get("get_after", ()):
                do_get(tid, sp, program["get_after"][tid])

    def do_get(tid, who, timeout):
        r = replies[tid]
        ev("call", "get", tid, who, flag=timeout is not None)
        try:
            v = r.get(timeout)
            ev("ret", "get", tid, who, "value", flag=(v == tid * 100))
        except (TaskError, TaskInterrupt) as e:
            ev("ret", "get", tid, who, "raised", flag=(e.args == (tid,)))
        except OSError:
            ev("ret", "get", tid, who, "OSError")
            if tid in gates:  # timed out on a gated task: open the gate, then the value must still arrive
                gates[tid].set()
                do_get(tid, who, None)
        except BaseException as e:  # noqa: BLE001
            if type(e).__name__ == "SimAbort":
                raise
            ev("ret", "get", tid, who, type(e).__name__)

    def primary():
        ev("call", "integrate", who="p")
        pool.integrate_as_primary_thread()
        ev("ret", "integrate", who="p")

    def shutter():
        ev("call", "shutdown", who="sh")
        if program.get("shutdown_via_terminate"):
            res = pool.terminate(timeout=None)
            ev("ret", "shutdown", who="sh")
            ev("call", "waitall", who="sh")
            ev("ret", "waitall", who="sh", res="true" if res else "false")
        else:
            pool.trigger_shutdown()
            ev("ret", "shutdown", who="sh")

    def waiter(w, timed):
        ev("call", "waitall", who=w, flag=timed)
        try:
            res = pool.waitall(timeout=5.0 if timed else None)
            ev("ret", "waitall", who=w, res="true" if res else "false")
            if timed and program.get("timeout_opens_gates"):
                # the timed waiter is back (typically: it gave up while a gated task was still running); now the task may finish:
                # the other waiters must wake up.  (Gates of tasks spawned later are opened by the spawner below.)
                gates_open.append(True)
                for g in gates.values():
                    g.set()
        except BaseException as e:  # noqa: BLE001
            if type(e).__name__ == "SimAbort":
                raise
            ev("ret", "waitall", who=w, res=type(e).__name__)

    def poller():
        # what the STATUS message handler does (gateway.remote_status()): it asks the pool how many tasks are active, at any moment
        for _ in range(program.get("status_polls", 0)):
            pool.active_count()      # (no event of its own: what is judged is that the pool's threads and replies are undisturbed)
            s.yield_(("poll", "st"))

    for sp in program["spawners"]:
        s.spawn(sp, spawner, (sp,))
    if program["hasprimary"]:
        s.spawn("p", primary)
    if program["shutter"]:
        s.spawn("sh", shutter)
    for w in program["waiters"]:
        s.spawn(w, waiter, (w, w in program.get("timed", ())))
    if program.get("status_polls"):
        s.spawn("st", poller)
    outcome = s.run()
    if outcome == "done":
        s.observe("end", op="", task=0, who="", res="", flag=False)
    events = []
    for e in s.events:
        if e["ev"] == "stuck":
            events.append({"ev": "stuck", "op": "", "task": 0, "who": "", "res": ",".join(b["task"] for b in e["blocked"]), "flag": False})
        elif e["ev"] == "task_died":
            events.append({"ev": "died", "op": "", "task": 0, "who": e["task"], "res": e["exc"], "flag": False})
        else:
            events.append({k: e[k] for k in ("ev", "op", "task", "who", "res", "flag")})
    return {"outcome": outcome, "events": events, "decisions": [d[0] for d in chooser.decisions], "steps": s.steps,
            "sched": [f"{n}:{w[0]}" for n, w in s.sched_trace]}
