#!/usr/bin/env python3
"""tools/keep_all.py <root> <matrix.json> <offset>: keep every confirmed seeded change of <root>-Cxx/mutN as /verif/seeded/Cxx-(N+offset)/
(patch.diff, demo.py, meta.json) and regenerate /verif/seeded/README.md."""
import glob, json, os, shutil, sys

root, matrix, offset = sys.argv[1], json.load(open(sys.argv[2])), int(sys.argv[3])
for key, m in sorted(matrix.items()):
    pid, n = key.split("/")
    src = f"{root}-{pid}/mut{n}"
    ver = os.path.join(src, "verify.json")
    if not os.path.exists(ver):
        print("skip (not verified)", key)
        continue
    v = json.load(open(ver))
    if not (v.get("applies") and v.get("demo_rc_clean") == 0 and v.get("demo_rc_mutated") not in (0, None)):
        print("skip (verification failed)", key, v)
        continue
    dst = f"/verif/seeded/{pid}-{int(n) + offset}"
    os.makedirs(dst, exist_ok=True)
    for f in ("patch.diff", "demo.py"):
        shutil.copy(os.path.join(src, f), dst)
    meta = json.load(open(os.path.join(src, "meta.json")))
    out = {"property": pid, "summary": meta.get("summary", ""), "needs": meta.get("needs", ""), "files_changed": meta.get("files_changed", []),
           "author": "independent sub-agent given only the property text and a scratch worktree",
           "confirmed": {"base_commit": v.get("base"), "demo_exit_on_clean_tree": v["demo_rc_clean"], "demo_exit_with_change": v["demo_rc_mutated"],
                         "existing_suite_with_change": v.get("suite_summary"), "failures_other_than_baseline": v.get("suite_failed_other_than_baseline", ""),
                         "note": "test_channel_passing_over_channel / test__rinfo / test_waitclose_on_remote_killed are racy on the unchanged tree too"},
           "what_i_ran": "tools/verify_seed.sh (fresh worktree of /repo HEAD: demo without the change, demo with it, full existing suite with it); "
                         "tools/seed_matrix.py (change applied to /repo, quick checks run, change reverted)",
           "detected_by": m.get("detected_by", []), "detection_detail": {k: d["first"] for k, d in m.get("detail", {}).items() if d["rc"] == 1}}
    json.dump(out, open(os.path.join(dst, "meta.json"), "w"), indent=1)
rows = []
for d in sorted(glob.glob("/verif/seeded/C*-*")):
    m = json.load(open(os.path.join(d, "meta.json")))
    rows.append(f"| {os.path.basename(d)} | {m['summary'][:230].replace('|', '/')} | {', '.join(m['detected_by']) or '**missed**'} |")
open("/verif/seeded/README.md", "w").write(
    "# Seeded changes\n\nEach directory holds a change to pytest-dev/execnet written by an independent sub-agent that saw only the property text "
    "(patch.diff), its demonstration (demo.py: exit 0 on the unchanged tree, non-zero with the change) and meta.json (what it needs to manifest, "
    "how it was confirmed, which quick checks report it).  None is applied to /repo.  Every patch was written against the commit named in its meta.json "
    "(base_commit) and its detection was measured there; later `fix:` commits touch some of the same lines, so at the current HEAD 6 patches "
    "(C05-2, C06-1, C16-4, C16-5, C20-6, C20-8) no longer apply - three of them (`io.wait()` before `join()` on a via= gateway) cannot break "
    "anything any more since the forwarder's wait request left the receiver thread - and 6 more need `patch -F3`.\n\n| seed | change | quick checks that report it |\n|---|---|---|\n"
    + "\n".join(rows) + "\n")
print(len(rows), "seeds kept")
