"""Generate drivers/c02.py .. c18.py for the channel-protocol properties from one table."""
T = '''"""{title}"""

from __future__ import annotations

import random

from drivers import gwcommon as gc
from drivers import gwmodel, gwprograms
from sim import gwrun

LINE_FUNCS = {line}


def run(ctx):
    rng = random.Random(ctx.seed + {num})
    mc = gwmodel.check(ctx, {cfgs}, mutants={mutants})
    progs = gwprograms.{fam}
    opts = [{{"post_yields": True}}, {{"post_yields": True, "chunking": "random"}}, {{"post_yields": False}},
            {{"post_yields": True, "line_level": LINE_FUNCS}}]
    # the whole family once more on a gateway whose string coercion was reconfigured (nothing about channels, closes, errors or
    # remote_exec may depend on the coercion switches)
    opts.append({{"post_yields": True, "reconfigure": (False, True)}})
    # the real SocketIO over the scripted socket (partial sends, chunked receives)
    opts.append({{"post_yields": True, "transport": "socket", "chunking": "random"}})
    if not ctx.quick:
        opts.append({{"post_yields": False, "transport": "socket"}})
        opts.append({{"post_yields": False, "reconfigure": (True, True)}})
    jobs = gc.jobs_for(progs, 24 if ctx.quick else 120, 10 if ctx.quick else 40, ctx.seed, opts)
    # preemption-bounded systematic search (every schedule with <= 1 preemption, yields before and after each operation)
    searches = [(p, 1, 250 if ctx.quick else 6000, {{"post_yields": True}}) for p in progs[: 6 if ctx.quick else 14]]
    {extra}
    res = gc.run_and_judge(ctx, jobs, {own}, {nontriv}, {known}, searches=searches)
    gwrun.close_pool()
    ctx.coverage.update({{
        "states": mc["states"], "transitions": mc["transitions"],
        "traces_validated_against_impl": res["distinct"], "evaluations": res["runs"], "distinct_nontrivial": res["nontrivial"],
        "rule": "{rule}; run on the real Gateway + WorkerGateway pair over real Popen2IO/SocketIO with scripted pipes under seeded random / PCT / "
                "non-preemptive schedules and a preemption-bounded systematic search (<= 1 preemption) for the first programs, yielding before and after every synchronisation and IO operation and, in a quarter of the runs, before "
                "every source line of " + ", ".join(LINE_FUNCS) + "; distinct by event trace; {ntext}",
        "samples": [res["sample"]], "programs": len(progs), "verdict_histogram": res["hist"],
        "other_property_rejections": res["other_property_rejections"], "tlc": mc["detail"],
        "bounded_search": {{"programs": res["bounded_searches"], "runs": res["bounded_search_runs"], "finished_exhaustively": res["bounded_searches_finished"]}},
    }})
    {post}
    ctx.assumptions += gc.ASSUMPTIONS
    return "model_checking"
'''
D = {
"c02": dict(post='ctx.coverage["multichannel_real"] = multi\n    ctx.coverage["channel_file_delivery"] = cfd', extra='multi = gc.multi_part(ctx, ["C02.", "C03."])\n    cfd = gc.chanfile_delivery_part(ctx, rng, ["C02.", "C03."])',title="C02 -- channels deliver each item exactly once, in order, to the right channel",
  cfgs='["GW_data", "GW_cb"] if ctx.quick else ["GW_data", "GW_cb", "GW_cb_recv", "GW_data_big"]', mutants='[]',
  fam="c02_programs(rng, 10 if ctx.quick else 80)", own='["C02.", "C10.callback-item", "C10.callback-missed", "C10.endmarker-before-last-item", "C08.", "C18.channel-id-handed-out-twice"]',
  line='["send", "_send", "to_io", "_local_receive", "receive", "setcallback", "new", "from_io"]',
  nontriv='lambda evs: sum(1 for e in evs if e["ev"] in ("deq", "cb")) >= 3',
  rule="generated channel programs (1-3 channels, both directions, 1-2 receiver threads or a callback per channel, two sender threads on one channel, channels passed over channels)",
  ntext="non-trivial = at least 3 items delivered", known="None"),
"c03": dict(post='ctx.coverage["chanlife_replay"] = life\n    ctx.coverage["channel_file_delivery"] = cfd\n    ctx.coverage["multichannel_real"] = multi\n    ctx.coverage["closed_channel_receives"] = crecv', extra='life = gc.chanlife_part(ctx, ["C03."], 3 if ctx.quick else 5)\n    cfd = gc.chanfile_delivery_part(ctx, rng, ["C02.", "C03."])\n    multi = gc.multi_part(ctx, ["C03."])\n    crecv = gc.closed_receive_part(ctx)',title="C03 -- close is ordered after data and observed consistently by both sides",
  cfgs='["GW_data", "GW_lclose"] if ctx.quick else ["GW_data", "GW_err", "GW_lclose", "GW_data_big", "GW_all_big"]', mutants='["GW_close_unfixed"]',
  fam="c03_programs(rng, 10 if ctx.quick else 80)", own='["C03.", "C10.endmarker-before-last-item"]',
  line='["close", "_local_close", "_no_longer_opened", "receive", "waitclose", "send", "isclosed", "__del__"]',
  nontriv='lambda evs: any(e["ev"] == "ret" and e["op"] == "receive" and e["res"] == "EOF" for e in evs) and any(e["ev"] == "ret" and e["op"] in ("send", "isclosed") for e in evs)',
  rule="generated send/close histories (explicit close, close with error, end of remote_exec, dropping the last reference, concurrent close on both sides) with 1-3 blocked receivers and waitclose callers that probe isclosed/send/waitclose/close/receive after having observed the close",
  ntext="non-trivial = some receiver saw EOFError and a probe (send/isclosed) followed", known="None"),
"c07": dict(post='ctx.coverage["channel_file_errors"] = cferr\n    ctx.coverage["multichannel_real"] = multi\n    ctx.coverage["endmarker_callback_raises"] = cbend', extra='cferr = gc.chanfile_error_part(ctx, rng)\n    cbend = gc.cbend_part(ctx)\n    multi = gc.multi_part(ctx, ["C07."])\n    jobs += gc.jobs_for([p for p in progs if len(p["threads"]) == 1], 6 if ctx.quick else 40, 2, ctx.seed + 1, [{"post_yields": True, "worker_backend": "main_thread_only"}])',title="C07 -- remote failures surface as RemoteError on that channel only",
  cfgs='["GW_err", "GW_cb_raises"] if ctx.quick else ["GW_err", "GW_cb_raises", "GW_cb_recv", "GW_data_big", "GW_all_big"]', mutants='["GW_cb_raises_unguarded"]',
  fam="c07_programs(rng, 8 if ctx.quick else 60)", own='["C07.", "C14.false-deadlock", "C10.endmarker-missing"]',
  line='["_local_receive", "_local_close", "close", "waitclose", "receive", "_getremoteerror", "executetask", "_executetask"]',
  nontriv='lambda evs: any(e["ev"] == "fin" and e["op"] == "6" for e in evs)',
  rule="failures at every position of generated item streams: raising remote bodies and raising callbacks on either side, channel object alive or dropped, a sibling channel with traffic, hasreceiver() probes",
  ntext="non-trivial = a CHANNEL_CLOSE_ERROR frame was dispatched",
  known='(lambda r, vd: {"C07.remote-error-swallowed-after-last-message": "error-after-last-message", "C07.callback-error-during-setcallback-drain-not-reported": "callback-raises-during-setcallback-drain"}.get(vd))'),
"c10": dict(post='ctx.coverage["chanlife_replay"] = life', extra='life = gc.chanlife_part(ctx, ["C10."], 3 if ctx.quick else 5)',title="C10 -- callback receivers see every item once, in order, then one endmarker",
  cfgs='["GW_cb", "GW_cb_recv"] if ctx.quick else ["GW_cb", "GW_cb_recv", "GW_all_big"]', mutants='[]',
  fam="c10_programs(rng, 10 if ctx.quick else 80)", own='["C10."]',
  line='["setcallback", "_local_receive", "_local_close", "_no_longer_opened", "_finished_receiving", "receive", "reconfigure"]',
  nontriv='lambda evs: sum(1 for e in evs if e["ev"] == "cb") >= 2',
  rule="setcallback placed before / between / after in-flight items and the peer's close (the schedule decides where relative to the receiver thread), endings by close, error, end of body and gateway exit, with and without endmarker, callback channels whose object was dropped, two callback channels at once",
  ntext="non-trivial = the callback was invoked at least twice",
  known="None"),
"c18": dict(post='ctx.coverage["chanlife_replay"] = life\n    ctx.coverage["apalache_inductive_invariant"] = gc.chanids_inductive(ctx)', extra='life = gc.chanlife_part(ctx, ["C18.", "C10.", "C03.", "C02."], 4 if ctx.quick else 6)',title="C18 -- channel ids never collide and channels travel over channels intact",
  cfgs='[("MCChanIds", "CI"), "GW_data"] if ctx.quick else [("MCChanIds", "CI"), ("MCChanIds", "CI_big"), "GW_data", "GW_data_big"]', mutants='[("MCChanIds", "CI_nolock")]',
  fam="c18_programs(rng, 8 if ctx.quick else 60)", own='["C18.", "C02.", "C10.dropped-callback"]',
  line='["new", "newchannel", "remote_exec", "remote_status", "load_channel", "_no_longer_opened", "close", "__init__", "setcallback", "_local_close", "reconfigure"]',
  nontriv='lambda evs: sum(1 for e in evs if e["ev"] == "ret" and e["op"] in ("newchannel", "remote_exec")) >= 3',
  rule="concurrent newchannel/remote_exec calls from several threads on both sides; channels created on either side passed over channels (plain and nested in containers) and used; open/transfer/close/drop cycles with the channel table size compared before and after",
  ntext="non-trivial = at least three channels were created",
  known="None"),
}
for name, d in D.items():
    open(f"/verif/drivers/{name}.py", "w").write(T.format(num=int(name[1:]), **d))
print("generated", sorted(D))
