#!/usr/bin/env python3
"""tools/seed_matrix.py <root> <out.json> [ID ...]: for every seeded change under <root>-<ID>/mut<n>: apply it to a scratch
worktree of /repo's HEAD (never to /repo itself, so other checks can keep running), run the quick check of its property
(and the extra checks listed below) with VERIF_REPO pointing at that worktree, undo it; record which checks report a violation.
Evidence / replays of these runs go to /verif/.alt/."""
import json, os, subprocess, sys

root, out = sys.argv[1], sys.argv[2]
ids = sys.argv[3:] or [f"C{i:02d}" for i in range(1, 21)]
EXTRA = {"C02": ["C08", "C10", "C18", "C19"], "C06": ["C14"], "C07": ["C14"], "C10": ["C04"], "C04": ["C10", "C19"], "C16": ["C08", "C05"], "C15": ["C05"], "C20": ["C05"],
         "C14": ["C09"], "C09": ["C14"], "C11": ["C09", "C05"], "C03": ["C19", "C16", "C02"], "C18": ["C10"], "C12": ["C01"], "C01": ["C12"], "C13": ["C01"]}
WT = os.environ.get("SEED_WT", "/tmp/seedrepo")
subprocess.run(["git", "-C", "/repo", "worktree", "remove", "--force", WT], capture_output=True)
subprocess.run(["git", "-C", "/repo", "worktree", "add", "-q", "--detach", WT, "HEAD"], check=True)
subprocess.run(["cp", "/repo/src/execnet/_version.py", WT + "/src/execnet/_version.py"])
env = dict(os.environ, VERIF_REPO=WT)
res = json.load(open(out)) if os.path.exists(out) else {}
try:
    for pid in ids:
        for n in (1, 2):
            d = f"{root}-{pid}/mut{n}"
            patch = os.path.join(d, "patch.diff")
            if not os.path.exists(patch):
                continue
            key = f"{pid}/{n}"
            subprocess.run(["git", "-C", WT, "checkout", "--", "."])
            ok = subprocess.run(f"git -C {WT} apply {patch} 2>/dev/null || (cd {WT} && patch -p1 -F3 -s --no-backup-if-mismatch < {patch})", shell=True).returncode == 0
            if not ok:
                res[key] = {"applies": False}
                continue
            det = {}
            for chk in [pid] + EXTRA.get(pid, []):
                p = subprocess.run(["/verif/check", chk, "--tier", "quick"], capture_output=True, text=True, env=env)
                what = [l.strip() for l in p.stdout.splitlines() if l.strip().startswith("what:")]
                det[chk] = {"rc": p.returncode, "first": what[0][:160] if what else (p.stderr[-200:] if p.returncode == 2 else "")}
                if chk == pid and p.returncode == 1:
                    break  # its own check catches it; the others need not be run
            subprocess.run(["git", "-C", WT, "checkout", "--", "."])
            res[key] = {"applies": True, "detected_by": [c for c, v in det.items() if v["rc"] == 1], "detail": det}
            json.dump(res, open(out, "w"), indent=1)
            print(key, res[key]["detected_by"], {c: v["rc"] for c, v in det.items()}, flush=True)
finally:
    subprocess.run(["git", "-C", "/repo", "worktree", "remove", "--force", WT], capture_output=True)
