#!/usr/bin/env python3
"""tools/seed_matrix.py <root> <out.json> [ID ...]: for every seeded change under <root>-<ID>/mut<n> apply it to /repo,
run the quick check of its property (and extra checks listed below), undo it; record which checks report a violation."""
import json, os, subprocess, sys

root, out = sys.argv[1], sys.argv[2]
ids = sys.argv[3:] or [f"C{i:02d}" for i in range(1, 21)]
EXTRA = {"C02": ["C08", "C10", "C18"], "C06": ["C14"], "C07": ["C14"], "C10": ["C04"], "C04": ["C10"], "C16": ["C08", "C05"], "C15": ["C05"], "C20": ["C05"]}
res = json.load(open(out)) if os.path.exists(out) else {}
for pid in ids:
    for n in (1, 2):
        d = f"{root}-{pid}/mut{n}"
        patch = os.path.join(d, "patch.diff")
        if not os.path.exists(patch):
            continue
        key = f"{pid}/{n}"
        subprocess.run(["git", "-C", "/repo", "checkout", "--", "."])
        ok = subprocess.run(f"git -C /repo apply {patch} 2>/dev/null || (cd /repo && patch -p1 -F3 -s --no-backup-if-mismatch < {patch})", shell=True).returncode == 0
        if not ok:
            res[key] = {"applies": False}
            continue
        det = {}
        for chk in [pid] + EXTRA.get(pid, []):
            p = subprocess.run(["/verif/check", chk, "--tier", "quick"], capture_output=True, text=True)
            what = [l.strip() for l in p.stdout.splitlines() if l.strip().startswith("what:")]
            det[chk] = {"rc": p.returncode, "first": what[0][:160] if what else ""}
            if chk == pid and p.returncode == 1:
                break  # its own check catches it; the others need not be run
        subprocess.run(["git", "-C", "/repo", "checkout", "--", "."])
        res[key] = {"applies": True, "detected_by": [c for c, v in det.items() if v["rc"] == 1], "detail": det}
        json.dump(res, open(out, "w"), indent=1)
        print(key, res[key]["detected_by"], flush=True)
subprocess.run(["git", "-C", "/repo", "checkout", "--", "."])
