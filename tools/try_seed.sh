#!/bin/sh
# tools/try_seed.sh <patch.diff> <ID> [<ID>...]: apply a seeded change to /repo, run the quick checks, undo it.
patch="$1"; shift
git -C /repo apply "$patch" 2>/dev/null || (cd /repo && patch -p1 -F3 -s --no-backup-if-mismatch < "$patch") || { echo "patch does not apply"; git -C /repo checkout -- .; exit 2; }
for id in "$@"; do
  /verif/check "$id" --tier quick > /tmp/try_seed.$$.log 2>&1
  rc=$?
  echo "== $id rc=$rc: $(grep -c '^VIOLATION' /tmp/try_seed.$$.log) violations; $(grep -m1 'what:' /tmp/try_seed.$$.log | cut -c1-220)"
  [ $rc -eq 2 ] && tail -5 /tmp/try_seed.$$.log
done
rm -f /tmp/try_seed.$$.log
git -C /repo checkout -- .
