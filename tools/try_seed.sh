#!/bin/sh
# tools/try_seed.sh <patch.diff> <ID> [<ID>...]: apply a seeded change to a scratch worktree of /repo's HEAD (never /repo itself),
# run the quick checks against it (VERIF_REPO), remove the worktree.
patch="$1"; shift
wt=/tmp/tryseed-$$
git -C /repo worktree add -q --detach $wt HEAD || exit 2
cp /repo/src/execnet/_version.py $wt/src/execnet/_version.py
git -C $wt apply "$patch" 2>/dev/null || (cd $wt && patch -p1 -F3 -s --no-backup-if-mismatch < "$patch") || { echo "patch does not apply"; git -C /repo worktree remove --force $wt; exit 2; }
for id in "$@"; do
  VERIF_REPO=$wt /verif/check "$id" --tier quick > /tmp/try_seed.$$.log 2>&1
  rc=$?
  echo "== $id rc=$rc: $(grep -c '^VIOLATION' /tmp/try_seed.$$.log) violations; $(grep -m1 'what:' /tmp/try_seed.$$.log | cut -c1-220)"
  [ $rc -eq 2 ] && tail -5 /tmp/try_seed.$$.log
done
rm -f /tmp/try_seed.$$.log
git -C /repo worktree remove --force $wt
