#!/usr/bin/env python3
"""tools/keep_seed.py <ID> <n> <detected_by|none> [note]: keep a confirmed seeded change under /verif/seeded/<ID>-<n>/."""
import json, os, shutil, sys
pid, n, det = sys.argv[1], sys.argv[2], sys.argv[3]
note = sys.argv[4] if len(sys.argv) > 4 else ""
src = f"/tmp/seed-{pid}/mut{n}"
dst = f"/verif/seeded/{pid}-{n}"
os.makedirs(dst, exist_ok=True)
for f in ("patch.diff", "demo.py"):
    shutil.copy(os.path.join(src, f), dst)
meta = json.load(open(os.path.join(src, "meta.json")))
ver = os.path.join(src, "verify.json")
meta["confirmed"] = json.load(open(ver)) if os.path.exists(ver) else "not re-verified"
meta["what_i_ran"] = "tools/verify_seed.sh (demo on clean worktree: exit 0; with patch: non-zero; full suite with patch) and tools/try_seed.sh (quick checks on /repo with the patch applied, then reverted)"
meta["detected_by"] = [] if det == "none" else det.split(",")
if note:
    meta["detection_note"] = note
json.dump(meta, open(os.path.join(dst, "meta.json"), "w"), indent=1)
print("kept", dst)
