#!/bin/sh
# tools/verify_seed.sh <ID> <n> [root=/tmp/seed]: confirm a seeded change from <root>-<ID>/mut<n> in a fresh scratch worktree of /repo's HEAD:
# demo passes without it, fails with it, the existing suite still passes with it.  Writes verify.json next to it; removes the worktree.
id="$1"; n="$2"; root="${3:-/tmp/seed}"; wt=/tmp/wtv-$id-$n; sd=$root-$id/mut$n
git -C /repo worktree remove --force $wt 2>/dev/null
git -C /repo worktree add -q --detach $wt HEAD || exit 2
cp /repo/src/execnet/_version.py $wt/src/execnet/_version.py
cd $sd
sed -e "s#/tmp/wt-$id#$wt#g" -e "s#/tmp/wt2-$id#$wt#g" -e "s#/tmp/wt3-$id#$wt#g" -e "s#/tmp/wt4-$id#$wt#g" -e "s#/tmp/wt5-$id#$wt#g" -e "s#/tmp/wt6-$id#$wt#g" demo.py > demo_v.py
PYTHONPATH=$wt/src timeout 600 /venv/bin/python demo_v.py > demo_clean.log 2>&1; rc_clean=$?
(git -C $wt apply $sd/patch.diff 2>/dev/null || (cd $wt && patch -p1 -F3 -s --no-backup-if-mismatch < $sd/patch.diff)) || { echo "{\"applies\": false}" > verify.json; git -C /repo worktree remove --force $wt; exit 1; }
PYTHONPATH=$wt/src timeout 600 /venv/bin/python demo_v.py > demo_mut.log 2>&1; rc_mut=$?
(cd $wt && env -u EXECNET_VERIF PYTHONPATH=$wt/src timeout 1500 /venv/bin/python -m pytest -q -p no:cacheprovider --timeout=900 testing > $sd/suite.log 2>&1)
summary=$(grep -E "passed|failed" $sd/suite.log | tail -1)
failed=$(grep -E "^FAILED" $sd/suite.log | grep -v test_dont_write_bytecode | cut -c1-90 | tr '\n' ';')
rm -f demo_v.py
git -C /repo worktree remove --force $wt
printf '{"applies": true, "base": "%s", "demo_rc_clean": %s, "demo_rc_mutated": %s, "suite_summary": "%s", "suite_failed_other_than_baseline": "%s"}\n' "$(git -C /repo rev-parse --short HEAD)" "$rc_clean" "$rc_mut" "$summary" "$failed" > verify.json
cat verify.json
