#!/bin/sh
# tools/verify_seed.sh <ID> <n>: confirm a seeded change from /tmp/seed-<ID>/mut<n> in the scratch worktree /tmp/wt-<ID>:
# demo passes without it, fails with it, the existing suite still passes with it.  Writes verify.json next to it.
id="$1"; n="$2"; wt=/tmp/wt-$id; sd=/tmp/seed-$id/mut$n
[ -f $wt/src/execnet/_version.py ] || cp /repo/src/execnet/_version.py $wt/src/execnet/_version.py
git -C $wt checkout -q -- . 
cd $sd
PYTHONPATH=$wt/src timeout 600 /venv/bin/python demo.py > demo_clean.log 2>&1; rc_clean=$?
git -C $wt apply $sd/patch.diff || { echo "{\"applies\": false}" > verify.json; exit 1; }
PYTHONPATH=$wt/src timeout 600 /venv/bin/python demo.py > demo_mut.log 2>&1; rc_mut=$?
(cd $wt && env -u EXECNET_VERIF PYTHONPATH=$wt/src timeout 1500 /venv/bin/python -m pytest -q -p no:cacheprovider --timeout=900 testing > $sd/suite.log 2>&1)
summary=$(grep -E "passed|failed" $sd/suite.log | tail -1)
failed=$(grep -E "^FAILED" $sd/suite.log | grep -v test_dont_write_bytecode | tr '\n' ';')
git -C $wt checkout -q -- .
printf '{"applies": true, "demo_rc_clean": %s, "demo_rc_mutated": %s, "suite_summary": "%s", "suite_failed_other_than_baseline": "%s"}\n' "$rc_clean" "$rc_mut" "$summary" "$failed" > verify.json
cat verify.json
