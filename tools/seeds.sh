#!/bin/sh
# tools/seeds.sh "<ids>" "<seeds>": run quick checks under several seeds; print one line per run
for id in $1; do for sd in $2; do
  VERIF_SEED=$sd /verif/check $id --tier quick > /tmp/seeds.$$.log 2>&1; rc=$?
  echo "$id seed=$sd rc=$rc $(grep -m1 'what:' /tmp/seeds.$$.log | cut -c1-160) $(grep -c KNOWN-FINDING /tmp/seeds.$$.log)kf $(tail -1 /tmp/seeds.$$.log | grep -o 'wall=[0-9.]*s')"
  [ $rc -eq 2 ] && tail -4 /tmp/seeds.$$.log | cut -c1-300
done; done; rm -f /tmp/seeds.$$.log
