"""C05 -- Group.terminate(timeout) returns promptly and leaves no local child behind."""

from __future__ import annotations

import json
import os
import random
import signal
import sys
import threading
import time

from mbt import batch, tlc
from real import procs
from real.c11_driver import BODIES

KNOWN = {}


def scenario(sc, results, lock):
    """one Group, 1-3 gateways with activities and injected signals; terminate(timeout)"""
    import execnet

    group = execnet.Group()
    import atexit
    import re
    import subprocess

    atexit.unregister(group._cleanup_atexit)
    # stand-alone socket servers (execnet/script/socketserver.py run by hand): not started by the group, nothing terminate() could kill
    servers = {}
    for i, g in enumerate(sc["gws"]):
        if g["topo"] == "socket_standalone":
            import execnet.script.socketserver as _ss

            sp = subprocess.Popen([sys.executable, "-u", _ss.__file__, "127.0.0.1:0"], stdout=subprocess.PIPE, stderr=subprocess.STDOUT,
                                  env={**os.environ, "PYTHONPATH": os.path.dirname(os.path.dirname(os.path.dirname(_ss.__file__)))})
            m = re.search(r"\('127\.0\.0\.1', (\d+)\)", sp.stdout.readline().decode())
            servers[i] = (sp, int(m.group(1)) if m else 0)
    mine_before = procs.descendants(os.getpid())
    out = {"k": "terminate", "timeout_ms": int(sc["timeout"] * 1000), "rounds": 1, "n": len(sc["gws"]), "elapsed_ms": 0, "group_len": -1,
           "leftover": -1, "err": "", "sc": sc}
    pids = []
    try:
        for i, g in enumerate(sc["gws"]):
            topo, em = g["topo"], g["execmodel"]
            if topo == "popen":
                gw = group.makegateway(f"popen//execmodel={em}")
            elif topo == "via":
                m = group.makegateway("popen")
                gw = group.makegateway(f"popen//via={m.id}//execmodel={em}")
                out["rounds"] = 2
            elif topo == "socket":
                m = group.makegateway("popen")
                gw = group.makegateway(f"socket//installvia={m.id}//execmodel={em}")
                out["rounds"] = 2
            elif topo == "socket_standalone":
                gw = group.makegateway(f"socket=127.0.0.1:{servers[i][1]}//execmodel={em}")
            pid = gw.remote_exec("import os\nchannel.send(os.getpid())").receive(30)
            pids.append(pid)
            body = BODIES[g["env"]] if g["env"] not in ("stopped", "dead") else None
            if body:
                gw.remote_exec(body)
            g["pid"] = pid
        time.sleep(0.25)
        for g in sc["gws"]:
            if g["env"] == "stopped":
                os.kill(g["pid"], signal.SIGSTOP)
            elif g["env"] == "dead":
                os.kill(g["pid"], signal.SIGKILL)
        started = (procs.descendants(os.getpid()) | set(pids)) - mine_before
        t0 = time.monotonic()

        def _terminate():
            try:
                group.terminate(timeout=sc["timeout"])
            except Exception as e:  # noqa: BLE001
                out["err"] = type(e).__name__

        # watchdog: a terminate() that never returns is a (very late) result, not a hung check
        tt = threading.Thread(target=_terminate, daemon=True)
        tt.start()
        tt.join(20 * sc["timeout"] + 30)
        out["elapsed_ms"] = int((time.monotonic() - t0) * 1000) if not tt.is_alive() else 10 ** 7
        out["group_len"] = len(group)
        gone = procs.wait_gone(started, 1.5)
        left = [p for p, ms in gone.items() if ms == -1]
        out["leftover"] = len(left)
        out["leftover_states"] = [procs.state(p) for p in left]
        for p in left:
            try:
                os.kill(p, signal.SIGCONT)
            except OSError:
                pass
        procs.reap(left)
    except Exception as e:  # noqa: BLE001
        out["err"] = "harness:" + type(e).__name__ + ":" + str(e)[:100]
        procs.reap(pids)
    for sp, _port in servers.values():
        try:
            os.kill(sp.pid, signal.SIGCONT)
        except OSError:
            pass
        sp.kill()
        sp.wait()
        sp.stdout.close()
    with lock:
        results.append(out)


def reuse_cases():
    """a gateway whose worker does not react is exit()ed by the user, a replacement with the SAME id is created, then terminate(timeout):
    the exited gateway is still waited for / killed, both processes are gone afterwards"""
    import execnet

    res = []
    for env in ("stopped", "swallow"):
        group = execnet.Group()
        import atexit

        atexit.unregister(group._cleanup_atexit)
        sc = {"timeout": 0.5, "gws": [{"env": env, "execmodel": "thread", "topo": "popen", "reused_id": True}]}
        out = {"k": "terminate", "timeout_ms": 500, "rounds": 1, "n": 2, "elapsed_ms": 0, "group_len": -1, "leftover": -1, "err": "", "sc": sc}
        before = procs.descendants(os.getpid())
        pids = []
        try:
            gw1 = group.makegateway("popen//id=same")
            pids.append(gw1.remote_exec("import os\nchannel.send(os.getpid())").receive(30))
            if BODIES.get(env):
                gw1.remote_exec(BODIES[env])
            time.sleep(0.25)
            if env == "stopped":
                os.kill(pids[0], signal.SIGSTOP)
            gw1.exit()
            gw2 = group.makegateway("popen//id=same")
            pids.append(gw2.remote_exec("import os\nchannel.send(os.getpid())").receive(30))
            started = (procs.descendants(os.getpid()) | set(pids)) - before
            t0 = time.monotonic()
            try:
                group.terminate(timeout=0.5)
            except Exception as e:  # noqa: BLE001
                out["err"] = type(e).__name__
            out["elapsed_ms"] = int((time.monotonic() - t0) * 1000)
            out["group_len"] = len(group)
            gone = procs.wait_gone(started, 1.5)
            left = [p for p, ms in gone.items() if ms == -1]
            out["leftover"] = len(left)
            for p in left:
                try:
                    os.kill(p, signal.SIGCONT)
                except OSError:
                    pass
            procs.reap(left)
        except Exception as e:  # noqa: BLE001
            out["err"] = "harness:" + type(e).__name__ + ":" + str(e)[:100]
            procs.reap(pids)
        res.append(out)
    return res


def exited_via_case():
    """the user exit()s a proxied gateway, then terminates the group: terminate returns normally, nothing is left"""
    import execnet

    group = execnet.Group()
    import atexit

    atexit.unregister(group._cleanup_atexit)
    sc = {"timeout": 1.0, "gws": [{"env": "idle", "execmodel": "thread", "topo": "via", "exited_before": True}]}
    out = {"k": "terminate", "timeout_ms": 1000, "rounds": 2, "n": 2, "elapsed_ms": 0, "group_len": -1, "leftover": -1, "err": "", "sc": sc}
    before = procs.descendants(os.getpid())
    try:
        m = group.makegateway("popen//id=m")
        gw = group.makegateway("popen//via=m//id=w")
        gw.remote_exec("pass").waitclose(10)
        started = procs.descendants(os.getpid()) - before
        gw.exit()
        t0 = time.monotonic()
        try:
            group.terminate(timeout=1.0)
        except Exception as e:  # noqa: BLE001
            out["err"] = type(e).__name__
        out["elapsed_ms"] = int((time.monotonic() - t0) * 1000)
        out["group_len"] = len(group)
        gone = procs.wait_gone(started, 1.5)
        left = [p for p, ms in gone.items() if ms == -1]
        out["leftover"] = len(left)
        procs.reap(left)
    except Exception as e:  # noqa: BLE001
        out["err"] = "harness:" + type(e).__name__ + ":" + str(e)[:100]
    return [out]


def exited_before_cases():
    """gateways the user exit()ed before terminate(): (a) a proxied gateway and the gateway it runs behind, another member left: terminate does
    not raise; (b) a gateway whose worker is stopped, nobody else in the group: terminate still waits for it and kills it"""
    import execnet

    res = []
    for variant in ("proxied-and-master", "stopped-and-empty-group"):
        group = execnet.Group()
        import atexit

        atexit.unregister(group._cleanup_atexit)
        sc = {"timeout": 0.5, "gws": [{"env": "stopped" if variant.startswith("stopped") else "idle", "execmodel": "thread",
                                       "topo": "via" if variant.startswith("proxied") else "popen", "exited_before": variant}]}
        out = {"k": "terminate", "timeout_ms": 500, "rounds": 2, "n": 2, "elapsed_ms": 0, "group_len": -1, "leftover": -1, "err": "", "sc": sc}
        before = procs.descendants(os.getpid())
        pids = []
        try:
            if variant == "proxied-and-master":
                m = group.makegateway("popen//id=m")
                w = group.makegateway("popen//via=m//id=w")
                w.remote_exec("pass").waitclose(10)
                started = procs.descendants(os.getpid()) - before
                w.exit()
                m.exit()
                group.makegateway("popen//id=p")
                started |= procs.descendants(os.getpid()) - before
            else:
                gw = group.makegateway("popen//id=a")
                pids.append(gw.remote_exec("import os\nchannel.send(os.getpid())").receive(30))
                started = (procs.descendants(os.getpid()) | set(pids)) - before
                os.kill(pids[0], signal.SIGSTOP)
                gw.exit()
            t0 = time.monotonic()
            try:
                group.terminate(timeout=0.5)
            except Exception as e:  # noqa: BLE001
                out["err"] = type(e).__name__
            out["elapsed_ms"] = int((time.monotonic() - t0) * 1000)
            out["group_len"] = len(group)
            gone = procs.wait_gone(started, 1.5)
            left = [p for p, ms in gone.items() if ms == -1]
            out["leftover"] = len(left)
            for p in left:
                try:
                    os.kill(p, signal.SIGCONT)
                except OSError:
                    pass
            procs.reap(left)
        except Exception as e:  # noqa: BLE001
            out["err"] = "harness:" + type(e).__name__ + ":" + str(e)[:100]
            procs.reap(pids)
        res.append(out)
    return res


def mkfail_cases():
    """a makegateway call that fails leaves no process behind: at once when it is refused up front (id taken, bad spec),
    at the latest after terminate() when the failure happens once the interpreter runs (chdir / nice / env configuration)"""
    import execnet

    res = []
    for spec, immediate in (("popen//id=taken", True), ("popen//python=/nonexistent/python3//id=p2", True), ("popen//id=ok2//id=ok2", True),
                            ("socket=localhost:1//id=s1", True), ("popen//via=nosuchgw//id=v1", True),
                            ("popen//chdir=/nonexistent-parent/sub/dir//id=c1", False), ("popen//nice=high//id=n1", False)):
        group = execnet.Group()
        import atexit

        atexit.unregister(group._cleanup_atexit)
        try:
            group.makegateway("popen//id=taken")
            before = procs.descendants(os.getpid())
            try:
                group.makegateway(spec)
                r = "ok"
            except BaseException as e:  # noqa: BLE001
                r = type(e).__name__
            time.sleep(0.3)
            new = procs.descendants(os.getpid()) - before
            leaked_now = bool(new) if r != "ok" else False
        finally:
            group.terminate(timeout=1)
        gone = procs.wait_gone(new, 1.5) if r != "ok" else {}
        leaked_after = any(ms == -1 for ms in gone.values())
        procs.reap([p for p, ms in gone.items() if ms == -1])
        res.append({"k": "mkfail", "leaked": (leaked_now if immediate else False) or leaked_after, "res": r, "spec": spec})
    return res


def run(ctx):
    rng = random.Random(ctx.seed + 5)
    r = tlc.run("Termination", "TM.cfg", scratch=ctx.scratch, timeout=600)
    if not r.ok:
        ctx.machinery(f"TLC Termination/TM: {r.violated} {r.error[:500]}")
    m = tlc.run("Termination", "TM_nokill.cfg", scratch=ctx.scratch, timeout=600, parse_trace=False)
    if not m.violated or m.violated == "error":
        ctx.machinery("TLC mutant TM_nokill not killed")
    ctx.note(f"TLC Termination/TM: {r.generated} states; mutant TM_nokill (terminate never kills) killed by {m.violated}")
    # the rounds of terminate(): who is told to exit when, who is waited for through whom (gateways behind via=, gateways exit()ed before)
    for cfg in ("TR", "TR_chain"):
        t = tlc.run("MCTerminateRounds", cfg + ".cfg", scratch=ctx.scratch, timeout=300, parse_trace=False)
        if not t.ok:
            ctx.machinery(f"TLC MCTerminateRounds/{cfg}: {t.violated} {t.error[:300]}")
    for cfg, want in (("TR_unfixed", "NeverThroughAClosedMaster"), ("TR_noprotect", "SkippedOnlyWhenTheUserExitedTheMaster"), ("TR_whileself", "Terminates")):
        t = tlc.run("MCTerminateRounds", cfg + ".cfg", scratch=ctx.scratch, timeout=300, parse_trace=False)
        if not t.violated or t.violated == "error":
            ctx.machinery(f"TLC mutant MCTerminateRounds/{cfg} not killed (expected {want})")
    ctx.note("TLC TerminateRounds: no wait through a closed forwarding gateway, only gateways whose master the user exited are skipped, pending "
             "gateways are joined also with an empty group; the three pre-fix designs are rejected")
    lt = tlc.run("Termination", "TM_linger_term.cfg", scratch=ctx.scratch, timeout=600, parse_trace=False)
    if not lt.ok:
        ctx.machinery(f"TLC Termination/TM_linger_term: {lt.violated} {lt.error[:300]}")
    # members without a local process (socket gateways to a hand-started server): nothing to kill, but the bound holds; a safe_terminate
    # whose last wait is unbounded is rejected
    uk = tlc.run("Termination", "TM_unkillable.cfg", scratch=ctx.scratch, timeout=600, parse_trace=False)
    if not uk.ok:
        ctx.machinery(f"TLC Termination/TM_unkillable: {uk.violated} {uk.error[:300]}")
    ub = tlc.run("Termination", "TM_unbounded_wait.cfg", scratch=ctx.scratch, timeout=600, parse_trace=False)
    if ub.violated != "TerminatePrompt":
        ctx.machinery(f"TLC mutant Termination/TM_unbounded_wait not killed by TerminatePrompt ({ub.violated})")
    ctx.note(f"TLC Termination/TM_unkillable: {uk.generated} states; an unbounded final wait in safe_terminate is killed by {ub.violated}")
    envs = ["idle", "receive", "busy", "sleep", "swallow", "sigign", "thread", "nondaemon", "stopped", "dead"]
    scs = []
    for env in envs:
        scs.append({"timeout": 0.5, "gws": [{"env": env, "execmodel": "thread", "topo": "popen"}]})
    scs += [
        {"timeout": 0.3, "gws": [{"env": "busy", "execmodel": "main_thread_only", "topo": "popen"}, {"env": "receive", "execmodel": "thread", "topo": "popen"}]},
        {"timeout": 0.5, "gws": [{"env": "stopped", "execmodel": "thread", "topo": "popen"}, {"env": "idle", "execmodel": "thread", "topo": "popen"},
                                 {"env": "swallow", "execmodel": "thread", "topo": "popen"}]},
        {"timeout": 0.5, "gws": [{"env": "receive", "execmodel": "thread", "topo": "via"}]},
        {"timeout": 0.5, "gws": [{"env": "stopped", "execmodel": "thread", "topo": "via"}]},
        # the worker closes its connection but hangs in its own teardown (exit hook): only the kill ends it - also behind a forwarder,
        # whose receiver thread must not be stuck in the wait request by then
        {"timeout": 0.5, "gws": [{"env": "atexit_hang", "execmodel": "thread", "topo": "popen"}]},
        {"timeout": 0.5, "gws": [{"env": "atexit_hang", "execmodel": "thread", "topo": "via"}]},
        {"timeout": 0.5, "gws": [{"env": "nondaemon", "execmodel": "thread", "topo": "via"}]},
        {"timeout": 0.5, "gws": [{"env": "busy", "execmodel": "thread", "topo": "socket"}]},
        # a socket worker that was started by hand and does not come down: nothing to kill, terminate() must not wait for it either
        {"timeout": 0.5, "gws": [{"env": "swallow", "execmodel": "thread", "topo": "socket_standalone"}, {"env": "swallow", "execmodel": "thread", "topo": "popen"}]},
        {"timeout": 0.3, "gws": [{"env": "stopped", "execmodel": "thread", "topo": "socket_standalone"}]},
        {"timeout": 1.0, "gws": [{"env": "sleep", "execmodel": "gevent", "topo": "popen"}]},
        {"timeout": 0.2, "gws": [{"env": "sigign", "execmodel": "main_thread_only", "topo": "popen"}, {"env": "stopped", "execmodel": "thread", "topo": "popen"}]},
    ]
    if not ctx.quick:
        for _ in range(40):
            scs.append({"timeout": rng.choice([0.2, 0.5, 1.0]),
                        "gws": [{"env": rng.choice(envs), "execmodel": rng.choice(["thread", "main_thread_only", "gevent"]),
                                 "topo": rng.choice(["popen", "popen", "via", "socket", "socket_standalone"])} for _ in range(rng.randint(1, 3))]})
    results, lock = [], threading.Lock()
    # scenarios share this process as parent: run a few at a time so that child bookkeeping stays unambiguous -> sequentially
    for sc in scs:
        scenario(sc, results, lock)
    results += mkfail_cases()
    results += reuse_cases()
    results += exited_via_case()
    results += exited_before_cases()
    herr = [x for x in results if str(x.get("err", "")).startswith("harness:")]
    if herr:
        ctx.machinery(json.dumps(herr[0])[:600])
    slim = [{k: v for k, v in c.items() if k in ("k", "timeout_ms", "rounds", "n", "elapsed_ms", "group_len", "leftover", "err", "leaked", "res")} for c in results]
    verdicts = batch.judge("TermCases", slim, ctx.scratch)
    hist = {}
    nontrivial = 0
    for c, vd in zip(results, verdicts):
        hist[vd] = hist.get(vd, 0) + 1
        if c["k"] == "terminate" and any(g["env"] not in ("idle",) for g in c["sc"]["gws"]):
            nontrivial += 1
        if vd != "ok":
            ctx.violation(f"{vd}: {json.dumps(c)[:400]}", c, key=KNOWN.get(vd))
    # failed makegateway calls under concurrency: the real Group id code (allocate_id / _register / makegateway) in the group simulator
    # with line-level preemption; spec/XSpecCases.tla (Group automaton) names the calls that left a process behind
    from drivers import c20

    gcases, gmetas, gruns = [], [], 0
    for prog in c20.group_programs(random.Random(ctx.seed + 5), 0 if ctx.quick else 10):
        out = c20._group_job((prog, 300 if ctx.quick else 1500, 25 if ctx.quick else 200, ctx.seed))
        gruns += out["runs"]
        for _key, (pr, decisions, events) in out["traces"].items():
            gcases.append({"k": "group", "events": events})
            gmetas.append({"program": pr, "decisions": decisions})
    for m, vd in zip(gmetas, batch.judge("XSpecCases", gcases, ctx.scratch)):
        hist["group:" + vd] = hist.get("group:" + vd, 0) + 1
        if vd.startswith("C05."):
            ctx.violation(f"{vd}: {json.dumps(m)[:300]}", m, key={"C05.concurrent-id-collision-leaves-a-process-behind": "concurrent-id-collision"}.get(vd))
    ctx.coverage["group_id_schedules"] = {"runs": gruns, "distinct_traces": len(gcases)}
    ctx.coverage.update({
        "states": r.distinct, "transitions": r.generated, "traces_validated_against_impl": len(results),
        "evaluations": len(results), "distinct_nontrivial": nontrivial,
        "rule": "real Groups with 1-3 gateways (popen, via, socket//installvia; thread / main_thread_only / gevent) whose workers are idle, blocked in "
                "receive, busy, sleeping, swallowing KeyboardInterrupt, ignoring SIGINT, running extra threads, SIGSTOPped or already SIGKILLed; "
                "terminate(timeout in {0.2, 0.3, 0.5, 1.0}); observed: elapsed time, len(group), surviving children of this process (via /proc); "
                "failing makegateway calls (id taken, bad interpreter, duplicate key, refused socket, unknown via) checked for leaked children; "
                "verdict by TLC (spec/TermCases.tla: elapsed <= rounds * 2 * timeout + 3 s); non-trivial = some worker not idle",
        "samples": [{k: v for k, v in results[0].items() if k != "sc"}, results[0]["sc"]], "verdict_histogram": hist,
        "elapsed_ms": [(c["elapsed_ms"], c["timeout_ms"], [g["env"] + "/" + g["topo"] for g in c["sc"]["gws"]]) for c in results if c["k"] == "terminate"],
    })
    ctx.assumptions += ["wall-clock bound: rounds * 2 * timeout + 3 s slack (rounds = 2 when a via/installvia master has to be terminated after its dependants)",
                        "all descendants of the checking process that appeared during the scenario, plus the pids the workers reported, are watched in /proc"]
    return "model_checking"
