"""Shared driver code for the channel-protocol properties (C02 C03 C04 C07 C10 C18):
run program families on the simulated gateway pair, have TLC judge every distinct trace."""

from __future__ import annotations

import json

from mbt import batch, tlc
from sim import gwrun


def jobs_for(programs, nrand, npct, seed, opts_list):
    jobs = []
    for pi, prog in enumerate(programs):
        for oi, opts in enumerate(opts_list):
            jobs.append((prog, ("first",), opts))
            for k in range(nrand):
                jobs.append((prog, ("random", seed * 100003 + pi * 1009 + oi * 101 + k), opts))
            for k in range(npct):
                jobs.append((prog, ("pct", seed * 7919 + pi * 997 + oi * 89 + k, 3, 150), opts))
    return jobs


def run_and_judge(ctx, jobs, own_prefixes, nontrivial_fn, known_key_fn=None, searches=()):
    results = gwrun.run_many(jobs)
    nsearch_runs = nsearch_done = 0
    for out in gwrun.run_searches(list(searches)):
        results += out["results"]
        nsearch_runs += out["runs"]
        nsearch_done += int(out["exhaustive"])
    distinct = gwrun.dedupe(results)
    hangs = [r for r in distinct if "harness_hang" in r]
    distinct = [r for r in distinct if "harness_hang" not in r]
    if hangs:
        # the baton scheduler lost the baton (a defect of the harness, seen about once in 10^5 runs): the run is discarded, never judged
        ctx.note(f"{len(hangs)} simulated run(s) discarded after making no progress for minutes of wall-clock time (harness): "
                 f"{json.dumps(hangs[0]['program'])[:200]} {hangs[0]['chooser']}")
        if len(hangs) > max(3, len(results) // 2000):
            ctx.machinery(f"{len(hangs)} simulated runs hung")
    herr = [r for r in distinct if "harness_error" in r]
    if herr:
        ctx.machinery("simulation harness failed:\n" + herr[0]["harness_error"][-1500:])
    budget = [r for r in distinct if r["outcome"] == "budget"]
    distinct = [r for r in distinct if r["outcome"] not in ("budget", "nocut")]
    verdicts = batch.judge("GwCases", [{"events": r["events"]} for r in distinct], ctx.scratch)
    hist, nontrivial, others = {}, 0, 0
    for r, vd in zip(distinct, verdicts):
        hist[vd] = hist.get(vd, 0) + 1
        if nontrivial_fn(r["events"]):
            nontrivial += 1
        if vd == "ok":
            continue
        if vd.startswith("TRACE."):
            ctx.machinery(f"trace vocabulary mismatch: {vd}")
        if not vd.startswith(tuple(own_prefixes) + ("GEN.",)):
            others += 1
            continue
        key = known_key_fn(r, vd) if known_key_fn else None
        ctx.violation(f"{vd}: program={json.dumps(r['program'])[:300]} chooser={r['chooser']} opts={r['opts']}",
                      {"program": r["program"], "chooser": r["chooser"], "opts": r["opts"], "decisions": r["decisions"],
                       "verdict": vd, "events": r["events"]}, key=key)
    return {"runs": len(jobs) + nsearch_runs, "bounded_search_runs": nsearch_runs, "bounded_searches_finished": nsearch_done,
            "bounded_searches": len(list(searches)), "distinct": len(distinct), "nontrivial": nontrivial, "hist": hist,
            "other_property_rejections": others, "budget_exhausted_runs": len(budget), "harness_hangs_discarded": len(hangs),
            "sample": {"program": distinct[0]["program"], "events": distinct[0]["events"][:16]} if distinct else None}


# which design of spec/ChanLife.tla the tree under test implements ("1": a sendonly channel announces its close)
CHANLIFE_FIXED = "1"


def chanlife_part(ctx, own_prefixes, depth, known_key_fn=None):
    """spec -> code: every maximal sequential behaviour of spec/ChanLife.tla with <= depth operations (enumerated by TLC) is replayed on
    the real gateway pair in the simulator; the abstract state of both ends is projected after every operation and TLC compares it with
    the model's state (spec/ChanLifeCases.tla)."""
    from mbt import batch, tlc

    for cfg, must_hold in (("CL" if ctx.quick else "CL_big", True), ("CL_unfixed", False)):
        r = tlc.run("MCChanLife", cfg + ".cfg", scratch=ctx.scratch, timeout=900, parse_trace=False)
        if must_hold and not r.ok:
            ctx.machinery(f"TLC MCChanLife/{cfg}: {r.violated} {r.error[:400]}")
        if not must_hold and (not r.violated or r.violated == "error"):
            ctx.machinery("TLC: the design without the close announcement from the sendonly state is not rejected (ChanLife vacuous)")
        if must_hold:
            ctx.note(f"TLC ChanLife: {r.distinct} states: no table entry left, endmarker exactly once, nothing after it")
            states = r.distinct
    r = tlc.run("ChanLifeCases", "Batch.cfg", scratch=ctx.scratch, env={"WHAT": "enum", "DEPTH": str(depth), "FIXED": CHANLIFE_FIXED}, workers=1, timeout=1800)
    vals = tlc.printed_values(r.out, "words")
    if not vals or not vals[0]:
        ctx.machinery("ChanLifeCases enumerated no operation sequences:\n" + r.out[-1500:])
    words = sorted(vals[0], key=lambda w: (len(w), repr(w)))
    allw = set(words)
    prefixes = {w[:i] for w in allw for i in range(len(w))}
    maximal = [w for w in words if w and w not in prefixes]
    res = gwrun.run_chanlife([[list(o) for o in w] for w in maximal])
    nhang = sum(1 for x in res if "harness_hang" in x)
    if nhang > 3:
        ctx.machinery(f"{nhang} ChanLife replays hung")
    res = [x for x in res if "harness_hang" not in x]
    for x in res:
        if "harness_error" in x or x.get("error") or len(x.get("obs", [])) != len(x["ops"]):
            ctx.machinery(f"ChanLife replay failed on {x['ops']}: {x.get('harness_error') or x.get('error') or x.get('outcome')}")
    verdicts = batch.judge("ChanLifeCases", [{"ops": x["ops"], "obs": x["obs"]} for x in res], ctx.scratch, extra_env={"WHAT": "judge", "DEPTH": "0", "FIXED": CHANLIFE_FIXED})
    hist = {}
    for x, vd in zip(res, verdicts):
        hist[vd] = hist.get(vd, 0) + 1
        if vd == "ok":
            continue
        if vd.startswith("MODEL."):
            ctx.machinery(f"ChanLife replay: {vd} on {x['ops']}")
        if not any(vd.startswith(p) for p in own_prefixes):
            continue
        ctx.violation(f"{vd}: operations {x['ops']} (each followed by quiescence); observed {json.dumps(x['obs'])[:500]}", x,
                      key=known_key_fn(x, vd) if known_key_fn else None)
    return {"model_states": states, "sequences_enumerated": len(words), "maximal_sequences_replayed": len(maximal), "depth": depth,
            "steps_compared": sum(len(x["ops"]) for x in res), "verdict_histogram": hist}


def multi_part(ctx, own_prefixes):
    """Group.remote_exec + MultiChannel (send_each / receive_each / waitclose) on real popen gateways, judged by spec/MultiCases.tla"""
    from real import multi_real

    outs = [multi_real.run(3)] + ([] if ctx.quick else [multi_real.run(5), multi_real.run(2)])
    fields = ("n", "err", "len", "members_match", "each", "pairs_ok", "single", "closed", "send_each_closed", "ids", "waitclose", "all_closed_at_raise", "waitclose_again")
    dflt = {"n": 0, "err": "", "len": -1, "members_match": False, "each": [], "pairs_ok": False, "single": [], "closed": False, "send_each_closed": "", "ids": [],
            "waitclose": "", "all_closed_at_raise": False, "waitclose_again": ""}
    verdicts = batch.judge("MultiCases", [{k: o.get(k, dflt[k]) for k in fields} for o in outs], ctx.scratch)
    hist = {}
    for o, vd in zip(outs, verdicts):
        hist[vd] = hist.get(vd, 0) + 1
        if vd != "ok" and vd.startswith(tuple(own_prefixes)):
            ctx.violation(f"{vd}: {json.dumps(o)[:400]}", o)
    # the waitclose / send_each loops as a model (spec/MultiChan.tla) and its behaviours replayed on a real group
    from real import multiwords_real

    mc = tlc.run("MultiChan", "MC.cfg", scratch=ctx.scratch, timeout=300, parse_trace=False)
    if not mc.ok:
        ctx.machinery(f"TLC MultiChan: {mc.violated} {mc.error[:300]}")
    for cfg, want in (("MC_stopatfirst", "AllClosedWhenOver"), ("MC_rawsend", "NoFrameAfterClose")):
        m = tlc.run("MultiChan", cfg + ".cfg", scratch=ctx.scratch, timeout=300, parse_trace=False)
        if m.violated != want:
            ctx.machinery(f"TLC mutant MultiChan/{cfg} not killed by {want} ({m.violated})")
    words = multiwords_real.run_words(multiwords_real.words())
    wv = batch.judge("MultiChanCases", words, ctx.scratch)
    whist = {}
    for o, vd in zip(words, wv):
        whist[vd] = whist.get(vd, 0) + 1
        if vd.startswith("HARNESS"):
            ctx.machinery(f"{vd}: {json.dumps(o)[:300]}")
        if vd != "ok" and vd.startswith(tuple(own_prefixes)):
            ctx.violation(f"{vd}: {json.dumps(o)[:400]}", o)
    return {"cases": len(outs), "verdict_histogram": hist, "multichan_states": mc.distinct, "multichan_words_replayed": len(words), "multichan_verdicts": whist}


def chanfile_delivery_part(ctx, rng, own_prefixes):
    """C02 / C03 through makefile("r") on a real popen gateway: remote code sends text items and ends; the file is read with generated
    read(n)/readline() calls until it is exhausted; judged by spec/ChanFileDeliveryCases.tla against the reference file of spec/ChanFile.tla"""
    import execnet

    gw = execnet.makegateway("popen")
    cases = []
    try:
        for i in range(16 if ctx.quick else 200):
            items = ["".join(rng.choice("ab\n") for _ in range(rng.randint(0, 5))) for _ in range(rng.randint(1, 5))]
            ch = gw.remote_exec("for x in channel.receive(): channel.send(x)")
            ch.send(items)
            f = ch.makefile("r", proxyclose=bool(i % 2))
            ops = [rng.choice([("read", rng.randint(1, 7)), ("readline",)]) for _ in range(rng.randint(0, 4))] + [("read", 4)] * 8 + [("read", 100), ("readline",)]
            res, exc = [], ""
            for op in ops:
                try:
                    out = f.read(op[1]) if op[0] == "read" else f.readline()
                    res.append([ord(x) for x in out])
                except Exception as e:  # noqa: BLE001
                    exc = type(e).__name__
                    break
            cases.append({"items": [[ord(x) for x in it] for it in items], "ops": [list(o) for o in ops], "results": res, "exc": exc})
    finally:
        gw.exit()
        execnet.default_group.terminate(timeout=3)
    verdicts = batch.judge("ChanFileDeliveryCases", cases, ctx.scratch)
    hist = {}
    for c, vd in zip(cases, verdicts):
        hist[vd] = hist.get(vd, 0) + 1
        if vd != "ok" and vd.startswith(tuple(own_prefixes)):
            ctx.violation(f"{vd}: {json.dumps(c)[:400]}", c)
    return {"cases": len(cases), "verdict_histogram": hist}


def closed_receive_part(ctx):
    """C03 on a real gateway: plain and timed receive() calls from two threads on a channel the peer has closed (spec/ClosedReceiveCases.tla)"""
    from real import closedrecv_real

    outs = [closedrecv_real.run(4000 if ctx.quick else 40000)]
    verdicts = batch.judge("ClosedReceiveCases", outs, ctx.scratch)
    for o, vd in zip(outs, verdicts):
        if vd.startswith("HARNESS"):
            ctx.machinery(f"{vd}: {json.dumps(o)[:300]}")
        elif vd != "ok":
            ctx.violation(f"{vd}: {json.dumps(o)[:300]}", o)
    return {"cases": len(outs), "calls": outs[0]["eof"] + outs[0]["plain_eof"], "verdicts": list(verdicts)}


def cbend_part(ctx):
    """C07 on real popen / socket / via gateways: callbacks that raise when they are handed their endmarker, on either side; judged by
    spec/CbEndCases.tla (no other channel disturbed, the connection stays up)"""
    from real import cbend_real

    outs = [cbend_real.run(k) for k in (("popen",) if ctx.quick else ("popen", "socket", "via"))]
    verdicts = batch.judge("CbEndCases", outs, ctx.scratch)
    hist = {}
    for o, vd in zip(outs, verdicts):
        hist[vd] = hist.get(vd, 0) + 1
        if vd.startswith("HARNESS"):
            ctx.machinery(f"{vd}: {json.dumps(o)[:300]}")
        elif vd != "ok":
            ctx.violation(f"{vd}: {json.dumps(o)[:400]}", o)
    return {"cases": len(outs), "verdict_histogram": hist}


def chanfile_error_part(ctx, rng):
    """C07 through makefile("r") on a real popen gateway: remote code sends text items and then raises; the file is read in pieces,
    then waitclose() and receive() are called on the channel; TLC requires exactly one RemoteError among all these calls"""
    import execnet

    gw = execnet.makegateway("popen")
    cases = []
    try:
        for i in range(12 if ctx.quick else 120):
            items = ["".join(rng.choice("ab\n") for _ in range(rng.randint(1, 4))) for _ in range(rng.randint(1, 4))]
            ch = gw.remote_exec("for x in channel.receive(): channel.send(x)\nraise ValueError('boom')")
            ch.send(items)
            f = ch.makefile("r")
            outs = []
            calls = [("read", rng.randint(1, 4)) for _ in range(rng.randint(1, 5))] + [("read", 50), ("readline",), ("read", 50), ("read", 50), ("waitclose",), ("receive",)]
            for c in calls:
                try:
                    if c[0] == "read":
                        outs.append(["data", [ord(x) for x in f.read(c[1])]])
                    elif c[0] == "readline":
                        outs.append(["data", [ord(x) for x in f.readline()]])
                    elif c[0] == "waitclose":
                        ch.waitclose(10)
                        outs.append(["ok", []])
                    else:
                        ch.receive(10)
                        outs.append(["item", []])
                except ch.RemoteError:
                    outs.append(["RemoteError", []])
                except EOFError:
                    outs.append(["EOFError", []])
                except Exception as e:  # noqa: BLE001
                    outs.append([type(e).__name__, []])
            cases.append({"sent": [ord(x) for x in "".join(items)], "outcomes": outs, "calls": [list(c) for c in calls]})
    finally:
        gw.exit()
        execnet.default_group.terminate(timeout=3)
    verdicts = batch.judge("ChanFileErrCases", [{"sent": c["sent"], "outcomes": c["outcomes"]} for c in cases], ctx.scratch)
    hist = {}
    for c, vd in zip(cases, verdicts):
        hist[vd] = hist.get(vd, 0) + 1
        if vd != "ok":
            ctx.violation(f"{vd}: {json.dumps(c)[:400]}", c)
    return {"cases": len(cases), "verdict_histogram": hist}


def chanids_inductive(ctx):
    """unbounded safety of id allocation: Apalache discharges the inductive invariant of spec/apalache/ChanIdsInd.tla
    (Init => IndInv; IndInv /\\ Next => IndInv'; IdsDistinct and Parity are conjuncts), with a non-vacuity probe"""
    from mbt import apalache

    if not apalache.available():
        ctx.note("apalache-mc not on PATH: inductive invariant of ChanIdsInd not checked")
        return {"checked": False}
    res = {"init_implies_inv": apalache.check("ChanIdsInd", "Init", "IndInv", 0, ctx.scratch),
           "inv_is_inductive": apalache.check("ChanIdsInd", "IndInit", "IndInv", 1, ctx.scratch),
           "probe_from_arbitrary_state": apalache.check("ChanIdsInd", "IndInit", "Probe", 0, ctx.scratch)}
    if any(v.startswith("error") for v in res.values()):
        ctx.note(f"Apalache could not be run to completion: {res}")
        return {"checked": False, **res}
    if res["init_implies_inv"] != "ok" or res["inv_is_inductive"] != "ok":
        ctx.machinery(f"Apalache: the invariant of spec/apalache/ChanIdsInd.tla is not inductive: {res}")
    if res["probe_from_arbitrary_state"] != "violated":
        ctx.machinery("Apalache: IndInit of ChanIdsInd admits no interesting state (vacuous induction step)")
    ctx.note("Apalache: IndInv of ChanIdsInd is inductive (any number of channels per thread): ids pairwise distinct, parity by side")
    return {"checked": True, **res, "caveat": "the arbitrary state of the induction step holds at most 6 handed-out ids (Gen(6))"}


def has(evs, **kw):
    return any(all(e.get(k) == v for k, v in kw.items()) for e in evs)


ASSUMPTIONS = [
    "simulated Lock/Event/Queue/pipe semantics (sim/prims.py, sim/pipes.py); one write() call is atomic on a pipe, sendall() on a socket is a loop of partial sends",
    "preemption at synchronisation / IO operations (before and after) and at source lines of the listed functions only",
    "delivery order is linearised at the dequeue from the channel's item queue (observed at the execmodel.queue seam)",
    "timed waits expire only at quiescence (virtual time)",
]
