"""Shared driver code for the channel-protocol properties (C02 C03 C04 C07 C10 C18):
run program families on the simulated gateway pair, have TLC judge every distinct trace."""

from __future__ import annotations

import json

from mbt import batch
from sim import gwrun


def jobs_for(programs, nrand, npct, seed, opts_list):
    jobs = []
    for pi, prog in enumerate(programs):
        for oi, opts in enumerate(opts_list):
            jobs.append((prog, ("first",), opts))
            for k in range(nrand):
                jobs.append((prog, ("random", seed * 100003 + pi * 1009 + oi * 101 + k), opts))
            for k in range(npct):
                jobs.append((prog, ("pct", seed * 7919 + pi * 997 + oi * 89 + k, 3, 150), opts))
    return jobs


def run_and_judge(ctx, jobs, own_prefixes, nontrivial_fn, known_key_fn=None, searches=()):
    results = gwrun.run_many(jobs)
    nsearch_runs = nsearch_done = 0
    for out in gwrun.run_searches(list(searches)):
        results += out["results"]
        nsearch_runs += out["runs"]
        nsearch_done += int(out["exhaustive"])
    distinct = gwrun.dedupe(results)
    herr = [r for r in distinct if "harness_error" in r]
    if herr:
        ctx.machinery("simulation harness failed:\n" + herr[0]["harness_error"][-1500:])
    budget = [r for r in distinct if r["outcome"] == "budget"]
    distinct = [r for r in distinct if r["outcome"] not in ("budget", "nocut")]
    verdicts = batch.judge("GwCases", [{"events": r["events"]} for r in distinct], ctx.scratch)
    hist, nontrivial, others = {}, 0, 0
    for r, vd in zip(distinct, verdicts):
        hist[vd] = hist.get(vd, 0) + 1
        if nontrivial_fn(r["events"]):
            nontrivial += 1
        if vd == "ok":
            continue
        if vd.startswith("TRACE."):
            ctx.machinery(f"trace vocabulary mismatch: {vd}")
        if not vd.startswith(tuple(own_prefixes) + ("GEN.",)):
            others += 1
            continue
        key = known_key_fn(r, vd) if known_key_fn else None
        ctx.violation(f"{vd}: program={json.dumps(r['program'])[:300]} chooser={r['chooser']} opts={r['opts']}",
                      {"program": r["program"], "chooser": r["chooser"], "opts": r["opts"], "decisions": r["decisions"],
                       "verdict": vd, "events": r["events"]}, key=key)
    return {"runs": len(jobs) + nsearch_runs, "bounded_search_runs": nsearch_runs, "bounded_searches_finished": nsearch_done,
            "bounded_searches": len(list(searches)), "distinct": len(distinct), "nontrivial": nontrivial, "hist": hist,
            "other_property_rejections": others, "budget_exhausted_runs": len(budget),
            "sample": {"program": distinct[0]["program"], "events": distinct[0]["events"][:16]} if distinct else None}


def has(evs, **kw):
    return any(all(e.get(k) == v for k, v in kw.items()) for e in evs)


ASSUMPTIONS = [
    "simulated Lock/Event/Queue/pipe semantics (sim/prims.py, sim/pipes.py); one write() call is atomic on a pipe, sendall() on a socket is a loop of partial sends",
    "preemption at synchronisation / IO operations (before and after) and at source lines of the listed functions only",
    "delivery order is linearised at the dequeue from the channel's item queue (observed at the execmodel.queue seam)",
    "timed waits expire only at quiescence (virtual time)",
]
