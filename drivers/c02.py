"""C02 -- channels deliver each item exactly once, in order, to the right channel"""

from __future__ import annotations

import random

from drivers import gwcommon as gc
from drivers import gwmodel, gwprograms
from sim import gwrun

LINE_FUNCS = ["send", "_send", "to_io", "_local_receive", "receive", "setcallback", "new", "from_io"]


def run(ctx):
    rng = random.Random(ctx.seed + 2)
    mc = gwmodel.check(ctx, ["GW_data", "GW_cb"] if ctx.quick else ["GW_data", "GW_cb", "GW_cb_recv", "GW_data_big"], mutants=[])
    progs = gwprograms.c02_programs(rng, 10 if ctx.quick else 80)
    opts = [{"post_yields": True}, {"post_yields": True, "chunking": "random"}, {"post_yields": False},
            {"post_yields": True, "line_level": LINE_FUNCS}]
    # the whole family once more on a gateway whose string coercion was reconfigured (nothing about channels, closes, errors or
    # remote_exec may depend on the coercion switches)
    opts.append({"post_yields": True, "reconfigure": (False, True)})
    # the real SocketIO over the scripted socket (partial sends, chunked receives)
    opts.append({"post_yields": True, "transport": "socket", "chunking": "random"})
    if not ctx.quick:
        opts.append({"post_yields": False, "transport": "socket"})
        opts.append({"post_yields": False, "reconfigure": (True, True)})
    jobs = gc.jobs_for(progs, 24 if ctx.quick else 120, 10 if ctx.quick else 40, ctx.seed, opts)
    # preemption-bounded systematic search (every schedule with <= 1 preemption, yields before and after each operation)
    searches = [(p, 1, 250 if ctx.quick else 6000, {"post_yields": True}) for p in progs[: 6 if ctx.quick else 14]]
    multi = gc.multi_part(ctx, ["C02.", "C03."])
    cfd = gc.chanfile_delivery_part(ctx, rng, ["C02.", "C03."])
    res = gc.run_and_judge(ctx, jobs, ["C02.", "C10.callback-item", "C10.callback-missed", "C10.endmarker-before-last-item", "C08.", "C18.channel-id-handed-out-twice"], lambda evs: sum(1 for e in evs if e["ev"] in ("deq", "cb")) >= 3, None, searches=searches)
    gwrun.close_pool()
    ctx.coverage.update({
        "states": mc["states"], "transitions": mc["transitions"],
        "traces_validated_against_impl": res["distinct"], "evaluations": res["runs"], "distinct_nontrivial": res["nontrivial"],
        "rule": "generated channel programs (1-3 channels, both directions, 1-2 receiver threads or a callback per channel, two sender threads on one channel, channels passed over channels); run on the real Gateway + WorkerGateway pair over real Popen2IO/SocketIO with scripted pipes under seeded random / PCT / "
                "non-preemptive schedules and a preemption-bounded systematic search (<= 1 preemption) for the first programs, yielding before and after every synchronisation and IO operation and, in a quarter of the runs, before "
                "every source line of " + ", ".join(LINE_FUNCS) + "; distinct by event trace; non-trivial = at least 3 items delivered",
        "samples": [res["sample"]], "programs": len(progs), "verdict_histogram": res["hist"],
        "other_property_rejections": res["other_property_rejections"], "tlc": mc["detail"],
        "bounded_search": {"programs": res["bounded_searches"], "runs": res["bounded_search_runs"], "finished_exhaustively": res["bounded_searches_finished"]},
    })
    ctx.coverage["multichannel_real"] = multi
    ctx.coverage["channel_file_delivery"] = cfd
    ctx.assumptions += gc.ASSUMPTIONS
    return "model_checking"
