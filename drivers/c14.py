"""C14 -- main_thread_only executes in the main thread and never cries deadlock falsely."""

from __future__ import annotations

import itertools
import json
import random

from drivers import gwcommon as gc
from mbt import batch, tlc
from sim import gwrun

CODE = {"ret": 1, "raise": 2, "sysexit": 3, "block": 4, "kbdint": 5}
LINE = ["_local_schedulexec", "executetask", "_executetask", "_try_send_to_primary_thread", "integrate_as_primary_thread", "spawn", "_perform_spawn"]


def history_program(outcomes):
    """outcomes: list of 'ret'|'raise'|'sysexit'|'block'; a blocking body is followed by an overlapping submission"""
    ops, bodies = [], {}
    pending_block = None
    for k, oc in enumerate(outcomes, start=1):
        c = f"c{k}"
        ops.append(("remote_exec", c, k, CODE[oc]))
        if oc == "ret":
            bodies[k] = [("send", "channel", 200 + k)]
        elif oc == "raise":
            bodies[k] = [("raise",)]
        elif oc == "sysexit":
            bodies[k] = [("sysexit",)]
        elif oc == "kbdint":
            bodies[k] = [("kbdint",)]
        else:
            bodies[k] = [("send", "channel", 200 + k), ("wait_gate", f"ans{k + 1}")]
            pending_block = k
            continue
        ops.append(("waitclose", c))
        if pending_block is not None:
            ops.append(("open_gate", f"ans{k}"))
            ops.append(("waitclose", f"c{pending_block}"))
            pending_block = None
    if pending_block is not None:  # a blocking body at the very end: release it
        ops.append(("open_gate", f"ans{pending_block + 1}"))
        ops.append(("waitclose", f"c{pending_block}"))
    return {"threads": [{"name": "u1", "side": "i", "ops": ops}], "bodies": {str(k): v for k, v in bodies.items()}}


def histories(maxlen):
    out = []
    for n in range(1, maxlen + 1):
        for h in itertools.product(["ret", "raise", "sysexit", "kbdint", "block"], repeat=n):
            if any(h[i] == "block" and (i + 1 < n and h[i + 1] == "block") for i in range(n)):
                continue
            out.append(list(h))
    return out


def real_histories(ctx):
    """the same protocol on a real popen//execmodel=main_thread_only worker (real 1 s time-out)"""
    import execnet

    cases = []
    hs = [["ret", "raise", "ret", "sysexit", "ret", "kbdint", "ret"], ["block", "ret", "ret"], ["raise", "block", "kbdint", "ret"]]
    if not ctx.quick:
        hs += [["sysexit", "sysexit", "ret"], ["ret", "block", "sysexit", "block", "ret"], ["raise"] * 4 + ["ret"]]
    def by_spec():
        return execnet.makegateway("popen//execmodel=main_thread_only"), None

    def by_group_default():
        # the execmodel comes from the group (Group.set_execmodel), not from the spec
        g = execnet.Group()
        g.set_execmodel("main_thread_only")
        return g.makegateway("popen"), g

    def by_group_remote_default():
        # only the REMOTE default is main_thread_only (the initiator keeps threads)
        g = execnet.Group()
        g.set_execmodel("thread", "main_thread_only")
        return g.makegateway("popen"), g

    def by_socket_host():
        # a socket worker hosted by a main_thread_only gateway runs that gateway's model: its bodies own the host's main thread
        g = execnet.Group()
        g.makegateway("popen//execmodel=main_thread_only//id=host")
        return g.makegateway("socket//installvia=host"), g

    plan = [(h, by_spec) for h in hs] + [(hs[0], by_group_default), (hs[1], by_group_default), (hs[1], by_group_remote_default), (hs[0][:3], by_socket_host)]
    for h, make in plan:
        gw, own_group = make()
        evs = []

        def ev(e, op="", chan=0, tok=0, res="", flag=False):
            evs.append({"ev": e, "side": "i", "op": op, "chan": chan, "tok": tok, "res": res, "thread": "u1", "flag": flag})

        def wait(ch, started):
            try:
                for item in ch:
                    if isinstance(item, tuple) and item[0] == "start" and ch.id not in started:
                        started.add(ch.id)
                        ev("body_start", "", ch.id, flag=bool(item[1]))
                ch.waitclose(20)
                res = "ok"
            except ch.RemoteError as e:
                txt = str(e)
                res = "RemoteError:deadlock" if "would cause deadlock" in txt else ("RemoteError:boom" if "BOOM" in txt else "RemoteError")
            except Exception as e:  # noqa: BLE001
                res = "exc:" + type(e).__name__
            if ch.id in started:
                ev("body_end", "", ch.id)
            ev("ret", "waitclose", ch.id, res=res)

        try:
            started = set()
            pending = None
            for k, oc in enumerate(h, start=1):
                body = "import threading\nchannel.send(('start', threading.current_thread() is threading.main_thread()))\n"
                body += {"ret": "channel.send(1)", "raise": "raise RuntimeError('BOOM in body')", "sysexit": "raise SystemExit(3)", "kbdint": "raise KeyboardInterrupt()",
                         "block": "channel.receive()"}[oc]
                ev("call", "remote_exec", tok=CODE[oc])
                ch = gw.remote_exec(body)
                ev("ret", "remote_exec", ch.id, res="ok")
                if oc == "block":
                    try:
                        first = ch.receive(20)
                    except Exception:  # noqa: BLE001 - refused or failed: let wait() classify it
                        wait(ch, started)
                        continue
                    started.add(ch.id)
                    ev("body_start", "", ch.id, flag=bool(first[1]))
                    pending = ch
                    continue
                wait(ch, started)
                if pending is not None:
                    pending.send(None)
                    wait(pending, started)
                    pending = None
            if pending is not None:
                pending.send(None)
                wait(pending, started)
            ev("end")
        finally:
            gw.exit()
            (own_group or execnet.default_group).terminate(timeout=3)
        cases.append({"events": evs, "history": h, "made_by": make.__name__})
    cases.append(group_round_case())
    cases.append(function_close_case(ctx))
    return cases


def function_close_case(ctx):
    """a remote_exec'd FUNCTION that tries to close its own channel (directly and through a proxyclose channel file) and then keeps
    running: the refusal keeps the channel open until the body is over, so a submission made after waitclose() returned is sequential"""
    import importlib.util
    import os
    import sys

    import execnet

    path = os.path.join(ctx.scratch, "c14closer.py")
    open(path, "w").write(
        "def body(channel):\n    import threading, time\n    channel.send(('start', threading.current_thread() is threading.main_thread()))\n"
        "    for attempt in (channel.close, channel.makefile('w', proxyclose=True).close):\n        try:\n            attempt()\n        except OSError:\n            pass\n"
        "    time.sleep(1.6)\n\n"
        "def quick(channel):\n    import threading\n    channel.send(('start', threading.current_thread() is threading.main_thread()))\n    channel.send(1)\n")
    spec = importlib.util.spec_from_file_location("c14closer", path)
    mod = importlib.util.module_from_spec(spec)
    sys.modules["c14closer"] = mod
    spec.loader.exec_module(mod)
    gw = execnet.makegateway("popen//execmodel=main_thread_only")
    evs = []

    def ev(e, op="", chan=0, tok=0, res="", flag=False):
        evs.append({"ev": e, "side": "i", "op": op, "chan": chan, "tok": tok, "res": res, "thread": "u1", "flag": flag})

    try:
        for fn in (mod.body, mod.quick):
            ev("call", "remote_exec", tok=1)
            ch = gw.remote_exec(fn)
            ev("ret", "remote_exec", ch.id, res="ok")
            started = False
            try:
                for item in ch:
                    if isinstance(item, tuple) and item[0] == "start" and not started:
                        started = True
                        ev("body_start", "", ch.id, flag=bool(item[1]))
                ch.waitclose(20)
                res = "ok"
            except ch.RemoteError as e:
                res = "RemoteError:deadlock" if "would cause deadlock" in str(e) else "RemoteError"
            except Exception as e:  # noqa: BLE001
                res = "exc:" + type(e).__name__
            if started:
                ev("body_end", "", ch.id)
            ev("ret", "waitclose", ch.id, res=res)
        ev("end")
    finally:
        gw.exit()
        execnet.default_group.terminate(timeout=3)
    return {"events": evs, "history": ["function that tries to close its own channel and keeps running", "ret"], "made_by": "function_close_case"}


def group_round_case():
    """two main_thread_only members driven through Group.remote_exec / MultiChannel.waitclose(): the round ends (for the caller) when
    MultiChannel.waitclose() is over - also when it raises the failure of the first member - and the next round is then a sequential
    submission for every member: it must run.  Events are those of the second member."""
    import execnet

    g = execnet.Group()
    g.set_execmodel("thread", "main_thread_only")
    evs = []

    def ev(e, op="", chan=0, tok=0, res="", flag=False):
        evs.append({"ev": e, "side": "i", "op": op, "chan": chan, "tok": tok, "res": res, "thread": "u1", "flag": flag})

    try:
        g.makegateway("popen//id=a")
        g.makegateway("popen//id=b")
        start = "import threading, time\nchannel.send(('start', threading.current_thread() is threading.main_thread()))\n"
        ev("call", "remote_exec", tok=1)
        mch = g.remote_exec(start + "if channel.gateway.id == 'a-worker':\n    raise RuntimeError('BOOM in body')\ntime.sleep(1.8)\nchannel.send(1)")
        ch = mch[1]
        ev("ret", "remote_exec", ch.id, res="ok")
        first = ch.receive(20)
        ev("body_start", "", ch.id, flag=bool(first[1]))
        res = "ok"
        try:
            mch.waitclose()
        except ch.RemoteError:
            pass
        except Exception as e:  # noqa: BLE001
            res = "exc:" + type(e).__name__
        ev("body_end", "", ch.id)
        ev("ret", "waitclose", ch.id, res=res)
        ev("call", "remote_exec", tok=1)
        mch2 = g.remote_exec(start + "channel.send(1)")
        ch2 = mch2[1]
        ev("ret", "remote_exec", ch2.id, res="ok")
        try:
            for item in ch2:
                if isinstance(item, tuple) and item[0] == "start":
                    ev("body_start", "", ch2.id, flag=bool(item[1]))
            ch2.waitclose(20)
            res = "ok"
        except ch2.RemoteError as e:
            res = "RemoteError:deadlock" if "would cause deadlock" in str(e) else "RemoteError"
        except Exception as e:  # noqa: BLE001
            res = "exc:" + type(e).__name__
        ev("body_end", "", ch2.id)
        ev("ret", "waitclose", ch2.id, res=res)
        ev("end")
    finally:
        g.terminate(timeout=3)
    return {"events": evs, "history": ["group-round: first member raises, second still runs", "group-round"], "made_by": "group_round_case"}


def run(ctx):
    rng = random.Random(ctx.seed + 14)
    states = trans = 0
    detail = {}
    for cfg in ["ES_3"] + ([] if ctx.quick else ["ES_4"]):
        r = tlc.run("ExecSched", cfg + ".cfg", scratch=ctx.scratch, timeout=3000)
        if not r.ok:
            ctx.machinery(f"TLC ExecSched/{cfg}: {r.violated} {r.error[:600]}")
        states += r.distinct
        trans += r.generated
        detail[cfg] = {"generated": r.generated, "distinct": r.distinct, "depth": r.depth}
        ctx.note(f"TLC ExecSched/{cfg}: all histories of length {cfg[-1]}: {r.generated} states, {r.distinct} distinct, {r.wall:.1f}s")
    for cfg in ["ES_unfixed", "ES_lateclear"]:
        r = tlc.run("ExecSched", cfg + ".cfg", scratch=ctx.scratch, timeout=600)
        if not r.violated or r.violated == "error":
            ctx.machinery(f"TLC mutant ExecSched/{cfg} not killed")
        detail[cfg] = {"killed_by": r.violated}
        ctx.note(f"TLC mutant ExecSched/{cfg}: killed by {r.violated}")
    hs = histories(3 if ctx.quick else 4)
    if not ctx.quick:
        hs += [[rng.choice(["ret", "raise", "sysexit"]) for _ in range(5)] for _ in range(30)]
    progs = [history_program(h) for h in hs]
    base = {"worker_backend": "main_thread_only", "post_yields": True}
    opts = [base, dict(base, line_level=LINE), dict(base, post_yields=False)]
    jobs = gc.jobs_for(progs, 4 if ctx.quick else 40, 2 if ctx.quick else 15, ctx.seed, opts)
    results = gwrun.run_many(jobs)
    gwrun.close_pool()
    distinct = gwrun.dedupe(results)
    nhang = sum(1 for r in distinct if "harness_hang" in r)
    if nhang > 3:
        ctx.machinery(f"{nhang} simulated runs hung")
    distinct = [r for r in distinct if "harness_hang" not in r]
    herr = [r for r in distinct if "harness_error" in r]
    if herr:
        ctx.machinery(herr[0]["harness_error"][-1200:])
    distinct = [r for r in distinct if r["outcome"] != "budget"]
    reals = real_histories(ctx)
    cases = [{"events": r["events"]} for r in distinct] + [{"events": c["events"]} for c in reals]
    verdicts = batch.judge("ExecCases", cases, ctx.scratch)
    hist, nontrivial = {}, 0
    for i, vd in enumerate(verdicts):
        hist[vd] = hist.get(vd, 0) + 1
        evs = cases[i]["events"]
        if sum(1 for e in evs if e["ev"] == "body_start") >= 2 and any(e["ev"] == "call" and e["op"] == "remote_exec" and e["tok"] in (2, 3, 4) for e in evs):
            nontrivial += 1
        if vd != "ok":
            src = distinct[i] if i < len(distinct) else reals[i - len(distinct)]
            what = json.dumps(src.get("program", src.get("history")))[:300]
            ctx.violation(f"{vd}: {what} chooser={src.get('chooser')} opts={src.get('opts', 'real popen worker')}",
                          {"verdict": vd, "source": {k: src.get(k) for k in ("program", "history", "chooser", "opts", "decisions")}, "events": evs})
    ctx.coverage.update({
        "states": states, "transitions": trans, "traces_validated_against_impl": len(cases),
        "evaluations": len(results) + len(reals), "distinct_nontrivial": nontrivial,
        "rule": "all histories of remote_exec outcomes (return, raise, SystemExit, blocked-with-overlapping-successor) of length 1-3 (thorough: 1-4 plus "
                "sampled length 5) on the real WorkerGateway(main_thread_only) + initiator in the simulator under random/PCT/non-preemptive schedules "
                "with line-level preemption in the scheduling functions; plus real popen//execmodel=main_thread_only workers; non-trivial = at least two "
                "bodies ran and one of them failed or blocked",
        "samples": [{"program": distinct[0]["program"], "events": distinct[0]["events"][:12]}] if distinct else [],
        "histories": len(hs), "real_histories": [c["history"] for c in reals], "verdict_histogram": hist, "tlc": detail,
    })
    ctx.assumptions += gc.ASSUMPTIONS + ["the 1 s wait in _local_schedulexec expires only at quiescence in the simulator; the real workers use the real time-out"]
    return "model_checking"
