"""C20 -- specs parse faithfully and group ids stay unique."""

from __future__ import annotations

import itertools
import json
import random

from mbt import batch, tlc
from sim import explore
from sim.groupsim import run_group

KEYS = ["a", "b", "id", "a:b", "env:A", "env:B", "env:a", "env:id", "A", "env", "a/", "/a", "é", "a b", "env:", "popen", "ssh", "python", "x-y", "K", "env:é=", "a.b"]
VALS = [None, "", "1", "a=b", "/", "x/", "/x", " é", ":", "//", "a//b", "=", "==", "x y", "/usr/bin/python3 -u"]


def cps(s):
    return [ord(c) for c in s]


def record_xspec(kvs):
    from execnet.xspec import XSpec

    text = "//".join(k if v is None else f"{k}={v}" for k, v in kvs)
    mkvs = [[cps(k), ["true"] if v is None else ["str", cps(v)]] for k, v in kvs]
    try:
        sp = XSpec(text)
    except BaseException as e:  # noqa: BLE001
        return {"k": "xspec", "kvs": mkvs, "text": cps(text), "real": ["exc", type(e).__name__]}
    attrs = [[cps(k), ["true"] if v is True else ["str", cps(v)]] for k, v in sp.__dict__.items() if k not in ("_spec", "env")]
    env = [[cps(k), ["true"] if v is True else ["str", cps(v)]] for k, v in (sp.env.items() if isinstance(sp.env, dict) else [("<env is not a dict>", repr(sp.env))])]
    try:
        other = XSpec(text + "x//zz9")
    except Exception:  # noqa: BLE001
        other = XSpec("zz9")
    def safe(f):
        # parsing the same text a second time must work like the first time: a failure there is a result, not a harness error
        try:
            return bool(f())
        except Exception:  # noqa: BLE001
            return False

    flags = [str(sp) == text, safe(lambda: sp == XSpec(text) and not (sp != XSpec(text))), safe(lambda: hash(sp) == hash(XSpec(text))),
             safe(lambda: getattr(sp, "surely_absent_name") is None), safe(lambda: sp != other and not (sp == other))]
    # attribute access agrees with the parsed pairs
    for k, v in kvs:
        if not k.startswith("env:") and k != "env" and k and not k.startswith("_") and "=" not in k and "//" not in k:
            try:
                flags.append(getattr(sp, k) == (True if v is None else v))
            except Exception:  # noqa: BLE001
                flags.append(False)
    return {"k": "xspec", "kvs": mkvs, "text": cps(text), "real": ["ok", attrs, env, [bool(f) for f in flags]]}


def group_programs(rng, n):
    progs = [
        {"threads": [("t1", [("make", None), ("make", "gw1")]), ("t2", [("make", None), ("exit",), ("make", None)])]},
        {"threads": [("t1", [("make", None), ("make", None)]), ("t2", [("make", None), ("make", None)]), ("t3", [("make", None)])]},
        {"threads": [("t1", [("make", "x"), ("exit",), ("make", "x"), ("reexit",)]), ("t2", [("make", "y"), ("make", None)])]},
        {"threads": [("t1", [("make", "x"), ("make", "x")])]},
        {"threads": [("t1", [("make", None), ("make", "gw0")]), ("t2", [("make", "gw5"), ("exit",)])]},
        # ids reserved with allocate_id() stay reserved across a terminate() of the (then empty) group
        {"threads": [("t1", [("alloc",), ("make", None), ("terminate",), ("alloc",), ("make", None)])]},
        {"threads": [("t1", [("make", None), ("alloc",), ("exit",), ("terminate",), ("alloc",), ("make", "gw1")])]},
        # a creation that fails (the process cannot be started) next to other automatic allocations: its id stays consumed
        {"threads": [("t1", [("make_fail", None), ("make", None)]), ("t2", [("make", None)])]},
        {"threads": [("t1", [("make_fail", None)]), ("t2", [("make", None), ("make", None)]), ("t3", [("make_fail", "x"), ("make", "x")])]},
    ]
    for _ in range(n):
        th = []
        for t in range(rng.randint(1, 3)):
            ops = []
            for _j in range(rng.randint(1, 3)):
                ops.append(rng.choice([("make", None), ("make", None), ("make", rng.choice(["x", "y", "gw1", "gw2"])), ("exit",), ("make_fail", None), ("reexit",)]))
            th.append((f"t{t+1}", ops))
        progs.append({"threads": th})
    return progs


def real_group_case():
    """sequential collisions on a real Group with real popen gateways: explicit vs live, explicit vs auto-generated; leak check via children"""
    import os

    import execnet

    def children():
        out = set()
        for pid in os.listdir("/proc"):
            if pid.isdigit():
                try:
                    with open(f"/proc/{pid}/stat") as f:
                        parts = f.read().rsplit(")", 1)[1].split()
                    if int(parts[1]) == os.getpid() and parts[0] != "Z":
                        out.add(int(pid))
                except OSError:
                    pass
        return out

    group = execnet.Group()
    events = []
    base = children()

    def snap(e, op, gid, res, auto, mine):
        live = [gw.id for gw in group]
        agree = all(group[g.id] is g and g.id in group and group[i] is g for i, g in enumerate(list(group)))
        events.append({"ev": e, "op": op, "thread": "main", "id": gid or "", "res": res, "live": live, "agree": bool(agree), "started": 0, "flag": auto, "mine": mine})

    try:
        for gid in (None, "gw1", None, "gw0", "gw1", "zz", "zz", None):
            before = children()
            snap("call", "makegateway", gid, "", gid is None, False)
            try:
                gw = group.makegateway("popen" + (f"//id={gid}" if gid else ""))
                snap("ret", "makegateway", gw.id, "ok", gid is None, False)
            except BaseException as e:  # noqa: BLE001
                import time

                time.sleep(0.3)
                leaked = bool(children() - before)
                snap("ret", "makegateway", gid, type(e).__name__, gid is None, leaked)
    finally:
        group.terminate(timeout=3)
    return {"k": "group", "events": events, "real": True}


def _group_job(job):
    import sys

    sys.stderr = open("/dev/null", "w")
    prog, nbounded, nrandom, seed = job
    traces = {}
    runs = 0
    small = sum(len(o) for _, o in prog["threads"]) <= 4
    st = None
    for res, st in explore.bounded(lambda ch: run_group(prog, ch), 1 if not small else 2, nbounded):
        runs += 1
        traces.setdefault(json.dumps(res["events"]), (prog, res["decisions"], res["events"]))
    for res in explore.randoms(lambda ch: run_group(prog, ch), nrandom, seed):
        runs += 1
        traces.setdefault(json.dumps(res["events"]), (prog, res["decisions"], res["events"]))
    return {"traces": traces, "runs": runs, "exhaustive": 1 if st and st["exhaustive"] else 0}


def run(ctx):
    rng = random.Random(ctx.seed + 20)
    r = tlc.run("MCXSpec", "MCXSpec.cfg" if ctx.quick else "MCXSpecBig.cfg", scratch=ctx.scratch, timeout=3000)
    if not r.ok:
        ctx.machinery(f"TLC MCXSpec: {r.violated} {r.error[:600]}")
    ctx.note(f"TLC MCXSpec: {r.generated} key/value lists: Parse(Join(kvs)) = Expected(kvs), {r.wall:.1f}s")
    for cfg in ["GI"] + ([] if ctx.quick else ["GI_big"]):
        g = tlc.run("MCGroupIds", cfg + ".cfg", scratch=ctx.scratch, timeout=1200, parse_trace=False)
        if not g.ok:
            ctx.machinery(f"TLC MCGroupIds/{cfg}: {g.violated} {g.error[:500]}")
        ctx.note(f"TLC MCGroupIds/{cfg}: {g.generated} states: no two live gateways share an id, automatic ids unique")
    g = tlc.run("MCGroupIds", "GI_norace.cfg", scratch=ctx.scratch, timeout=600, parse_trace=False)
    if g.violated != "NoSharedId":
        ctx.machinery(f"TLC mutant MCGroupIds/GI_norace (non-atomic _register) not killed: {g.violated}")
    g = tlc.run("MCGroupIds", "GI_fail.cfg", scratch=ctx.scratch, timeout=600, parse_trace=False)
    if not g.ok:
        ctx.machinery(f"TLC MCGroupIds/GI_fail: {g.violated} {g.error[:300]}")
    g = tlc.run("MCGroupIds", "GI_exit.cfg", scratch=ctx.scratch, timeout=600, parse_trace=False)
    if not g.ok:
        ctx.machinery(f"TLC MCGroupIds/GI_exit: {g.violated} {g.error[:300]}")
    g = tlc.run("MCGroupIds", "GI_iterskip.cfg", scratch=ctx.scratch, timeout=600, parse_trace=False)
    if g.violated != "RefusedUpFront":
        ctx.machinery(f"TLC mutant MCGroupIds/GI_iterskip (lookup walks the live list while a gateway exits) not killed: {g.violated}")
    g = tlc.run("MCGroupIds", "GI_giveback.cfg", scratch=ctx.scratch, timeout=600, parse_trace=False)
    if g.violated != "AutoIdsUnique":
        ctx.machinery(f"TLC mutant MCGroupIds/GI_giveback (counter handed back when a creation fails) not killed: {g.violated}")
    cases, metas = [], []
    # enumerated: all lists of <= 2 pairs over the alphabet, sampled lists of 3
    pairs = list(itertools.product(KEYS, VALS))
    lists = [[p] for p in pairs] + [list(c) for c in itertools.product(pairs[:: 3 if ctx.quick else 1], repeat=2)]
    lists += [[rng.choice(pairs) for _ in range(3)] for _ in range(800 if ctx.quick else 8000)]
    # generated over wide alphabets
    alpha = "ab=:/ _é中-.x1"
    for _ in range(800 if ctx.quick else 8000):
        n = rng.randint(1, 5)
        lists.append([("".join(rng.choice(alpha) for _ in range(rng.randint(1, 6))),
                       rng.choice([None, "".join(rng.choice(alpha) for _ in range(rng.randint(0, 8)))])) for _ in range(n)])
    if ctx.quick:
        lists = lists[:: 2]
    for kvs in lists:
        cases.append(record_xspec(kvs))
        metas.append({"kvs": kvs})
    nx = len(cases)
    # group ids: the real Group code under the baton scheduler with line-level preemption
    gprogs = group_programs(rng, 6 if ctx.quick else 40)
    seen = set()
    nruns = 0
    exhaustive = 0
    import multiprocessing as mp

    gjobs = [(prog, 120 if ctx.quick else 1500, 25 if ctx.quick else 200, ctx.seed) for prog in gprogs]
    with mp.get_context("fork").Pool(12) as pool:
        for out in pool.imap_unordered(_group_job, gjobs, chunksize=1):
            nruns += out["runs"]
            exhaustive += out["exhaustive"]
            for key, (prog, decisions, events) in out["traces"].items():
                if key not in seen:
                    seen.add(key)
                    cases.append({"k": "group", "events": events})
                    metas.append({"program": prog, "decisions": decisions})
    rc = real_group_case()
    cases.append({"k": "group", "events": rc["events"]})
    metas.append({"real_group": True})
    verdicts = batch.judge("XSpecCases", cases, ctx.scratch)
    hist = {}
    nontrivial = 0
    for c, m, vd in zip(cases, metas, verdicts):
        hist[vd] = hist.get(vd, 0) + 1
        if c["k"] == "xspec" and len(c["kvs"]) >= 2:
            nontrivial += 1
        if c["k"] == "group" and sum(1 for e in c["events"] if e["ev"] == "ret" and e["op"] == "makegateway") >= 3:
            nontrivial += 1
        if vd == "ok":
            continue
        key = {"C20.key-named-env-rejected": "key-named-env", "C05.concurrent-id-collision-leaves-a-process-behind": "concurrent-id-collision"}.get(vd)
        if vd.startswith("C05.") and key is None:
            key = None
        ctx.violation(f"{vd}: {json.dumps(m)[:300]}", {"meta": m, "case": c, "verdict": vd}, key=key)
    ctx.coverage.update({
        "states": r.distinct, "transitions": r.generated, "traces_validated_against_impl": len(cases),
        "evaluations": nx + nruns + 1, "distinct_nontrivial": nontrivial,
        "rule": "key/value lists over an alphabet with '=', ':', '/', '//', spaces, unicode, env: prefixes and repeated keys (all lists of <= 2 pairs, sampled "
                "longer ones, generated wide-alphabet lists) parsed by the real XSpec and compared with Expected(kvs) of spec/XSpec.tla by TLC (attributes, "
                "env, str/eq/hash, absent names); the real Group.allocate_id/_register/_unregister/container protocol under the baton scheduler with "
                "line-level preemption (preemption-bounded systematic + random schedules, process creation replaced by recording fakes); sequential id "
                "collisions on a real Group with real popen gateways incl. a child-process leak check; non-trivial = >= 2 pairs / >= 3 makegateway calls",
        "samples": [cases[3], {"group_events": cases[nx]["events"][:6]}], "xspec_cases": nx, "group_traces": len(cases) - nx,
        "group_programs_explored_exhaustively": exhaustive, "verdict_histogram": hist,
    })
    ctx.assumptions += ["texts whose joined pieces are ambiguous for any parser (a piece starting or ending with '/' next to a separator) are outside the domain"]
    return "model_checking"
