"""C07 -- remote failures surface as RemoteError on that channel only"""

from __future__ import annotations

import random

from drivers import gwcommon as gc
from drivers import gwmodel, gwprograms
from sim import gwrun

LINE_FUNCS = ["_local_receive", "_local_close", "close", "waitclose", "receive", "_getremoteerror", "executetask", "_executetask"]


def run(ctx):
    rng = random.Random(ctx.seed + 7)
    mc = gwmodel.check(ctx, ["GW_err", "GW_cb_raises"] if ctx.quick else ["GW_err", "GW_cb_raises", "GW_cb_recv", "GW_data_big", "GW_all_big"], mutants=["GW_cb_raises_unguarded"])
    progs = gwprograms.c07_programs(rng, 8 if ctx.quick else 60)
    opts = [{"post_yields": True}, {"post_yields": True, "chunking": "random"}, {"post_yields": False},
            {"post_yields": True, "line_level": LINE_FUNCS}]
    # the whole family once more on a gateway whose string coercion was reconfigured (nothing about channels, closes, errors or
    # remote_exec may depend on the coercion switches)
    opts.append({"post_yields": True, "reconfigure": (False, True)})
    # the real SocketIO over the scripted socket (partial sends, chunked receives)
    opts.append({"post_yields": True, "transport": "socket", "chunking": "random"})
    if not ctx.quick:
        opts.append({"post_yields": False, "transport": "socket"})
        opts.append({"post_yields": False, "reconfigure": (True, True)})
    jobs = gc.jobs_for(progs, 24 if ctx.quick else 120, 10 if ctx.quick else 40, ctx.seed, opts)
    # preemption-bounded systematic search (every schedule with <= 1 preemption, yields before and after each operation)
    searches = [(p, 1, 250 if ctx.quick else 6000, {"post_yields": True}) for p in progs[: 6 if ctx.quick else 14]]
    cferr = gc.chanfile_error_part(ctx, rng)
    cbend = gc.cbend_part(ctx)
    multi = gc.multi_part(ctx, ["C07."])
    jobs += gc.jobs_for([p for p in progs if len(p["threads"]) == 1], 6 if ctx.quick else 40, 2, ctx.seed + 1, [{"post_yields": True, "worker_backend": "main_thread_only"}])
    res = gc.run_and_judge(ctx, jobs, ["C07.", "C14.false-deadlock", "C10.endmarker-missing"], lambda evs: any(e["ev"] == "fin" and e["op"] == "6" for e in evs), (lambda r, vd: {"C07.remote-error-swallowed-after-last-message": "error-after-last-message", "C07.callback-error-during-setcallback-drain-not-reported": "callback-raises-during-setcallback-drain"}.get(vd)), searches=searches)
    gwrun.close_pool()
    ctx.coverage.update({
        "states": mc["states"], "transitions": mc["transitions"],
        "traces_validated_against_impl": res["distinct"], "evaluations": res["runs"], "distinct_nontrivial": res["nontrivial"],
        "rule": "failures at every position of generated item streams: raising remote bodies and raising callbacks on either side, channel object alive or dropped, a sibling channel with traffic, hasreceiver() probes; run on the real Gateway + WorkerGateway pair over real Popen2IO/SocketIO with scripted pipes under seeded random / PCT / "
                "non-preemptive schedules and a preemption-bounded systematic search (<= 1 preemption) for the first programs, yielding before and after every synchronisation and IO operation and, in a quarter of the runs, before "
                "every source line of " + ", ".join(LINE_FUNCS) + "; distinct by event trace; non-trivial = a CHANNEL_CLOSE_ERROR frame was dispatched",
        "samples": [res["sample"]], "programs": len(progs), "verdict_histogram": res["hist"],
        "other_property_rejections": res["other_property_rejections"], "tlc": mc["detail"],
        "bounded_search": {"programs": res["bounded_searches"], "runs": res["bounded_search_runs"], "finished_exhaustively": res["bounded_searches_finished"]},
    })
    ctx.coverage["channel_file_errors"] = cferr
    ctx.coverage["multichannel_real"] = multi
    ctx.coverage["endmarker_callback_raises"] = cbend
    ctx.assumptions += gc.ASSUMPTIONS
    return "model_checking"
