"""Shared by C15 / C16: run the transcript programs on a matrix of gateways, in parallel worker processes."""

from __future__ import annotations

import json
import multiprocessing as mp
import os
import random
import sys

PYENV = "/root/.pyenv/versions"
ISOLATED = {v: [os.path.join(PYENV, v, "bin", "python"), "-I", "-S"] for v in ("3.10.13", "3.11.7", "3.12.1", "3.13.0")}


def _one(job):
    kind, execmodel, python, seed, big, env = job
    sys.stderr = open(os.devnull, "w")
    os.environ.update(env or {})
    import execnet

    from real import matrix

    if (env or {}).get("_DROP_PYTHONPATH"):
        # children started from here must not find execnet through the environment (the interpreter is not run with -I
        # in this job, so that PYTHONUTF8 / PYTHONCOERCECLOCALE reach it); plain popen children get the import directory explicitly
        os.environ.pop("PYTHONPATH", None)
        os.chdir("/")
    group = execnet.Group()
    try:
        gw = matrix.make_gateway(group, kind, execmodel, python)
        if kind == "popen" and (env or {}).get("_DROP_PYTHONPATH"):
            # a plain popen worker runs the initiator's copy of execnet, whatever else is installed or on the child's default path
            there = gw.remote_exec("import execnet, os\nchannel.send(os.path.realpath(os.path.dirname(execnet.__file__)))").receive(20)
            if there != os.path.realpath(os.path.dirname(execnet.__file__)):
                return {"T": [], "err": "WorkerRunsAnotherCopyOfExecnet"}
        T = matrix.run_programs(gw, random.Random(seed), big)
        return {"T": json.loads(json.dumps(T)), "err": ""}
    except BaseException as e:  # noqa: BLE001
        return {"T": [], "err": type(e).__name__}
    finally:
        try:
            group.terminate(timeout=2)
        except Exception:
            pass
        for proc, d in getattr(group, "_verif_cleanup", []):
            if proc is not None:
                proc.kill()
                proc.wait()
            import shutil

            shutil.rmtree(d, ignore_errors=True)


def _control(job):
    execmodel, python = job
    sys.stderr = open(os.devnull, "w")
    import execnet

    from real import matrix

    group = execnet.Group()
    try:
        out = matrix.control_requests(group, execmodel, python)
        out["err"] = ""
        return out
    except BaseException as e:  # noqa: BLE001
        return {"alive_before": False, "gone_after_kill_ms": -1, "wait_returned": False, "gone_after_wait_then_kill_ms": -1,
                "pending_wait_returned": False, "lingering_before_kill": False, "gone_after_exit_then_kill_ms": -1, "err": type(e).__name__}
    finally:
        try:
            group.terminate(timeout=2)
        except Exception:
            pass


def run_matrix(jobs, control_jobs):
    ctx = mp.get_context("spawn")
    with ctx.Pool(min(8, max(1, len(jobs))), maxtasksperchild=1) as pool:  # jobs change os.environ: one process per job
        res = pool.map(_one, jobs, chunksize=1)
        ctl = pool.map(_control, control_jobs, chunksize=1) if control_jobs else []
    return res, ctl
