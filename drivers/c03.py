"""C03 -- close is ordered after data and observed consistently by both sides"""

from __future__ import annotations

import random

from drivers import gwcommon as gc
from drivers import gwmodel, gwprograms
from sim import gwrun

LINE_FUNCS = ["close", "_local_close", "_no_longer_opened", "receive", "waitclose", "send", "isclosed", "__del__"]


def run(ctx):
    rng = random.Random(ctx.seed + 3)
    mc = gwmodel.check(ctx, ["GW_data", "GW_lclose"] if ctx.quick else ["GW_data", "GW_err", "GW_lclose", "GW_data_big", "GW_all_big"], mutants=["GW_close_unfixed"])
    progs = gwprograms.c03_programs(rng, 10 if ctx.quick else 80)
    opts = [{"post_yields": True}, {"post_yields": True, "chunking": "random"}, {"post_yields": False},
            {"post_yields": True, "line_level": LINE_FUNCS}]
    # the whole family once more on a gateway whose string coercion was reconfigured (nothing about channels, closes, errors or
    # remote_exec may depend on the coercion switches)
    opts.append({"post_yields": True, "reconfigure": (False, True)})
    # the real SocketIO over the scripted socket (partial sends, chunked receives)
    opts.append({"post_yields": True, "transport": "socket", "chunking": "random"})
    if not ctx.quick:
        opts.append({"post_yields": False, "transport": "socket"})
        opts.append({"post_yields": False, "reconfigure": (True, True)})
    jobs = gc.jobs_for(progs, 24 if ctx.quick else 120, 10 if ctx.quick else 40, ctx.seed, opts)
    # preemption-bounded systematic search (every schedule with <= 1 preemption, yields before and after each operation)
    searches = [(p, 1, 250 if ctx.quick else 6000, {"post_yields": True}) for p in progs[: 6 if ctx.quick else 14]]
    life = gc.chanlife_part(ctx, ["C03."], 3 if ctx.quick else 5)
    cfd = gc.chanfile_delivery_part(ctx, rng, ["C02.", "C03."])
    multi = gc.multi_part(ctx, ["C03."])
    crecv = gc.closed_receive_part(ctx)
    res = gc.run_and_judge(ctx, jobs, ["C03.", "C10.endmarker-before-last-item"], lambda evs: any(e["ev"] == "ret" and e["op"] == "receive" and e["res"] == "EOF" for e in evs) and any(e["ev"] == "ret" and e["op"] in ("send", "isclosed") for e in evs), None, searches=searches)
    gwrun.close_pool()
    ctx.coverage.update({
        "states": mc["states"], "transitions": mc["transitions"],
        "traces_validated_against_impl": res["distinct"], "evaluations": res["runs"], "distinct_nontrivial": res["nontrivial"],
        "rule": "generated send/close histories (explicit close, close with error, end of remote_exec, dropping the last reference, concurrent close on both sides) with 1-3 blocked receivers and waitclose callers that probe isclosed/send/waitclose/close/receive after having observed the close; run on the real Gateway + WorkerGateway pair over real Popen2IO/SocketIO with scripted pipes under seeded random / PCT / "
                "non-preemptive schedules and a preemption-bounded systematic search (<= 1 preemption) for the first programs, yielding before and after every synchronisation and IO operation and, in a quarter of the runs, before "
                "every source line of " + ", ".join(LINE_FUNCS) + "; distinct by event trace; non-trivial = some receiver saw EOFError and a probe (send/isclosed) followed",
        "samples": [res["sample"]], "programs": len(progs), "verdict_histogram": res["hist"],
        "other_property_rejections": res["other_property_rejections"], "tlc": mc["detail"],
        "bounded_search": {"programs": res["bounded_searches"], "runs": res["bounded_search_runs"], "finished_exhaustively": res["bounded_searches_finished"]},
    })
    ctx.coverage["chanlife_replay"] = life
    ctx.coverage["channel_file_delivery"] = cfd
    ctx.coverage["multichannel_real"] = multi
    ctx.coverage["closed_channel_receives"] = crecv
    ctx.assumptions += gc.ASSUMPTIONS
    return "model_checking"
