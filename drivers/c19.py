"""C19 -- channel files behave like files over the concatenated items."""

from __future__ import annotations

import itertools
import json
import random
import threading
import time

from mbt import batch, tlc


class StubChannel:
    """the receive side of a channel: items, then EOFError"""

    def __init__(self, items):
        self.items = list(items)
        self.closed = False
        self.id = 1

    def receive(self, timeout=None):
        if self.items:
            return self.items.pop(0)
        raise EOFError

    def close(self):
        self.closed = True

    def isclosed(self):
        return self.closed


RTYPES: list = []


def do_ops(f, ops):
    res, exc = [], ""
    del RTYPES[:]
    try:
        for op in ops:
            r = f.read(op[1]) if op[0] == "read" else f.readline()
            RTYPES.append(type(r).__name__)
            res.append(list(r.encode("utf-32-le")[i] for i in range(0, 0)) if False else ([ord(ch) for ch in r] if isinstance(r, str) else list(r)))
    except Exception as e:  # noqa: BLE001
        exc = type(e).__name__
    return res, exc


def splits(s, k):
    if k == 1:
        yield [s]
        return
    for i in range(len(s) + 1):
        for rest in splits(s[i:], k - 1):
            yield [s[:i]] + rest


def run(ctx):
    from execnet import gateway_base

    rng = random.Random(ctx.seed + 19)
    r = tlc.run("MCChanFile", "MCChanFile.cfg" if ctx.quick else "MCChanFileBig.cfg", scratch=ctx.scratch, timeout=3000)
    if not r.ok:
        ctx.machinery(f"TLC MCChanFile: {r.violated} {r.error[:600]}")
    ctx.note(f"TLC MCChanFile: {r.generated} scenarios-states, algorithm == reference file, {r.wall:.1f}s")
    lossy = tlc.run("MCChanFile", "MCChanFileLossy.cfg", scratch=ctx.scratch, timeout=600, parse_trace=False)
    if lossy.violated != "LossyAlgorithmIsAFile":
        ctx.machinery(f"TLC: the read() design that forgets the items of a call that meets the end of the channel is not rejected ({lossy.violated})")
    ctx.note("TLC MCChanFile: the local-accumulation design of read() (items of the call that meets EOF are forgotten) is refuted")
    cases, metas = [], []
    OPS = [("read", n) for n in range(0, 4)] + [("readline",)]
    # exhaustive replay of the model's bounded scenario space on the real ChannelFileRead (text and bytes)
    maxlen, maxitems, nops = (3, 3, 2) if ctx.quick else (4, 3, 3)
    strs = [""]
    for n in range(1, maxlen + 1):
        strs += ["".join(p) for p in itertools.product("ab\n", repeat=n)]
    scen = []
    for s in strs:
        for k in range(1, maxitems + 1):
            for items in splits(s, k):
                scen.append(items)
    scen.append([])
    opseqs = list(itertools.product(OPS, repeat=nops))
    for items in scen:
        for ops in (opseqs if len(items) <= 2 or not ctx.quick else rng.sample(opseqs, 8)):
            ops = list(ops) + [("read", 2), ("readline",), ("readline",)]
            for binary in (False, True):
                its = [it.encode() if binary else it for it in items]
                f = gateway_base.ChannelFileRead(StubChannel(its), proxyclose=False)
                res, exc = do_ops(f, ops)
                cases.append({"k": "read", "items": [[ord(c) for c in it] for it in items], "ops": [list(o) for o in ops], "results": res, "exc": exc})
                metas.append({"binary": binary})
    n_enum = len(cases)
    # generated long inputs (unicode, long lines, many items)
    for _ in range(300 if ctx.quick else 3000):
        binary = rng.random() < 0.4
        items = []
        for _j in range(rng.randint(0, 8)):
            n = rng.choice([0, 0, 1, 2, 5, 40])
            if binary:
                items.append(bytes(rng.choice([10, 10, 97, 0, 255, 13]) for _ in range(n)))
            else:
                items.append("".join(rng.choice(["\n", "\n", "a", "é", "€", "\U0001f600", "\r", " "]) for _ in range(n)))
        ops = [rng.choice([("read", rng.choice([0, 1, 2, 3, 7, 50, 1000])), ("readline",), ("readline",)]) for _ in range(rng.randint(1, 12))]
        f = gateway_base.ChannelFileRead(StubChannel(list(items)), proxyclose=rng.random() < 0.5)
        res, exc = do_ops(f, ops)
        cases.append({"k": "read", "items": [[ord(c) for c in it] if isinstance(it, str) else list(it) for it in items],
                      "ops": [list(o) for o in ops], "results": res, "exc": exc})
        metas.append({"binary": binary})
    # real channels: a popen gateway, the remote sends the items / receives the writes
    import execnet

    gw = execnet.makegateway("popen")
    try:
        for _ in range(40 if ctx.quick else 400):
            binary = rng.random() < 0.5
            items = [(bytes(rng.choice([10, 97, 98]) for _ in range(rng.randint(0, 4))) if binary
                      else "".join(rng.choice("ab\n") for _ in range(rng.randint(0, 4)))) for _ in range(rng.randint(0, 4))]
            ops = [rng.choice(OPS) for _ in range(rng.randint(1, 6))] + [("readline",), ("read", 3)]
            ch = gw.remote_exec("for x in channel.receive(): channel.send(x)")
            ch.send(items)
            f = ch.makefile("r", proxyclose=rng.random() < 0.4)   # proxyclose only matters for close(): reading is the same
            res, exc = do_ops(f, ops)
            cases.append({"k": "read", "items": [[ord(c) for c in it] if isinstance(it, str) else list(it) for it in items],
                          "ops": [list(o) for o in ops], "results": res, "exc": exc})
            metas.append({"binary": binary, "real_channel": True})
        # other transports and settings under the file: a socket gateway with items that arrive in several pieces and are pipelined, and a
        # gateway that was reconfigured to the documented default coercion (text items must still come out as text)
        from real import matrix as _matrix

        g_sock = _matrix.make_gateway(execnet.default_group, "socket", "thread", tag="c19s")
        g_reconf = execnet.makegateway("popen")
        g_reconf.reconfigure(py2str_as_py3str=True, py3str_as_py2str=False)
        for gx, big in ((g_sock, True), (g_sock, False), (g_reconf, False), (g_reconf, False)):
            for _ in range(2 if ctx.quick else 10):
                if big:
                    items = ["a" * 70000 + "\n", "b" * 40000, "\n", "c" * 66000 + "\nd"]
                    ops = [("read", 50000), ("readline",), ("read", 30000), ("readline",), ("readline",), ("read", 70000), ("read", 3)]
                else:
                    items = ["".join(rng.choice("ab\n") for _ in range(rng.randint(0, 4))) for _ in range(rng.randint(1, 4))]
                    ops = [rng.choice(OPS) for _ in range(rng.randint(1, 6))] + [("readline",), ("read", 3)]
                ch = gx.remote_exec("for x in channel.receive(): channel.send(x)")
                ch.send(items)
                f = ch.makefile("r")
                box = {}
                th = threading.Thread(target=lambda: box.update(r=do_ops(f, ops)), daemon=True)
                th.start()
                th.join(30)
                res, exc = box.get("r", ([], "Hang"))
                cases.append({"k": "read", "items": [[ord(c) for c in it] for it in items], "ops": [list(o) for o in ops], "results": res, "exc": exc,
                              "rtypes": list(RTYPES), "want_type": "str"})
                metas.append({"binary": False, "real_channel": True, "gateway": "socket" if gx is g_sock else "popen, reconfigured to the default coercion"})
        # the other ways a channel can end under a reading file: our own close with items still unread (they stay readable, then EOF),
        # the peer dropping its end while it keeps a callback ("sendonly" here), the whole gateway going away; reads are repeated at EOF.
        # A read that blocks is reported as exception "Hang".
        for i in range(12 if ctx.quick else 120):
            mode = ("local-close", "peer-drop", "gateway-exit", "local-close-proxy")[i % 4]
            binary = rng.random() < 0.5
            items = [(bytes(rng.choice([10, 97, 98]) for _ in range(rng.randint(1, 4))) if binary
                      else "".join(rng.choice("ab\n") for _ in range(rng.randint(1, 4)))) for _ in range(rng.randint(1, 4))]
            ops = [rng.choice(OPS) for _ in range(rng.randint(1, 5))] + [("read", 50), ("readline",), ("read", 3), ("readline",)]
            g2 = execnet.makegateway("popen") if mode == "gateway-exit" else gw
            ch0 = None
            if mode == "peer-drop":
                ch0 = g2.remote_exec("c = channel.gateway.newchannel()\nc.setcallback(lambda x: None)\nchannel.send(c)\n"
                                     "for x in channel.receive(): c.send(x)\ndel c\nimport gc\ngc.collect()\nchannel.receive()")
                ch = ch0.receive(20)
                ch0.send(items)
            else:
                ch = g2.remote_exec("for x in channel.receive(): channel.send(x)\nchannel.receive()")
                ch.send(items)
            for _w in range(600):  # every item is in the queue before the channel ends
                if ch._items.qsize() >= len(items):
                    break
                time.sleep(0.005)
            f = ch.makefile("r", proxyclose=(mode == "local-close-proxy"))
            if mode == "local-close":
                ch.close()
            elif mode == "local-close-proxy":
                f.close()
            elif mode == "gateway-exit":
                g2.exit()
                g2.join(10)
            else:
                for _w in range(600):
                    if ch._receiveclosed.is_set():
                        break
                    time.sleep(0.005)
            box = {}
            th = threading.Thread(target=lambda: box.update(r=do_ops(f, ops)), daemon=True)
            th.start()
            th.join(15)
            res, exc = box.get("r", ([], "Hang"))
            if mode == "peer-drop" and not exc:
                # reading a plain makefile('r') to its end does not close the channel: in "sendonly" state we can still send
                try:
                    ch.send(items[0])
                except OSError:
                    exc = "SendRefusedAfterReadingToEOF"
            cases.append({"k": "read", "items": [[ord(c) for c in it] if isinstance(it, str) else list(it) for it in items],
                          "ops": [list(o) for o in ops], "results": res, "exc": exc})
            metas.append({"binary": binary, "real_channel": True, "ended_by": mode})
            if ch0 is not None:
                ch0.send(None)
        for proxyclose in (False, True):
            for _ in range(5 if ctx.quick else 40):
                writes = [(bytes(rng.choice([10, 97]) for _ in range(rng.randint(0, 5))) if rng.random() < 0.5 else
                           "".join(rng.choice("ab\n") for _ in range(rng.randint(0, 5)))) for _ in range(rng.randint(0, 5))]
                ch = gw.remote_exec("n = channel.receive()\nchannel.send([channel.receive(2) for _ in range(n)])\nchannel.receive()")
                f = ch.makefile("w", proxyclose=proxyclose)
                ch.send(len(writes))
                got, closed_after, after = [], False, "?"
                try:
                    for w in writes:
                        f.write(w)
                        f.flush()
                    got = ch.receive(20)
                except Exception as e:  # noqa: BLE001 - e.g. the remote side timed out waiting for an item that was never sent
                    got = ["<" + type(e).__name__ + ">"]
                try:
                    f.close()
                    closed_after = ch.isclosed()
                    ch.close()
                    try:
                        f.write("x")
                        after = "ok"
                    except OSError:
                        after = "OSError"
                    except Exception as e:  # noqa: BLE001
                        after = type(e).__name__
                    if after == "OSError":   # also an empty write must be refused on a closed channel
                        try:
                            f.write("")
                            after = "empty-write-accepted"
                        except OSError:
                            pass
                except Exception as e:  # noqa: BLE001
                    after = type(e).__name__
                enc = lambda it: [ord(c) for c in it] if isinstance(it, str) else list(it)  # noqa: E731
                cases.append({"k": "write", "writes": [enc(w) for w in writes], "got": [enc(g) for g in got], "after_close": after,
                              "proxyclose": proxyclose, "closed_after_close": closed_after})
                metas.append({"proxyclose": proxyclose})
    finally:
        gw.exit()
        execnet.default_group.terminate(timeout=3)
    verdicts = batch.judge("ChanFileCases", cases, ctx.scratch)
    hist = {}
    nontrivial = set()
    for c, m, vd in zip(cases, metas, verdicts):
        hist[vd] = hist.get(vd, 0) + 1
        if c["k"] == "read" and len(c["items"]) >= 2 and any(o[0] == "readline" for o in c["ops"]):
            nontrivial.add(json.dumps([c["items"], c["ops"], m.get("binary")]))
        if vd != "ok":
            ctx.violation(f"{vd}: {json.dumps(c)[:300]} {m}", {"case": c, "meta": m, "verdict": vd})
    ctx.coverage.update({
        "states": r.distinct, "transitions": r.generated, "traces_validated_against_impl": len(cases),
        "evaluations": len(cases), "distinct_nontrivial": len(nontrivial),
        "rule": "every split of every string over {a, b, newline} of length <= %d into <= %d items (empty items included) x call sequences over read(0..3)/readline, "
                "as text and as bytes, on the real ChannelFileRead over a stub channel (the model's scenario space, exhaustive for <= 2 items); generated long "
                "unicode/binary inputs; real popen channels for makefile('r') and makefile('w') incl. flush, write-after-close and proxyclose; verdict = "
                "comparison with the reference file semantics evaluated by TLC; non-trivial = at least 2 items and a readline" % (maxlen, maxitems),
        "samples": [cases[5], cases[n_enum + 3]], "enumerated_cases": n_enum, "verdict_histogram": hist, "exhaustive": False,
    })
    ctx.assumptions += ["an ended channel with no item at all yields '' also for byte streams (accepted as an empty result)"]
    return "model_checking"
