"""Program families for the simulated gateway pair.  A program is
{"threads": [{"name", "side", "ops"}], "bodies": {id: ops}}; ops are interpreted by sim/world.py.
Tokens are unique small ints: 1xx sent by the initiator, 2xx by the worker."""

from __future__ import annotations


class Toks:
    def __init__(self):
        self.i = 100
        self.w = 200

    def ni(self):
        self.i += 1
        return self.i

    def nw(self):
        self.w += 1
        return self.w


def prog(threads, bodies):
    return {"threads": [{"name": n, "side": "i", "ops": ops} for n, ops in threads], "bodies": {str(k): v for k, v in bodies.items()}}


# ------------------------------------------------------------------ C02
def c02_programs(rng, n):
    out = []
    T = Toks()
    # echo
    out.append(prog([("u1", [("remote_exec", "c", 1), ("send", "c", 101), ("send", "c", 102), ("receive_all", "c")])],
                    {1: [("receive", "channel"), ("send", "channel", 201), ("receive", "channel"), ("send", "channel", 202)]}))
    # remote_status() while other threads open channels and send: its temporary channel is a conversation of its own
    out.append(prog([("u1", [("status",), ("status",)]), ("u2", [("remote_exec", "c", 1), ("receive_all", "c")]),
                     ("u3", [("remote_exec", "d", 2), ("send", "d", 111), ("receive_all", "d")])],
                    {1: [("send", "channel", 201), ("send", "channel", 202)], 2: [("receive", "channel"), ("send", "channel", 211)]}))
    # a big frame from one thread, small frames (items and a close) from others, at the same time
    out.append(prog([("u1", [("remote_exec", "a", 1), ("sendbig", "a", 101), ("sendbig", "a", 102), ("receive_all", "a")]),
                     ("u2", [("remote_exec", "b", 2), ("send", "b", 111), ("send", "b", 112), ("send", "b", 113), ("receive_all", "b")]),
                     ("u3", [("remote_exec", "k", 3), ("close", "k")])],
                    {1: [("receive", "channel"), ("receive", "channel"), ("send", "channel", 201)],
                     2: [("receive", "channel"), ("receive", "channel"), ("receive", "channel"), ("send", "channel", 211)], 3: [("waitclose", "channel")]}))
    # the receiving side iterates over the channel (both sides), a second thread receives explicitly from the same channel
    out.append(prog([("u1", [("remote_exec", "c", 1), ("send", "c", 101), ("send", "c", 102), ("send", "c", 103), ("close", "c")]),
                     ("u2", [("remote_exec", "d", 2), ("iterate", "d")]), ("u3", [("await", "d"), ("receive_all", "d")])],
                    {1: [("iterate", "channel")], 2: [("send", "channel", 211), ("send", "channel", 212), ("send", "channel", 213)]}))
    # two receivers on one channel
    out.append(prog([("u1", [("remote_exec", "c", 1), ("receive_all", "c")]), ("u2", [("await", "c"), ("receive_all", "c")])],
                    {1: [("send", "channel", 201), ("send", "channel", 202), ("send", "channel", 203)]}))
    # two senders on one channel, remote receives everything
    out.append(prog([("u1", [("remote_exec", "c", 1), ("send", "c", 101), ("send", "c", 102), ("open_gate", "g1")]),
                     ("u2", [("await", "c"), ("send", "c", 103), ("send", "c", 104), ("open_gate", "g2")]),
                     ("u3", [("wait_gate", "g1"), ("wait_gate", "g2"), ("await", "c"), ("close", "c")])],
                    {1: [("receive_all", "channel")]}))
    # two channels, interleaved traffic in both directions
    out.append(prog([("u1", [("remote_exec", "a", 1), ("send", "a", 101), ("receive_all", "a")]),
                     ("u2", [("remote_exec", "b", 2), ("send", "b", 111), ("send", "b", 112), ("receive_all", "b")])],
                    {1: [("send", "channel", 201), ("receive", "channel"), ("send", "channel", 202)],
                     2: [("receive", "channel"), ("send", "channel", 211), ("receive", "channel")]}))
    # callback receiver registered while items are in flight
    out.append(prog([("u1", [("remote_exec", "c", 1), ("setcallback", "c", True), ("waitclose", "c")])],
                    {1: [("send", "channel", 201), ("send", "channel", 202), ("send", "channel", 203)]}))
    # channel passed over a channel, traffic on the passed channel
    out.append(prog([("u1", [("remote_exec", "c", 1), ("newchannel", "d"), ("sendchan", "c", "d"), ("receive_all", "d"), ("waitclose", "c")])],
                    {1: [("recvchan", "channel", "x"), ("send", "x", 201), ("send", "x", 202), ("close", "x")]}))
    # a callback channel whose object was dropped before the items arrive: the callback still gets every item
    out.append(prog([("u1", [("remote_exec", "c", 1), ("setcallback", "c", True), ("drop", "c"), ("open_gate", "go"),
                             ("remote_exec", "e", 2), ("receive_all", "e")])],
                    {1: [("wait_gate", "go"), ("send", "channel", 201), ("send", "channel", 202), ("send", "channel", 203)], 2: [("send", "channel", 221)]}))
    # large items from two threads at once on one gateway (frames far above any buffer / split threshold)
    out.append(prog([("u1", [("remote_exec", "a", 1), ("sendbig", "a", 101), ("sendbig", "a", 102), ("receive_all", "a")]),
                     ("u2", [("remote_exec", "b", 2), ("sendbig", "b", 111), ("send", "b", 112), ("receive_all", "b")])],
                    {1: [("receive", "channel"), ("receive", "channel"), ("sendbig", "channel", 201)],
                     2: [("receive", "channel"), ("receive", "channel"), ("send", "channel", 211)]}))
    # generated: k channels, random shapes
    for _ in range(n):
        T = Toks()
        threads, bodies = [], {}
        nchan = rng.choice([1, 2, 2, 3])
        for j in range(nchan):
            ni, nw = rng.randint(0, 3), rng.randint(0, 3)
            itoks = [T.ni() for _ in range(ni)]
            wtoks = [T.nw() for _ in range(nw)]
            cname = f"c{j}"
            iops = [("remote_exec", cname, j + 1)] + [("send", cname, t) for t in itoks]
            shape = rng.choice(["recv_then_send", "send_then_recv", "interleave"])
            if shape == "recv_then_send":
                body = [("receive", "channel")] * ni + [("send", "channel", t) for t in wtoks]
            elif shape == "send_then_recv":
                body = [("send", "channel", t) for t in wtoks] + [("receive", "channel")] * ni
            else:
                body = []
                a, b = list(wtoks), ni
                while a or b:
                    if a and (not b or rng.random() < 0.5):
                        body.append(("send", "channel", a.pop(0)))
                    else:
                        body.append(("receive", "channel"))
                        b -= 1
            bodies[j + 1] = body
            recv = rng.choice(["receive_all", "callback", "two_receivers"])
            if recv == "receive_all":
                iops.append(("receive_all", cname))
            elif recv == "callback":
                iops += [("setcallback", cname, True), ("waitclose", cname)]
            else:
                iops.append(("receive_all", cname))
                threads.append((f"r{j}", [("await", cname), ("receive_all", cname)]))
            threads.append((f"u{j}", iops))
        out.append(prog(threads, bodies))
    return out


# ------------------------------------------------------------------ C03
AFTER = [("isclosed", "{c}"), ("send", "{c}", 199), ("waitclose", "{c}"), ("receive", "{c}"), ("close", "{c}"), ("isclosed", "{c}")]


def _after(c, tok):
    return [tuple(tok if x == 199 else (x.format(c=c) if isinstance(x, str) else x) for x in op) for op in AFTER]


def c03_programs(rng, n):
    out = []
    # the remote body ends (auto close) after k sends; peer: blocked receivers + waitclose caller, then probes
    for k in (0, 1, 2):
        body = [("send", "channel", 201 + i) for i in range(k)]
        out.append(prog([("u1", [("remote_exec", "c", 1), ("receive_all", "c")] + _after("c", 150)),
                         ("u2", [("await", "c"), ("receive_all", "c")] + _after("c", 151)),
                         ("u3", [("await", "c"), ("waitclose", "c")] + _after("c", 152))], {1: body}))
    # iteration over a channel ends exactly at the close (after every item); with a remote error the loop raises it
    out.append(prog([("u1", [("remote_exec", "c", 1), ("iterate", "c")] + _after("c", 150)), ("u2", [("remote_exec", "e", 2), ("iterate", "e"), ("waitclose", "e")])],
                    {1: [("send", "channel", 201), ("send", "channel", 202)], 2: [("send", "channel", 211), ("raise",)]}))
    # a big item is on its way while another thread closes the same channel / another channel: every item sent before the close arrives
    out.append(prog([("u1", [("remote_exec", "c", 1), ("sendbig", "c", 101), ("sendbig", "c", 102), ("open_gate", "sent")]),
                     ("u2", [("remote_exec", "d", 2), ("send", "d", 111), ("close", "d")]),
                     ("u3", [("await", "c"), ("wait_gate", "sent"), ("close", "c")])],
                    {1: [("receive_all", "channel")], 2: [("receive_all", "channel")]}))
    # MultiChannel.make_receive_queue on members that the peer has already closed, with items still queued: items first, then the end
    out.append(prog([("u1", [("remote_exec", "a", 1), ("remote_exec", "b", 2), ("waitclose", "a"), ("waitclose", "b"),
                             ("mc_queue", ["a", "b"], True, "q"), ("mc_drain", "q")])],
                    {1: [("send", "channel", 201), ("send", "channel", 202)], 2: [("send", "channel", 211)]}))
    # the initiator closes explicitly after k sends; the body receives everything then probes
    for k in (0, 2):
        out.append(prog([("u1", [("remote_exec", "c", 1)] + [("send", "c", 101 + i) for i in range(k)] + [("close", "c")] + _after("c", 150)),
                         ("u2", [("await", "c"), ("waitclose", "c"), ("isclosed", "c"), ("send", "c", 160)])],
                        {1: [("receive_all", "channel"), ("isclosed", "channel"), ("send", "channel", 250), ("waitclose", "channel"),
                             ("receive", "channel"), ("isclosed", "channel")]}))
    # close with an error text
    out.append(prog([("u1", [("remote_exec", "c", 1), ("send", "c", 101), ("close", "c", "some error")] + _after("c", 150))],
                    {1: [("receive_all", "channel"), ("isclosed", "channel"), ("send", "channel", 250)]}))
    # dropping the last reference closes (a new channel handed to the peer, then dropped)
    out.append(prog([("u1", [("remote_exec", "c", 1), ("newchannel", "d"), ("sendchan", "c", "d"), ("send", "d", 101), ("send", "d", 102),
                             ("drop", "d"), ("waitclose", "c")])],
                    {1: [("recvchan", "channel", "x"), ("receive_all", "x"), ("isclosed", "x"), ("send", "x", 250), ("waitclose", "x")]}))
    # both sides close concurrently
    out.append(prog([("u1", [("remote_exec", "c", 1), ("newchannel", "d"), ("sendchan", "c", "d"), ("send", "d", 101), ("close", "d")] + _after("d", 150))],
                    {1: [("recvchan", "channel", "x"), ("send", "x", 201), ("close", "x"), ("isclosed", "x"), ("send", "x", 250), ("receive", "x")]}))
    # close racing with receivers on the closing side itself
    out.append(prog([("u1", [("remote_exec", "c", 1), ("receive_all", "c")]),
                     ("u2", [("await", "c"), ("close", "c"), ("isclosed", "c"), ("send", "c", 150), ("waitclose", "c")])],
                    {1: [("send", "channel", 201), ("send", "channel", 202), ("receive", "channel")]}))
    # the peer installed a callback and dropped its channel object (CHANNEL_LAST_MESSAGE: "sendonly" here); closing it locally
    # afterwards must still flag it closed and refuse further sends
    out.append(prog([("u1", [("remote_exec", "c", 1), ("newchannel", "d"), ("sendchan", "c", "d"), ("send", "d", 101), ("waitclose", "d"),
                             ("close", "d"), ("isclosed", "d"), ("send", "d", 150), ("waitclose", "d"), ("close", "d"), ("open_gate", "fin"), ("waitclose", "c")])],
                    {1: [("recvchan", "channel", "x"), ("setcallback", "x", False), ("drop", "x"), ("wait_gate", "fin")]}))
    # the remote code ends because an EOFError escapes from a receive on a second channel (which the initiator closed):
    # its own channel must close all the same
    out.append(prog([("u1", [("remote_exec", "c", 1), ("newchannel", "d"), ("sendchan", "c", "d"), ("send", "d", 101), ("close", "d"),
                             ("receive_all", "c"), ("waitclose", "c"), ("isclosed", "c")])],
                    {1: [("recvchan", "channel", "x"), ("send", "channel", 201), ("receive", "x"), ("receive_escape", "x")]}))
    for _ in range(n):
        k = rng.randint(0, 3)
        nrecv = rng.randint(1, 3)
        closer = rng.choice(["body_end", "initiator_close", "drop"])
        if closer == "body_end":
            threads = [("u1", [("remote_exec", "c", 1), ("receive_all", "c")] + _after("c", 150))]
            for r in range(nrecv - 1):
                threads.append((f"r{r}", [("await", "c"), rng.choice([("receive_all", "c"), ("waitclose", "c")])] + _after("c", 160 + r)))
            out.append(prog(threads, {1: [("send", "channel", 201 + i) for i in range(k)]}))
        elif closer == "initiator_close":
            body = [("receive_all", "channel")] + [rng.choice([("isclosed", "channel"), ("send", "channel", 250), ("waitclose", "channel"), ("receive", "channel")]) for _ in range(3)]
            out.append(prog([("u1", [("remote_exec", "c", 1)] + [("send", "c", 101 + i) for i in range(k)] + [("close", "c")] + _after("c", 150))], {1: body}))
        else:
            out.append(prog([("u1", [("remote_exec", "c", 1), ("newchannel", "d"), ("sendchan", "c", "d")] + [("send", "d", 101 + i) for i in range(k)]
                             + [("drop", "d"), ("waitclose", "c")])],
                            {1: [("recvchan", "channel", "x"), ("receive_all", "x"), ("isclosed", "x"), ("send", "x", 250), ("waitclose", "x"), ("receive", "x")]}))
    return out


# ------------------------------------------------------------------ C07
def c07_programs(rng, n):
    out = []
    for k in (0, 1, 2):
        # remote body raises after k items; sibling channel with traffic; peer receives then waits
        out.append(prog([("u1", [("remote_exec", "c", 1), ("receive_all", "c"), ("waitclose", "c"), ("receive", "c"), ("isclosed", "c")]),
                         ("u2", [("remote_exec", "s", 2), ("send", "s", 111), ("receive_all", "s"), ("hasreceiver",)])],
                        {1: [("send", "channel", 201 + i) for i in range(k)] + [("raise",)],
                         2: [("receive", "channel"), ("send", "channel", 211), ("send", "channel", 212)]}))
        # waitclose first, then receive
        out.append(prog([("u1", [("remote_exec", "c", 1), ("waitclose", "c"), ("receive_all", "c")])],
                        {1: [("send", "channel", 201 + i) for i in range(k)] + [("raise",)]}))
    # a callback on the initiator raises at item k: the peer's channel gets the error, the failing side's too
    for boom in (201, 202):
        out.append(prog([("u1", [("remote_exec", "c", 1), ("setcallback", "c", False, boom), ("waitclose", "c"), ("isclosed", "c")]),
                         ("u2", [("remote_exec", "s", 2), ("receive_all", "s"), ("hasreceiver",)])],
                        {1: [("send", "channel", 201), ("send", "channel", 202), ("send", "channel", 203), ("waitclose", "channel")],
                         2: [("send", "channel", 211), ("send", "channel", 212)]}))
    # callbacks raising other exception types (KeyError, OSError, EOFError are handled specially elsewhere in the code)
    for kind in ("key", "os", "eof", "lookup"):
        out.append(prog([("u1", [("remote_exec", "c", 1), ("wait_gate", "ready"), ("send", "c", 101), ("send", "c", 102), ("waitclose", "c"), ("isclosed", "c"),
                                 ("remote_exec", "s", 2), ("receive_all", "s"), ("hasreceiver",)])],
                        {1: [("setcallback", "channel", False, 102, kind), ("open_gate", "ready"), ("waitclose", "channel")], 2: [("send", "channel", 211)]}))
        out.append(prog([("u1", [("remote_exec", "c", 1), ("open_gate", "go"), ("setcallback", "c", False, 201, kind), ("waitclose", "c"), ("hasreceiver",)])],
                        {1: [("wait_gate", "go"), ("send", "channel", 201), ("waitclose", "channel")]}))
    # a callback on the worker raises; the worker-side channel object is kept / dropped
    out.append(prog([("u1", [("remote_exec", "c", 1), ("newchannel", "d"), ("sendchan", "c", "d"), ("send", "d", 101), ("send", "d", 102),
                             ("waitclose", "d"), ("isclosed", "d"), ("waitclose", "c"), ("hasreceiver",)])],
                    {1: [("recvchan", "channel", "x"), ("setcallback", "x", False, 102), ("waitclose", "x")]}))
    out.append(prog([("u1", [("remote_exec", "c", 1), ("newchannel", "d"), ("sendchan", "c", "d"), ("waitclose", "c"), ("send", "d", 101), ("send", "d", 102),
                             ("waitclose", "d"), ("remote_exec", "e", 2), ("receive_all", "e"), ("hasreceiver",)])],
                    {1: [("recvchan", "channel", "x"), ("setcallback", "x", False, 101), ("drop", "x")], 2: [("send", "channel", 221)]}))
    # string coercion reconfigured (gateway-wide / per channel) before the failure
    for a, b in ((True, True), (False, True), (False, False)):
        out.append(prog([("u1", [("gw_reconfigure", a, b), ("remote_exec", "c", 1), ("receive_all", "c"), ("waitclose", "c"),
                                 ("remote_exec", "s", 2), ("receive_all", "s"), ("hasreceiver",)])],
                        {1: [("send", "channel", 201), ("raise",)], 2: [("send", "channel", 211)]}))
    out.append(prog([("u1", [("remote_exec", "c", 1), ("reconfigure", "c", False, True), ("setcallback", "c", False, 201), ("waitclose", "c"),
                             ("remote_exec", "s", 2), ("receive_all", "s"), ("hasreceiver",)])],
                    {1: [("send", "channel", 201), ("waitclose", "channel")], 2: [("send", "channel", 211)]}))
    # the initiator dropped its callback channel ("sendonly" on the worker), then the remote code fails: the error still travels
    out.append(prog([("u1", [("remote_exec", "c", 1), ("setcallback", "c", True), ("drop", "c"), ("open_gate", "go"), ("sleep", 5), ("hasreceiver",)])],
                    {1: [("send", "channel", 201), ("wait_gate", "go"), ("sleep", 1), ("raise",)]}))
    # a callback whose endmarker is None (what RSync and MultiChannel queues use): the end of a failing conversation is still delivered
    out.append(prog([("u1", [("remote_exec", "c", 1), ("setcallback", "c", "none"), ("waitclose", "c"), ("sleep", 1), ("hasreceiver",)])],
                    {1: [("send", "channel", 201), ("raise",)]}))
    # the failing conversation consumed by iteration only (for item in channel): the loop must not end as if the channel had been closed normally
    out.append(prog([("u1", [("remote_exec", "c", 1), ("iterate", "c"), ("hasreceiver",)])], {1: [("send", "channel", 201), ("send", "channel", 202), ("raise",)]}))
    out.append(prog([("u1", [("remote_exec", "c", 1), ("iterate", "c"), ("waitclose", "c"), ("hasreceiver",)])], {1: [("raise",)]}))
    # the failing initiator-side channel was dropped
    out.append(prog([("u1", [("remote_exec", "c", 1), ("setcallback", "c", False, 201), ("drop", "c"), ("remote_exec", "e", 2), ("receive_all", "e"), ("hasreceiver",)])],
                    {1: [("send", "channel", 201), ("send", "channel", 202)], 2: [("send", "channel", 221)]}))
    for _ in range(n):
        k = rng.randint(0, 3)
        nr = rng.randint(1, 2)
        threads = [("u1", [("remote_exec", "c", 1), rng.choice([("receive_all", "c"), ("waitclose", "c")]), ("receive_all", "c"), ("waitclose", "c")])]
        if nr == 2:
            threads.append(("u2", [("await", "c"), ("receive_all", "c")]))
        threads.append(("u3", [("remote_exec", "s", 2), ("send", "s", 111), ("receive_all", "s"), ("hasreceiver",)]))
        out.append(prog(threads, {1: [("send", "channel", 201 + i) for i in range(k)] + [("raise",)],
                                  2: [("receive", "channel"), ("send", "channel", 211)]}))
    return out


# ------------------------------------------------------------------ C10
def c10_programs(rng, n):
    out = []
    for pre in (0, 1, 3):
        for ending in ("body_end", "error", "explicit_close"):
            body = [("send", "channel", 201 + i) for i in range(3)]
            if ending == "error":
                body.append(("raise",))
            # the initiator first receives `pre` items the normal way, then switches to a callback
            iops = [("remote_exec", "c", 1)] + [("receive", "c")] * pre + [("setcallback", "c", True), ("receive", "c"), ("waitclose", "c")]
            out.append(prog([("u1", iops)], {1: body}))
    # an endmarker that is None (RSync, MultiChannel queues): delivered like any other, for every kind of ending
    for body in ([("send", "channel", 201), ("send", "channel", 202)], [("send", "channel", 201), ("raise",)], [("raise",)]):
        out.append(prog([("u1", [("remote_exec", "c", 1), ("setcallback", "c", "none"), ("waitclose", "c"), ("sleep", 1)])], {1: body}))
    # the failing conversation was first consumed by receive() / iteration up to the RemoteError, only then a callback is set: it
    # still gets the (one) endmarker
    out.append(prog([("u1", [("remote_exec", "c", 1), ("receive", "c"), ("receive", "c"), ("setcallback", "c", True), ("sleep", 1)])],
                    {1: [("send", "channel", 201), ("raise",)]}))
    out.append(prog([("u1", [("remote_exec", "c", 1), ("iterate", "c"), ("setcallback", "c", True), ("sleep", 1)])],
                    {1: [("send", "channel", 201), ("send", "channel", 202), ("raise",)]}))
    out.append(prog([("u1", [("remote_exec", "c", 1), ("receive", "c"), ("receive", "c"), ("receive", "c"), ("setcallback", "c", "none"), ("sleep", 1)])],
                    {1: [("send", "channel", 201), ("raise",)]}))
    # callback on the worker side, initiator sends then closes
    out.append(prog([("u1", [("remote_exec", "c", 1), ("newchannel", "d"), ("sendchan", "c", "d"), ("send", "d", 101), ("send", "d", 102), ("send", "d", 103),
                             ("close", "d"), ("waitclose", "c")])],
                    {1: [("recvchan", "channel", "x"), ("setcallback", "x", True), ("waitclose", "x")]}))
    # setcallback after the channel has been closed remotely and items are queued
    out.append(prog([("u1", [("remote_exec", "c", 1), ("waitclose", "c"), ("setcallback", "c", True), ("receive", "c")])],
                    {1: [("send", "channel", 201), ("send", "channel", 202)]}))
    # no endmarker requested
    out.append(prog([("u1", [("remote_exec", "c", 1), ("setcallback", "c", False), ("waitclose", "c")])],
                    {1: [("send", "channel", 201), ("send", "channel", 202)]}))
    # two channels with callbacks (the MultiChannel receive-queue pattern) and a concurrent plain receiver elsewhere
    out.append(prog([("u1", [("remote_exec", "a", 1), ("remote_exec", "b", 2), ("setcallback", "a", True), ("setcallback", "b", True), ("waitclose", "a"), ("waitclose", "b")])],
                    {1: [("send", "channel", 201), ("send", "channel", 202)], 2: [("send", "channel", 211), ("send", "channel", 212), ("send", "channel", 213)]}))
    # the channel object with the callback is dropped at once (gw.remote_exec(src).setcallback(cb, endmarker=X) pattern)
    out.append(prog([("u1", [("remote_exec", "c", 1), ("setcallback", "c", True), ("drop", "c"), ("open_gate", "go"),
                             ("remote_exec", "e", 2), ("receive_all", "e")])],
                    {1: [("wait_gate", "go"), ("send", "channel", 201), ("send", "channel", 202)], 2: [("send", "channel", 221)]}))
    out.append(prog([("u1", [("remote_exec", "c", 1), ("setcallback", "c", True), ("drop", "c"), ("open_gate", "go"), ("wait_gate", "sent"), ("exit",), ("join",)])],
                    {1: [("wait_gate", "go"), ("send", "channel", 201), ("open_gate", "sent"), ("receive", "channel")]}))
    # MultiChannel.make_receive_queue over two / three member channels: per member in order, then one endmarker each
    out.append(prog([("u1", [("remote_exec", "a", 1), ("remote_exec", "b", 2), ("mc_queue", ["a", "b"], True, "q"), ("mc_drain", "q")])],
                    {1: [("send", "channel", 201), ("send", "channel", 202)], 2: [("send", "channel", 211), ("send", "channel", 212), ("send", "channel", 213)]}))
    out.append(prog([("u1", [("remote_exec", "a", 1), ("remote_exec", "b", 2), ("remote_exec", "c", 3), ("open_gate", "go"),
                             ("mc_queue", ["a", "b", "c"], True, "q"), ("mc_drain", "q")])],
                    {1: [("send", "channel", 201), ("wait_gate", "go"), ("send", "channel", 202)], 2: [("raise",)],
                     3: [("wait_gate", "go"), ("send", "channel", 221)]}))
    # ... with endmarker=None (an endmarker like any other), members ending normally and by an error
    out.append(prog([("u1", [("remote_exec", "a", 1), ("remote_exec", "b", 2), ("mc_queue", ["a", "b"], "none", "q"), ("mc_drain", "q")])],
                    {1: [("send", "channel", 201), ("send", "channel", 202)], 2: [("send", "channel", 211), ("raise",)]}))
    # a dropped callback channel racing with the end of the remote code
    out.append(prog([("u1", [("remote_exec", "c", 1), ("setcallback", "c", True), ("drop", "c"), ("remote_exec", "e", 2), ("receive_all", "e")])],
                    {1: [("send", "channel", 201)], 2: [("send", "channel", 221)]}))
    # ... and with a remote code that fails after the channel object was dropped: the callback still gets its endmarker
    out.append(prog([("u1", [("remote_exec", "c", 1), ("setcallback", "c", True), ("drop", "c"), ("open_gate", "go"), ("remote_exec", "e", 2), ("receive_all", "e"), ("sleep", 3)])],
                    {1: [("send", "channel", 201), ("wait_gate", "go"), ("raise",)], 2: [("send", "channel", 221)]}))
    out.append(prog([("u1", [("remote_exec", "c", 1), ("setcallback", "c", True), ("drop", "c"), ("remote_exec", "e", 2), ("receive_all", "e"), ("sleep", 3)])],
                    {1: [("send", "channel", 201), ("raise",)], 2: [("send", "channel", 221)]}))
    # the gateway goes away (the channel ends "sendonly"), the channel is then closed locally, only then a callback is set: one endmarker
    out.append(prog([("u1", [("remote_exec", "c", 1), ("receive", "c"), ("exit",), ("join",), ("close", "c"), ("setcallback", "c", True), ("sleep", 1)])],
                    {1: [("send", "channel", 201), ("send", "channel", 202), ("receive", "channel")]}))
    # Channel.reconfigure() from another thread while the callback channel is being closed by the peer: still exactly one endmarker
    out.append(prog([("u1", [("remote_exec", "c", 1), ("setcallback", "c", True), ("open_gate", "cb"), ("waitclose", "c"), ("exit",), ("join",)]),
                     ("u2", [("wait_gate", "cb"), ("reconfigure", "c", False, True), ("reconfigure", "c", True, False)])],
                    {1: [("send", "channel", 201), ("wait_gate", "cb"), ("send", "channel", 202)]}))
    # a callback that closes its own channel when it gets the endmarker, while the channel is only half closed ("sendonly": the peer dropped
    # its end but kept a callback): the endmarker is delivered once, not again by the re-entrant close
    out.append(prog([("u1", [("remote_exec", "c", 1), ("recvchan", "c", "x"), ("setcallback", "x", False), ("drop", "x"), ("sleep", 2), ("send", "c", 1), ("waitclose", "c")])],
                    {1: [("newchannel", "k"), ("setcallback", "k", True, -1, "closeself"), ("sendchan", "channel", "k"), ("send", "k", 301), ("receive", "channel")]}))
    out.append(prog([("u1", [("newchannel", "k"), ("setcallback", "k", True, -1, "closeself"), ("remote_exec", "c", 1), ("sendchan", "c", "k"), ("sleep", 2), ("waitclose", "c")])],
                    {1: [("recvchan", "channel", "x"), ("setcallback", "x", False), ("send", "x", 301), ("drop", "x")]}))
    # the peer closed first, then setcallback (delivers the endmarker itself), then the gateway ends: still exactly one endmarker
    out.append(prog([("u1", [("remote_exec", "c", 1), ("waitclose", "c"), ("setcallback", "c", True), ("exit",), ("join",)])],
                    {1: [("send", "channel", 201), ("send", "channel", 202)]}))
    out.append(prog([("u1", [("remote_exec", "c", 1), ("waitclose", "c"), ("setcallback", "c", True), ("close", "c"), ("exit",), ("join",)])],
                    {1: [("send", "channel", 201)]}))
    # connection loss racing with setcallback
    out.append(prog([("u1", [("remote_exec", "c", 1), ("receive", "c"), ("open_gate", "go"), ("setcallback", "c", True), ("waitclose", "c")]),
                     ("u2", [("wait_gate", "go"), ("cut", "w>i")])],
                    {1: [("send", "channel", 201), ("send", "channel", 202), ("receive", "channel")]}))
    out.append(prog([("u1", [("remote_exec", "c", 1), ("open_gate", "go"), ("setcallback", "c", True), ("waitclose", "c")]),
                     ("u2", [("wait_gate", "go"), ("cut", "w>i")])],
                    {1: [("receive", "channel")]}))
    # ends by exit of the gateway (receiver-side finished)
    out.append(prog([("u1", [("remote_exec", "c", 1), ("setcallback", "c", True), ("receive", "c")]),
                     ("u2", [("await", "c"), ("wait_gate", "sent"), ("exit",), ("join",)])],
                    {1: [("send", "channel", 201), ("send", "channel", 202), ("open_gate", "sent"), ("receive", "channel")]}))
    for _ in range(n):
        k = rng.randint(0, 4)
        pre = rng.randint(0, k)
        ending = rng.choice(["body_end", "error", "sleep_then_end"])
        body = [("send", "channel", 201 + i) for i in range(k)]
        if ending == "error":
            body.append(("raise",))
        want = rng.random() < 0.8
        iops = [("remote_exec", "c", 1)] + [("receive", "c")] * pre + [("setcallback", "c", want), ("waitclose", "c")]
        out.append(prog([("u1", iops)], {1: body}))
    return out


# ------------------------------------------------------------------ C18
def c18_programs(rng, n):
    out = []
    # concurrent channel creation on both sides
    out.append(prog([("u1", [("remote_exec", "a", 1), ("newchannel", "x1"), ("newchannel", "x2"), ("receive_all", "a")]),
                     ("u2", [("newchannel", "y1"), ("remote_exec", "b", 2), ("newchannel", "y2"), ("receive_all", "b")]),
                     ("u3", [("newchannel", "z1"), ("newchannel", "z2")])],
                    {1: [("newchannel", "w1"), ("newchannel", "w2"), ("send", "channel", 201)],
                     2: [("newchannel", "v1"), ("send", "channel", 211), ("newchannel", "v2")]}))
    # a channel created on the worker is passed to the initiator (plain and nested in a container), used, closed
    for nested in (False, True):
        sc = ("sendchan", "channel", "n", "nested") if nested else ("sendchan", "channel", "n")
        out.append(prog([("u1", [("tablesize",), ("remote_exec", "c", 1), ("recvchan", "c", "m"), ("send", "m", 101), ("send", "m", 102), ("receive_all", "m"),
                                 ("waitclose", "c"), ("drop", "m"), ("drop", "c"), ("tablesize",)])],
                        {1: [("tablesize",), ("newchannel", "n"), sc, ("receive", "n"), ("receive", "n"), ("send", "n", 201), ("close", "n"), ("drop", "n"), ("tablesize",)]}))
    # open / transfer / close cycles: the tables must not grow
    cyc_i, cyc_b = [("tablesize",), ("remote_exec", "c", 1)], [("tablesize",)]
    for r in range(3):
        cyc_i += [("newchannel", f"d{r}"), ("sendchan", "c", f"d{r}"), ("send", f"d{r}", 101 + r), ("receive_all", f"d{r}"), ("drop", f"d{r}")]
        cyc_b += [("recvchan", "channel", f"x{r}"), ("receive", f"x{r}"), ("send", f"x{r}", 201 + r), ("close", f"x{r}"), ("drop", f"x{r}")]
    cyc_i += [("waitclose", "c"), ("drop", "c"), ("tablesize",)]
    cyc_b += [("tablesize",)]
    out.append(prog([("u1", cyc_i)], {1: cyc_b}))
    # callback channels: closed locally while the peer still holds them
    out.append(prog([("u1", [("tablesize",), ("remote_exec", "c", 1), ("newchannel", "d"), ("setcallback", "d", True), ("sendchan", "c", "d"), ("waitclose", "c"),
                             ("close", "d"), ("drop", "d"), ("drop", "c"), ("tablesize",)])],
                    {1: [("recvchan", "channel", "x"), ("send", "x", 201), ("drop", "x")]}))
    # a callback channel whose object was dropped, closed by the peer: both tables forget it
    out.append(prog([("u1", [("tablesize",), ("remote_exec", "c", 1), ("setcallback", "c", True), ("drop", "c"), ("open_gate", "go"),
                             ("remote_exec", "e", 2), ("receive_all", "e"), ("drop", "e"), ("tablesize_settled",)])],
                    {1: [("wait_gate", "go"), ("send", "channel", 201)], 2: [("send", "channel", 221)]}))
    # the same racing with the end of the remote code (its CHANNEL_CLOSE may be sent before our LAST_MESSAGE arrives there)
    out.append(prog([("u1", [("tablesize",), ("remote_exec", "c", 1), ("setcallback", "c", True), ("drop", "c"),
                             ("remote_exec", "e", 2), ("receive_all", "e"), ("drop", "e"), ("tablesize_settled",)])],
                    {1: [("send", "channel", 201)], 2: [("send", "channel", 221)]}))
    # ... the remote code fails after the drop
    out.append(prog([("u1", [("tablesize",), ("remote_exec", "c", 1), ("setcallback", "c", True), ("drop", "c"), ("open_gate", "go"),
                             ("remote_exec", "e", 2), ("receive_all", "e"), ("drop", "e"), ("tablesize_settled",)])],
                    {1: [("send", "channel", 201), ("wait_gate", "go"), ("raise",)], 2: [("send", "channel", 221)]}))
    # Channel.reconfigure() from another thread while a callback channel is being closed: no table entry survives the conversation
    out.append(prog([("u1", [("tablesize",), ("remote_exec", "c", 1), ("setcallback", "c", True), ("open_gate", "cb"), ("waitclose", "c"), ("drop", "c"),
                             ("wait_gate", "rdone"), ("tablesize_settled",)]),
                     ("u2", [("wait_gate", "cb"), ("reconfigure", "c", False, True), ("reconfigure", "c", True, False), ("drop", "c"), ("open_gate", "rdone")])],
                    {1: [("send", "channel", 201), ("wait_gate", "cb"), ("send", "channel", 202)]}))
    # remote_status() from one thread while others create channels: its temporary channel takes an id like any other
    out.append(prog([("u1", [("status",), ("status",)]), ("u2", [("remote_exec", "c", 1), ("receive_all", "c"), ("newchannel", "n1")]),
                     ("u3", [("newchannel", "n2"), ("remote_exec", "d", 2), ("receive_all", "d")])],
                    {1: [("send", "channel", 201), ("send", "channel", 202)], 2: [("send", "channel", 211)]}))
    # setcallback on a channel with queued items while the channel gets closed during the drain (by the callback itself / by another thread)
    out.append(prog([("u1", [("tablesize",), ("remote_exec", "c", 1), ("wait_gate", "sent"), ("setcallback", "c", False, 202, "closeself"),
                             ("drop", "c"), ("open_gate", "fin"), ("remote_exec", "e", 2), ("receive_all", "e"), ("drop", "e"), ("tablesize_settled",)])],
                    {1: [("send", "channel", 201), ("send", "channel", 202), ("open_gate", "sent"), ("wait_gate", "fin")], 2: [("send", "channel", 221)]}))
    out.append(prog([("u1", [("tablesize",), ("remote_exec", "c", 1), ("wait_gate", "sent"), ("open_gate", "race"), ("setcallback", "c", False),
                             ("wait_gate", "closed"), ("drop", "c"), ("open_gate", "fin"), ("remote_exec", "e", 2), ("receive_all", "e"), ("drop", "e"), ("tablesize_settled",)]),
                     ("u2", [("wait_gate", "race"), ("close", "c"), ("open_gate", "closed")])],
                    {1: [("send", "channel", 201), ("send", "channel", 202), ("open_gate", "sent"), ("wait_gate", "fin")], 2: [("send", "channel", 221)]}))
    for _ in range(n):
        nt = rng.randint(2, 3)
        threads = []
        bodies = {}
        for t in range(nt):
            ops = []
            for j in range(rng.randint(1, 3)):
                if rng.random() < 0.5:
                    ops.append(("newchannel", f"n{t}{j}"))
                else:
                    bid = t * 10 + j + 1
                    ops.append(("remote_exec", f"e{t}{j}", bid))
                    bodies[bid] = [("newchannel", f"wn{bid}")] * rng.randint(0, 2) + [("send", "channel", 200 + bid)]
                    ops.append(("receive_all", f"e{t}{j}"))
            threads.append((f"u{t}", ops))
        out.append(prog(threads, bodies))
    return out


# ------------------------------------------------------------------ C04
def c04_programs():
    out = []
    # survivor: blocked receiver, waitclose caller, callback with endmarker on a second channel; then probes after join
    post = [("join",), ("hasreceiver",), ("send", "c", 190), ("newchannel", "zz"), ("remote_exec", "yy", 9)]
    out.append(prog([("u1", [("remote_exec", "c", 1), ("receive_all", "c"), ("waitclose", "c")] + post),
                     ("u2", [("await", "c"), ("waitclose", "c"), ("receive_all", "c")]),
                     ("u3", [("remote_exec", "k", 2), ("setcallback", "k", True), ("waitclose", "k")])],
                    {1: [("send", "channel", 201), ("send", "channel", 202), ("send", "channel", 203), ("receive", "channel")],
                     2: [("send", "channel", 211), ("send", "channel", 212), ("receive", "channel")], 9: []}))
    out.append(prog([("u1", [("remote_exec", "c", 1), ("receive_all", "c")] + post),
                     ("u2", [("await", "c"), ("receive_all", "c")])],
                    {1: [("send", "channel", 201), ("send", "channel", 202), ("receive", "channel")], 9: []}))
    out.append(prog([("u1", [("remote_exec", "c", 1), ("setcallback", "c", True), ("waitclose", "c")] + post)],
                    {1: [("send", "channel", 201), ("send", "channel", 202), ("send", "channel", 203), ("receive", "channel")], 9: []}))
    # a callback channel whose object was dropped: its endmarker must still come when the connection is lost
    out.append(prog([("u1", [("remote_exec", "k", 2), ("setcallback", "k", True), ("drop", "k"), ("remote_exec", "c", 1), ("receive_all", "c")] + post)],
                    {1: [("send", "channel", 201), ("receive", "channel")], 2: [("send", "channel", 211), ("receive", "channel")], 9: []}))
    # a thread that creates a channel and reads from it at an arbitrary moment relative to the loss: it gets OSError from newchannel()
    # or EOFError from receive(), it never blocks on a channel of a dead gateway
    out.append(prog([("u1", [("remote_exec", "c", 1), ("receive_all", "c")] + post),
                     ("u2", [("newchannel", "d"), ("receive", "d"), ("newchannel", "e"), ("receive", "e")])],
                    {1: [("send", "channel", 201), ("send", "channel", 202), ("receive", "channel")], 9: []}))
    # a callback registered only after the connection was lost still gets the queued items and its endmarker
    out.append(prog([("u1", [("remote_exec", "c", 1), ("remote_exec", "k", 2), ("receive_all", "c"), ("join",), ("setcallback", "k", True), ("hasreceiver",)])],
                    {1: [("send", "channel", 201), ("receive", "channel")], 2: [("send", "channel", 211), ("send", "channel", 212), ("receive", "channel")]}))
    return out
