"""C12 -- serialized byte format is stable and version compatible (DESIGN.md 5, C12)."""

from __future__ import annotations

import itertools
import random

from drivers import sercommon as sc
from drivers.c01 import ACTIONS
from mbt import pyval


def legacy_streams(rng, n):
    """reference-built streams using the Python-2 era opcodes (PY2STRING, UNICODE, LONG, LONGLONG)
    next to the current ones, nested in containers"""
    def i4(x):
        return list(int(x).to_bytes(4, "big", signed=True))

    def atom():
        k = rng.randint(0, 7)
        if k == 0:
            b = [rng.randint(0, 255) for _ in range(rng.randint(0, 6))]
            return [77] + i4(len(b)) + b  # PY2STRING (arbitrary bytes)
        if k == 1:
            s = sc.rand_str(rng, 5, allow_surrogate=False).encode("utf-8")
            return [83] + i4(len(s)) + list(s)  # UNICODE
        if k == 2:
            return [71] + i4(rng.choice([0, 1, -1, 2**31 - 1, -(2**31), rng.randint(-10**6, 10**6)]))  # LONG
        if k == 3:
            t = str(rng.choice([2**31, -(2**31) - 1, 10**25, -(10**25), rng.getrandbits(70)])).encode()
            return [73] + i4(len(t)) + list(t)  # LONGLONG
        if k == 4:
            s = sc.rand_str(rng, 5, allow_surrogate=False).encode("utf-8")
            return [78] + i4(len(s)) + list(s)  # PY3STRING
        if k == 5:
            b = [rng.randint(0, 255) for _ in range(rng.randint(0, 6))]
            return [65] + i4(len(b)) + b  # BYTES
        if k == 6:
            return [70] + i4(rng.randint(-5, 5))
        return [76]

    out = []
    for _ in range(n):
        k = rng.randint(0, 3)
        if k == 0:
            body = atom()
        elif k == 1:
            items = [atom() for _ in range(rng.randint(0, 3))]
            body = [b for it in items for b in it] + [64] + i4(len(items))  # tuple
        elif k == 2:
            items = [atom() for _ in range(rng.randint(0, 3))]
            body = [75] + i4(len(items))
            for idx, it in enumerate(items):
                body += [70] + i4(idx) + it + [80]
        else:
            body = [74]
            for _j in range(rng.randint(0, 3)):
                body += atom() + atom() + [80]
        ver = 2 if rng.random() < 0.9 else rng.choice([0, 1, 3, 65, 255])
        out.append([ver] + body + [81])
    return out


REL: dict = {}


def strconfig_part(ctx):
    """plumbing of the coercion switches through Gateway.reconfigure / Channel.reconfigure / channel creation: every operation
    sequence of spec/StrConfig.tla (enumerated by TLC) replayed on the real gateway pair in the simulator; a peer speaking the
    Python-2 dialect is emulated by raw CHANNEL_DATA frames with legacy opcodes; TLC judges what receive() returned against the
    reference decoder under the pair the model says is in effect"""
    from mbt import batch, tlc
    from sim import gwrun

    depth = "4"
    r = tlc.run("StrConfigCases", "Batch.cfg", scratch=ctx.scratch, env={"WHAT": "enum", "DEPTH": depth}, workers=1, timeout=1800)
    vals = tlc.printed_values(r.out, "words")
    if not vals or not vals[0]:
        ctx.machinery("StrConfigCases enumerated nothing:\n" + r.out[-1500:])
    words = sorted(vals[0], key=lambda w: (len(w), repr(w)))
    prefixes = {w[:i] for w in words for i in range(len(w))}
    maximal = [w for w in words if w not in prefixes]
    if ctx.quick:  # every sequence of <= 3 operations, a seeded sample of those with 4
        short = [w for w in words if len(w) <= 3]
        sp = {w[:i] for w in short for i in range(len(w))}
        long4 = [w for w in maximal if len(w) == 4]
        twice = [w for w in long4 if w[0][0] == "gwreconf" and w[1][0] in ("gwreconf", "chreconf")]   # a setting that is changed and changed back
        rest = [w for w in long4 if not (w[0][0] == "gwreconf" and w[1][0] in ("gwreconf", "chreconf"))]
        maximal = [w for w in short if w not in sp] + twice + random.Random(ctx.seed + 121).sample(rest, min(2500, len(rest)))
    res = gwrun.run_chanlife([[list(o) for o in w] for w in maximal], module="sim.strconfig")
    gwrun.close_pool()
    res = [x for x in res if "harness_hang" not in x]
    for x in res:
        if "harness_error" in x or x.get("error") or len(x.get("obs", [])) != len(x["ops"]):
            ctx.machinery(f"StrConfig replay failed on {x['ops']}: {x.get('harness_error') or x.get('error') or x.get('outcome')}")
    verdicts = batch.judge("StrConfigCases", [{"ops": x["ops"], "obs": x["obs"]} for x in res], ctx.scratch, extra_env={"WHAT": "judge", "DEPTH": "0"})
    hist = {}
    for x, vd in zip(res, verdicts):
        hist[vd] = hist.get(vd, 0) + 1
        if vd == "ok":
            continue
        if vd.startswith("MODEL."):
            ctx.machinery(f"StrConfig replay: {vd} on {x['ops']}")
        ctx.violation(f"{vd}: operations {x['ops']}; received {x['obs']}", x)
    return {"sequences_enumerated": len(words), "maximal_sequences_replayed": len(maximal), "depth": int(depth),
            "probes_judged": sum(1 for x in res for o in x["ops"] if o[0] == "probe"), "verdict_histogram": hist}


def release_cross(ctx, models, gen, loads):
    vals = (models[::3] + gen[:300]) if ctx.quick else (models + gen)
    lds = loads[:600] if ctx.quick else loads
    res = sc.record(ctx, {"dump": vals, "modes": ["dumps"], "load": lds}, release=True)
    if res is None:
        ctx.note("no execnet release installed next to the tree: cross-version part skipped")
        return []
    REL["version"] = res.get("execnet")
    out = []
    for c in res["cases"]:
        c["side"] = "release"
        out.append(c)
    # what the release wrote, loaded by the tree under test
    rel_bytes = [c["out"][1] for c in res["cases"] if c["k"] == "dump" and c["out"][0] == "bytes"]
    back = sc.record(ctx, {"dump": [], "load": [{"inp": b, "cfg": [False, False], "stream": i % 2 == 1} for i, b in enumerate(rel_bytes)]})
    for c in back["cases"]:
        c["side"] = "tree<-release"
        out.append(c)
    # what the tree wrote, loaded by the release
    mine = sc.record(ctx, {"dump": vals, "modes": ["dumps"], "load": []})
    my_bytes = [c["out"][1] for c in mine["cases"] if c["out"][0] == "bytes"]
    there = sc.record(ctx, {"dump": [], "load": [{"inp": b, "cfg": [False, False]} for b in my_bytes]}, release=True)
    for c in there["cases"]:
        c["side"] = "release"
        c["from"] = "tree"
        out.append(c)
    ctx.note(f"release {REL['version']}: {len(res['cases'])} cases against the reference, {len(back['cases'])} of its outputs loaded by the tree, {len(there['cases'])} tree outputs loaded by it")
    return out


def run(ctx):
    rng = random.Random(ctx.seed + 12)
    strcfg = strconfig_part(ctx)  # first: the replay pool forks this process
    ctx.note(f"StrConfig: {strcfg['maximal_sequences_replayed']} operation sequences replayed, {strcfg['probes_judged']} probes judged")
    r = sc.model_check(ctx, "MCSerRound", "MCSerRound.cfg" if ctx.quick else "MCSerRoundBig.cfg", ACTIONS)
    models = sc.tlc_values(ctx, big=False)
    ngen = 500 if ctx.quick else 5000
    gen = [pyval.to_model(v) for v in sc.special_values(extended=True)]
    gen += [pyval.to_model(sc.rand_value(rng, depth=rng.randint(1, 5), allow_bad=False, width=rng.choice([2, 5, 10]))) for _ in range(ngen)]
    streams = legacy_streams(rng, 400 if ctx.quick else 4000)
    loads = [{"inp": s, "cfg": [a, b], "stream": (i % 3 == 0)} for i, s in enumerate(streams) for a, b in itertools.product([False, True], repeat=2)]
    loads += [{"inp": s, "cfg": [False, False], "stream": (i % 2 == 0), "defaults": True} for i, s in enumerate(streams[:150])]
    # (the same values serialized by eight threads at once: Channel.send serializes on the calling thread)
    job = {"dump": models + gen, "modes": ["dumps", "stream"], "load": loads, "threads": models[::3] + gen[:300]}
    cases = sc.record(ctx, job)["cases"]
    per_interp = {"venv": len(cases)}
    # the same format under every available interpreter (smaller sample in the quick tier)
    sub = {"dump": (models[::6] + gen[:200]) if ctx.quick else (models + gen), "modes": ["dumps"],
           "load": loads[:400] if ctx.quick else loads}
    for ver in sc.INTERPRETERS:
        res = sc.record(ctx, sub, ver)
        if res is None:
            ctx.note(f"interpreter {ver} not present")
            continue
        per_interp[res["python"]] = len(res["cases"])
        for c in res["cases"]:
            c["python"] = res["python"]
        cases += res["cases"]
    # an independent binary of the same format: the execnet release installed in the venv (site-packages).  Its dumps() output and
    # its loads() of the legacy streams are judged against the same reference (this validates the reference as "format v2 as
    # shipped"); then each side loads what the other side wrote.
    rel = release_cross(ctx, models, gen, loads)
    cases += rel
    verdicts = sc.judge(ctx, cases)
    nontrivial = set()
    for c, vd in zip(cases, verdicts):
        if c["k"] == "dump" and c["out"][0] == "bytes" and len(c["out"][1]) > 7:
            nontrivial.add(repr(c["v"]))
        if c["k"] == "load":
            nontrivial.add(repr((c["inp"], c["cfg"])))
        if vd == "ok" or vd.startswith("C01.") or vd.startswith("C13."):
            continue
        if c.get("side") == "release":
            # the released binary itself deviates from the reference: the reference would not be "format v2 as shipped"
            ctx.machinery(f"execnet release in site-packages disagrees with the reference spec ({vd}) on {sc.short(c, 300)}")
        if vd.startswith("SPEC."):
            ctx.machinery(f"reference spec inconsistent on {sc.short(c)}")
        ctx.violation(f"{vd}: {sc.short(c, 300)}", c)
    nload = sum(1 for c in cases if c["k"] == "load")
    ctx.coverage.update({
        "states": r.distinct, "transitions": r.generated,
        "traces_validated_against_impl": len(cases),
        "evaluations": len(cases), "distinct_nontrivial": len(nontrivial),
        "rule": "dumps() bytes compared byte-for-byte with the reference encoder Dumps(v) of spec/Serializer.tla for the TLC-enumerated grammar and "
                "seeded generated values; reference-built legacy-opcode streams (PY2STRING/UNICODE/LONG/LONGLONG, foreign version bytes) x 4 coercion "
                "settings loaded by loads()/load() and compared with the reference decoder; all repeated under interpreters 3.10-3.13; "
                "non-trivial = encoding longer than one leaf / any legacy stream",
        "samples": [sc.short(c, 260) for c in cases[:1] + [c for c in cases if c["k"] == "load"][:3]],
        "interpreters": per_interp, "legacy_load_cases": nload,
        "strconfig_plumbing": strcfg,
        "release_cross": {"release": REL.get("version"), "release_cases_vs_reference": sum(1 for c in rel if c.get("side") == "release"),
                          "tree_loads_release_bytes": sum(1 for c in rel if c.get("side") == "tree<-release"),
                          "release_loads_tree_bytes": sum(1 for c in rel if c.get("from") == "tree")},
    })
    ctx.assumptions += ["no execnet release < 2.1 and no Python 2 interpreter is available offline: the format is pinned against the TLA+ reference, and the reference against the one release that is installed (site-packages)",
                        "projection Python object <-> model value (mbt/pyval.py) is trusted"]
    return "model_checking"
