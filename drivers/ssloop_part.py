"""C16: the stand-alone socket server's connection loop, model-checked (spec/SocketServerLoop.tla) and replayed on the real script."""

from __future__ import annotations

import json
import random
from concurrent.futures import ThreadPoolExecutor

from mbt import batch, tlc


def run(ctx):
    from real import ssloop_real

    ok = tlc.run("SocketServerLoop", "SSL.cfg", scratch=ctx.scratch, timeout=300, parse_trace=False)
    if not ok.ok:
        ctx.machinery(f"TLC SocketServerLoop: {ok.violated} {ok.error[:400]}")
    mut = tlc.run("SocketServerLoop", "SSL_unfixed.cfg", scratch=ctx.scratch, timeout=300, parse_trace=False)
    if not mut.violated or mut.violated == "error":
        ctx.machinery("TLC: the design that restores the directory only when the loop is left is not rejected (SocketServerLoop vacuous)")
    one = tlc.run("SocketServerLoop", "SSL_oneshot.cfg", scratch=ctx.scratch, timeout=300, parse_trace=False)
    if not one.ok:
        ctx.machinery(f"TLC SocketServerLoop/SSL_oneshot: {one.violated} {one.error[:400]}")
    onem = tlc.run("SocketServerLoop", "SSL_oneshot_unfixed.cfg", scratch=ctx.scratch, timeout=300, parse_trace=False)
    if onem.violated != "EveryConnectionStartsInLaunchDir":
        ctx.machinery(f"TLC: the one-connection (installvia) server that does not go back is not rejected ({onem.violated})")
    rng = random.Random(ctx.seed + 16)
    ws = ssloop_real.words(2)
    longer = [w for w in ssloop_real.words(3) if len(w) == 3]
    ws += rng.sample(longer, 40 if ctx.quick else 400)
    with ThreadPoolExecutor(8) as ex:
        outs = list(ex.map(ssloop_real.run_word, ws))
    verdicts = batch.judge("SocketServerLoopCases", outs, ctx.scratch)
    hist = {}
    for o, vd in zip(outs, verdicts):
        hist[vd] = hist.get(vd, 0) + 1
        if vd.startswith("HARNESS"):
            ctx.machinery(f"{vd}: {json.dumps(o)[:300]}")
        elif vd != "ok":
            ctx.violation(f"{vd}: {json.dumps(o)[:300]}", o)
    ctx.note(f"TLC SocketServerLoop: {ok.distinct} states; restore-on-leave design killed by {mut.violated}; {len(outs)} connection words replayed on the real script")
    return {"states": ok.distinct, "mutant_killed_by": mut.violated, "words_replayed": len(outs), "verdict_histogram": hist}
