"""C15 -- bootstrapping needs nothing installed on the other side."""

from __future__ import annotations

import json
import os

from drivers import transport_common as tc
from mbt import batch, tlc
from real import shipped_ast


def run(ctx):
    proj = shipped_ast.projection()
    pj = os.path.join(ctx.scratch, "boot.json")
    json.dump(proj, open(pj, "w"))
    r = tlc.run("Bootstrap", "Bootstrap.cfg", scratch=ctx.scratch, env={"CASES": pj}, timeout=600, parse_trace=False)
    if not r.ok:
        if r.violated in ("ShippedIsSelfContained", "SourceBootstrapNeedsNothing") or "ShippedIsSelfContained" in r.error:
            bad = {u["name"]: {"non_stdlib_imports": [m for m in u["needs"] if m not in proj["stdlib"]], "unbalanced_fallback_imports": u["unbalanced"],
                             "names_not_bound_in_the_shipped_text": u["unresolved"]}
                   for u in proj["units"] if [m for m in u["needs"] if m not in proj["stdlib"]] or u["unbalanced"] or u["unresolved"]}
            ctx.violation(f"C15.shipped-source-not-self-contained: {json.dumps(bad)}", {"projection": bad})
        else:
            ctx.machinery(f"TLC Bootstrap: {r.violated} {r.error[:500]}")
    ctx.note(f"TLC Bootstrap: {r.generated} states over paths x child interpreters with the AST projection of the current sources")
    iso = tc.ISOLATED
    present = {v: c for v, c in iso.items() if os.path.exists(c[0])}
    if not present:
        ctx.machinery("no isolated interpreter available")
    jobs = [("popen", "thread", None, ctx.seed, False, {})]
    vers = sorted(present)
    pick = vers if not ctx.quick else [vers[0], vers[-1]]
    for v in pick:
        for kind in ("python", "via", "socket"):
            for em in (("thread", "main_thread_only") if not ctx.quick or kind == "python" else ("thread",)):
                jobs.append((kind, em, present[v], ctx.seed, False, {}))
    # with execnet's own tracing switched on (the shipped text then runs its debug branches on the bare interpreter)
    jobs.append(("python", "thread", present[vers[-1]], ctx.seed, False, {"EXECNET_DEBUG": "2"}))
    jobs.append(("via", "thread", present[vers[0]], ctx.seed, False, {"EXECNET_DEBUG": "1"}))
    # a child whose standard streams are not UTF-8 (legacy C locale, no coercion): the shipped text still has to arrive intact
    # (-I would make the child ignore PYTHONUTF8 / PYTHONCOERCECLOCALE: these children run with -S only, from "/", without PYTHONPATH)
    clocale = {"LC_ALL": "C", "LANG": "C", "PYTHONCOERCECLOCALE": "0", "PYTHONUTF8": "0", "_DROP_PYTHONPATH": "1"}
    jobs.append(("python", "thread", [present[vers[-1]][0], "-S"], ctx.seed, False, clocale))
    jobs.append(("via", "thread", [present[vers[0]][0], "-S"], ctx.seed, False, clocale))
    # a plain popen worker started without the initiator's PYTHONPATH still runs the initiator's copy (its directory is sent along)
    jobs.append(("popen", "thread", None, ctx.seed, False, {"_DROP_PYTHONPATH": "1"}))
    # ssh= and vagrant_ssh= through stand-in executables that hand the remote command line to /bin/sh like sshd does
    from real import matrix as _matrix

    standins = _matrix.make_remote_shell_standins(os.path.join(ctx.scratch, "bin"))
    path = {"PATH": standins + os.pathsep + os.environ.get("PATH", "")}
    jobs.append(("ssh", "thread", present[vers[-1]], ctx.seed, False, path))
    jobs.append(("vagrant", "thread", present[vers[0]], ctx.seed, False, path))
    ctl_jobs = [("thread", present[vers[-1]])] + ([("main_thread_only", present[vers[0]])] if not ctx.quick else [])
    res, ctl = tc.run_matrix(jobs, ctl_jobs)
    base = res[0]
    if base["err"]:
        ctx.machinery(f"baseline popen/thread run failed: {base['err']}")
    cases, metas = [], []
    for job, rr in zip(jobs[1:], res[1:]):
        cases.append({"k": "transcript", "base": base["T"], "other": rr["T"], "transport": job[0], "execmodel": job[1], "isolated": True, "err": rr["err"]})
        metas.append({"transport": job[0], "execmodel": job[1], "python": job[2][0].split("/")[-3] if job[2] else "sys.executable", "env": {k: v for k, v in job[5].items() if k != "PATH"}})
    for j, c in zip(ctl_jobs, ctl):
        cases.append({"k": "control", "isolated": True, **c})
        metas.append({"control": j[0], "python": j[1][0].split("/")[-3]})
    # the isolated interpreters really cannot import execnet
    import subprocess

    for v, cmd in present.items():
        p = subprocess.run(cmd + ["-c", "import execnet"], capture_output=True, env={k: v2 for k, v2 in os.environ.items()})
        if p.returncode == 0:
            ctx.machinery(f"interpreter {v} with -I -S can import execnet: not an execnet-less child")
    verdicts = batch.judge("TransportCases", cases, ctx.scratch)
    hist = {}
    for c, m, vd in zip(cases, metas, verdicts):
        hist[vd] = hist.get(vd, 0) + 1
        if vd.startswith("HARNESS"):
            ctx.machinery(vd)
        if vd.startswith("C16."):
            continue  # a clause of the transport-equivalence property (its listed finding: socket workers and execmodel), not of C15
        if vd != "ok":
            ctx.violation(f"{vd}: {json.dumps(m)}", {"meta": m, "verdict": vd})
    ctx.coverage.update({
        "states": r.distinct, "transitions": r.generated, "traces_validated_against_impl": len(cases),
        "evaluations": len(cases) + len(proj["units"]), "distinct_nontrivial": len(cases),
        "rule": "children started as `python -I -S` of 3.10-3.13 (execnet verified not importable there) through popen//python= (exec over pipe), via= "
                "through such a child, socket//installvia= through such a child, with thread and main_thread_only, also with EXECNET_DEBUG=1/2; each runs "
                "the transcript program set and must equal the import-bootstrapped popen worker's transcript entry by entry (TLC); kill/wait through an "
                "execnet-less forwarder; AST projection of the shipped sources (imports, fallback import pairs) checked by TLC in spec/Bootstrap.tla",
        "samples": [metas[0], base["T"][:2]], "matrix": metas, "verdict_histogram": hist,
        "shipped_units": {u["name"]: len(u["needs"]) for u in proj["units"]},
    })
    ctx.assumptions += ["no ssh server in the sandbox: ssh= and vagrant_ssh= gateways run through stand-in `ssh` / `vagrant` executables that pass the remote command line to /bin/sh as sshd would",
                        "references only reached on paths no program drives are seen by the AST projection (imports) but not executed"]
    return "model_checking"
