"""C01 -- serializer round-trip is total and type-exact (DESIGN.md section 5, C01)."""

from __future__ import annotations

import random

from drivers import sercommon as sc
from mbt import pyval

ACTIONS = ["LoadConst", "LoadInt", "LoadLongInt", "LoadFloat", "LoadBytes", "LoadStr", "NewList", "NewDict",
           "SetItem", "BuildTuple", "BuildSet", "Stop"]


def channel_cases(ctx, models, kind="popen"):
    """send v through a real channel (popen / socket / via gateway, echo body): the item must come back equal;
    a rejected value must raise DumpError, send nothing, and leave the channel usable."""
    import execnet

    if kind == "popen":
        gw = execnet.makegateway("popen")
    else:
        from real import matrix

        gw = matrix.make_gateway(execnet.default_group, kind, "thread", tag="c01" + kind)
    cases = []
    try:
        # an unrelated channel of this gateway is reconfigured first: the coercion of one channel is nobody else's business
        other = gw.newchannel()
        other.reconfigure(py2str_as_py3str=False, py3str_as_py2str=True)
        ch = gw.remote_exec("for item in channel: channel.send(item)")
        for i, m in enumerate(models):
            obj = pyval.from_model(m)
            v = pyval.to_model(obj)
            try:
                ch.send(obj)
                out = "sent"
            except BaseException as e:
                out = sc.ser_recorder.exc_name(e)
            # a marker follows every item: if a rejected value had leaked anything into the
            # connection the echo stream would be out of step or the connection dead
            ch.send(("marker", i))
            if out == "sent":
                try:
                    back = ["value", pyval.to_model(ch.receive(timeout=30))]
                except BaseException as e:
                    back = ["exc", sc.ser_recorder.exc_name(e)]
            else:
                back = ["na"]
            try:
                mk = ch.receive(timeout=30)
            except BaseException as e:
                mk = sc.ser_recorder.exc_name(e)
            cases.append({"v": v, "sendres": out, "back": back, "marker_ok": mk == ("marker", i)})
            if mk != ("marker", i):
                break
        ch.close()
    finally:
        gw.exit()
        execnet.default_group.terminate(timeout=3)
    return cases


def _shrink(m):
    """long byte / text leaves are replaced by (length, SHA-1) of their content on both sides of the comparison: TLC compares the digests"""
    import hashlib

    if m[0] in ("bytes", "str") and len(m[1]) > 4096:
        raw = bytes(m[1]) if m[0] == "bytes" else ",".join(map(str, m[1])).encode()
        return [m[0], list(len(m[1]).to_bytes(8, "big") + hashlib.sha1(raw).digest())]
    if m[0] in ("list", "tuple", "set", "frozenset"):
        return [m[0], [_shrink(x) for x in m[1]]]
    if m[0] == "dict":
        return ["dict", [[_shrink(k), _shrink(v)] for k, v in m[1]]]
    return m


def shrunk(c):
    c = dict(c)
    c["v"] = _shrink(c["v"])
    if c["back"][0] == "value":
        c["back"] = ["value", _shrink(c["back"][1])]
    return c


def run(ctx):
    rng = random.Random(ctx.seed)
    big = not ctx.quick
    r = sc.model_check(ctx, "MCSerRound", "MCSerRoundBig.cfg" if big else "MCSerRound.cfg", ACTIONS)
    # M3: the model's bounded grammar, replayed into the real code
    models = sc.tlc_values(ctx, big=False)
    n_enum = len(models)
    # generated values beyond TLC's bounds
    ngen = 600 if ctx.quick else 6000
    gen = [pyval.to_model(v) for v in sc.special_values(extended=True)] + sc.subclass_models()
    gen += [pyval.to_model(sc.rand_value(rng, depth=rng.randint(1, 4 if ctx.quick else 6), width=rng.choice([2, 4, 8]))) for _ in range(ngen)]
    gen.append(pyval.to_model(10**4400))  # beyond the interpreter's int->str digit limit
    job = {"dump": models + gen, "modes": ["dumps", "stream", "internal"]}
    rec = sc.record(ctx, job)
    cases = rec["cases"]
    # the channel path, on a real gateway
    chan_models = (models[:: max(1, len(models) // (150 if ctx.quick else 1500))] + gen[: (150 if ctx.quick else 1500)])
    chans = channel_cases(ctx, chan_models)
    # the other transports, with values whose frames do not fit one read / one pipe buffer (their byte streams are chunked differently)
    bigs = [pyval.to_model(v) for v in (bytes(range(256)) * 32768, "ä€\U0001f600x" * 700000, list(range(1500)),
                                         {"k%d" % i: (i, b"v" * i) for i in range(200)}, (b"", b"x" * 70000, b"y" * 65535, b"z" * 65537))]
    for kind in ("socket", "via"):
        chans += [shrunk(c) for c in channel_cases(ctx, bigs + chan_models[:: max(1, len(chan_models) // 40)], kind)]
    chan_cases = [{"k": "chan", "v": c["v"], "sendres": c["sendres"], "back": c["back"], "marker": c["marker_ok"]} for c in chans]
    dump_cases = [c for c in cases if c["k"] == "dump"]
    allv = sc.judge(ctx, dump_cases + chan_cases)
    verdicts, chan_verdicts = allv[: len(dump_cases)], allv[len(dump_cases):]
    nontrivial = set()
    nviol = 0
    for c, vd in list(zip(dump_cases, verdicts)) + list(zip(chan_cases, chan_verdicts)):
        key = repr(c["v"])
        if c["v"][0] in ("list", "tuple", "dict", "set", "frozenset") or (c["v"][0] == "int" and len(c["v"][2]) >= 10) or c["v"][0] == "bad":
            nontrivial.add(key)
        if vd == "ok" or vd.startswith("C12."):
            continue
        if vd.startswith("SPEC."):
            ctx.machinery(f"reference spec inconsistent on {sc.short(c)}")
        fkey = None
        if sc.has_huge_int(c["v"]) and (c.get("out", [None, None])[1] == "ValueError" or c.get("sendres") == "ValueError" or c.get("back", [None, None])[1:] == ["ValueError"]):
            fkey = "int-max-str-digits"
        nviol += 1
        ctx.violation(f"{vd}: {sc.short(c, 300)}", c, key=fkey)
    ctx.coverage.update({
        "states": r.distinct, "transitions": r.generated,
        "traces_validated_against_impl": len(dump_cases) + len(chan_cases),
        "evaluations": len(dump_cases) + len(chan_cases),
        "distinct_nontrivial": len(nontrivial),
        "rule": "values = TLC-enumerated bounded grammar (MCSerRound!Values) + seeded generator (depth<=6, ints to 10^400, full unicode) "
                "x {dumps/loads, dump/load stream, dumps_internal} + real popen channel echo; non-trivial = container, >=10-digit int or unsupported leaf; distinct by model value",
        "samples": [sc.short(c, 240) for c in (dump_cases[:2] + dump_cases[n_enum * 3 + 40: n_enum * 3 + 42] + chan_cases[:1])],
        "tlc": {"module": "MCSerRound", "values": n_enum, "coverage": {k: v[1] for k, v in r.coverage.items()}},
        "channel_cases": len(chan_cases),
        "exhaustive": False,
    })
    ctx.assumptions += ["projection Python object <-> model value (mbt/pyval.py) is trusted",
                        "float bit patterns are observed with struct.pack('!d')",
                        "TLC-evaluated reference encoder/decoder spec/Serializer.tla is the oracle"]
    return "model_checking"
