"""C13 -- loading untrusted bytes is total, typed-error-only and side-effect free (DESIGN.md 5, C13)."""

from __future__ import annotations

import itertools
import random

from drivers import sercommon as sc
from mbt import pyval

FUZZ_ACTIONS = ["LoadConst", "LoadInt", "LoadLongInt", "LoadFloat", "LoadBytes", "LoadStr", "NewList", "NewDict",
                "SetItem", "BuildColl", "LoadChannel", "Stop", "Unknown", "Exhausted"]


def run(ctx):
    rng = random.Random(ctx.seed + 13)
    r1 = sc.model_check(ctx, "MCSerFuzz", "MCSerFuzz.cfg" if ctx.quick else "MCSerFuzz4.cfg", FUZZ_ACTIONS)
    r2 = sc.model_check(ctx, "MCSerFuzz", "MCSerFuzzTok3.cfg", FUZZ_ACTIONS, timeout=3000)
    tokens = sc.tlc_tokens(ctx)
    inputs = []  # (bytes, prefix?)
    # (a) TLC's structured soups, replayed: all of length <= 2 tokens, sampled (quick) / all (thorough) of length 3
    for n in (0, 1, 2):
        for combo in itertools.product(tokens, repeat=n):
            inputs.append(([2] + [b for t in combo for b in t], False))
    triples = list(itertools.product(range(len(tokens)), repeat=3))
    if ctx.quick:
        triples = rng.sample(triples, 6000)
    for tr in triples:
        inputs.append(([2] + [b for i in tr for b in tokens[i]], False))
    # raw byte soups over the fuzz alphabet
    alpha = list(range(64, 85)) + [90, 0, 1, 2, 255, 128, 48, 45]
    for n in (1, 2):
        for combo in itertools.product(alpha, repeat=n):
            inputs.append(([2] + list(combo), False))
    for _ in range(3000 if ctx.quick else 40000):
        inputs.append(([2] + [rng.choice(alpha) for _ in range(rng.randint(3, 12))], False))
    for _ in range(300):
        inputs.append(([rng.randint(0, 255) for _ in range(rng.randint(0, 10))], False))
    # (b) mutations and all strict prefixes of valid dumps
    import execnet.gateway_base as gb

    def _small(v):
        try:
            return len(gb.dumps(v)) < 200
        except Exception:
            return False

    bases = [v for v in sc.special_values() if _small(v)]
    bases += [sc.rand_value(rng, depth=rng.randint(1, 3), allow_bad=False, width=3) for _ in range(25 if ctx.quick else 250)]
    nmut = 0
    for v in bases:
        try:
            d = gb.dumps(v)
        except Exception:
            continue
        ms = sc.mutations(d, rng, limit=12 if ctx.quick else 60)
        nmut += len(ms)
        inputs += ms
    # a few large valid dumps (payloads above any internal chunking threshold) and their truncations
    for v in (b"x" * 70000, [b"z" * 65537, 1], {"k": b"q" * 65536}):
        d = gb.dumps(v)
        inputs.append((list(d), False))
        inputs.append((list(d[:-1]), True))
        inputs.append((list(d[: len(d) // 2]), True))
    # malformed streams whose stack holds very deeply nested containers when the error is detected (error paths that format or walk the
    # stack must not trade the typed error for a RecursionError), and STOP on an empty stack
    def i4(n):
        return list(n.to_bytes(4, "big"))

    deep_tuple = [2, 76] + ([64] + i4(1)) * 3000            # NONE, then 3000 x BUILDTUPLE(1): deeper than repr() / recursive walks can go
    inputs.append((deep_tuple + [76, 81], False))            # ... plus a second item, STOP: stack size 2
    inputs.append((deep_tuple + [80, 81], False))            # ... SETITEM on a non-container
    inputs.append(([2, 81], False))
    inputs.append(([81], False))
    seen = set()
    loads = []
    for inp, pre in inputs:
        key = (bytes(inp), pre)
        if key in seen:
            continue
        seen.add(key)
        cfg = rng.choice([[False, False], [True, False], [False, True], [True, True]])
        # load() from a stream: BytesIO, an object that offers nothing but read(n), a buffered binary file object
        loads.append({"inp": inp, "cfg": cfg, "prefix": pre, "stream": rng.choice([False] * 7 + [True, "readonly", "buffered"])})
    # every length-prefixed opcode with length fields of every sign and size class, through each kind of stream
    ops = {n: getattr(gb.opcode, n)[0] for n in dir(gb.opcode) if not n.startswith("_") and isinstance(getattr(gb.opcode, n), bytes)}
    for name in ("BYTES", "PY2STRING", "PY3STRING", "UNICODE", "LONGINT", "NEWLIST", "BUILDTUPLE", "SET", "FROZENSET", "CHANNEL"):
        if name not in ops:
            continue
        for n in (-1, -2, -129, -(2 ** 31), 3, 65536, 65537, 70000, 2 ** 24):
            if n > 70000 and name not in ("BYTES", "PY2STRING", "PY3STRING", "UNICODE", "LONGINT"):
                continue  # (a container that large is the known over-commit finding, not a question about the stream)
            for tail in ([], [ops["STOP"]], [49, 50, 51, ops["STOP"]]):
                inp = [2, ops[name]] + list((n % 2 ** 32).to_bytes(4, "big")) + tail
                for kind in (False, True, "readonly", "buffered"):
                    loads.append({"inp": inp, "cfg": [False, False], "prefix": False, "stream": kind})
    cases = sc.record(ctx, {"load": loads})["cases"]
    verdicts = sc.judge(ctx, cases)
    nontrivial = set()
    by_verdict: dict = {}
    for c, vd in zip(cases, verdicts):
        if len(c["inp"]) >= 3:
            nontrivial.add(bytes(c["inp"]))
        by_verdict[vd] = by_verdict.get(vd, 0) + 1
        if vd == "ok" or vd.startswith("C12.") or vd.startswith("C01."):
            continue
        fkey = None
        if vd == "C13.overcommit":
            fkey = "overcommit"
        elif vd == "C13.exception-class":
            fkey = "exc:" + c["real"][1]
        ctx.violation(f"{vd}: {sc.short(c, 300)}", c, key=fkey)
    ctx.coverage.update({
        "states": r1.distinct + r2.distinct, "transitions": r1.generated + r2.generated,
        "traces_validated_against_impl": len(cases),
        "evaluations": len(cases), "distinct_nontrivial": len(nontrivial),
        "rule": "inputs = TLC token soups (MCSerFuzz!Tokens, all of <=2 tokens, sampled/all of 3) + raw opcode soups + random bytes + every strict prefix "
                "and one-byte substitution/deletion/insertion of valid dumps; each loaded by the real loads()/load() under an audit hook in an "
                "address-space-limited child; verdict by spec/SerCases.tla!LoadVerdict; non-trivial = at least 3 bytes, distinct by bytes",
        "samples": [sc.short(c, 200) for c in cases[50:52] + cases[-2:]],
        "verdict_histogram": by_verdict, "mutation_inputs": nmut,
        "tlc": {"raw": {k: v[1] for k, v in r1.coverage.items()}, "tokens": {k: v[1] for k, v in r2.coverage.items()}},
    })
    ctx.assumptions += ["side effects are observed through sys.addaudithook events (exec, compile, import, open, os.*, subprocess, socket)",
                        "malformed input that the real loader accepts leniently (returns some supported value) is allowed by the statement"]
    return "model_checking"
