"""Shared machinery of C01 / C12 / C13: TLC model checking of the serializer spec,
enumeration of cases from the spec (M3), recording of the real code (S2), verdicts by TLC (M5)."""

from __future__ import annotations

import json
import os
import random
import struct
import subprocess

from mbt import batch, pyval, tlc
from drivers import ser_recorder

PYENV = "/root/.pyenv/versions"
INTERPRETERS = ["3.10.13", "3.11.7", "3.12.1", "3.13.0"]


# ----------------------------------------------------------------- TLC side
def model_check(ctx, module, cfg, need_actions, timeout=1500):
    r = tlc.run(module, cfg, scratch=ctx.scratch, coverage=True, timeout=timeout)
    if not r.ok:
        if r.violated and r.violated != "error":
            ctx.machinery(f"TLC: {module}/{cfg}: {r.violated} violated on the reference design:\n{r.out[-1500:]}")
        ctx.machinery(f"TLC failed on {module}/{cfg}:\n{r.out[-2000:]}")
    dead = [a for a in need_actions if r.coverage.get(a, (0, 0))[1] == 0]
    if dead:
        ctx.machinery(f"TLC: actions never taken in {module}/{cfg}: {dead} (vacuous check)")
    ctx.note(f"TLC {module}/{cfg}: {r.generated} states, {r.distinct} distinct, depth {r.depth}, {r.wall:.1f}s")
    return r


def tlc_values(ctx, big=False):
    r = tlc.run("SerEnum", "Batch.cfg", scratch=ctx.scratch, env={"WHAT": "values", "BIG": "1" if big else "0"}, workers=1)
    vals = tlc.printed_values(r.out, "values")
    if not vals:
        ctx.machinery("SerEnum printed no values:\n" + r.out[-2000:])
    return [pyval.from_tla(v) for v in sorted(vals[0], key=repr)]


def tlc_tokens(ctx):
    r = tlc.run("SerEnum", "Batch.cfg", scratch=ctx.scratch, env={"WHAT": "x", "BIG": "0"}, workers=1)
    vals = tlc.printed_values(r.out, "tokens")
    if not vals:
        ctx.machinery("SerEnum printed no tokens:\n" + r.out[-2000:])
    return [list(t) for t in sorted(vals[0])]


# ------------------------------------------------------------- generators
def rand_int(rng):
    k = rng.random()
    if k < 0.25:
        return rng.choice([0, 1, -1, 2**31 - 1, 2**31, 2**31 + 1, -(2**31), -(2**31) - 1, -(2**31) + 1, 2**32, -(2**32), 2**63, -(2**63) - 1, 255, 256, -255])
    if k < 0.5:
        return rng.randint(-(2**33), 2**33)
    if k < 0.8:
        return rng.choice([1, -1]) * rng.getrandbits(rng.choice([8, 31, 32, 33, 64, 100, 1000]))
    return rng.choice([1, -1]) * 10 ** rng.randint(9, 400)


def rand_str(rng, maxlen=12, allow_surrogate=True):
    n = rng.randint(0, maxlen)
    out = []
    for _ in range(n):
        k = rng.random()
        if k < 0.4:
            c = rng.randint(0, 127)
        elif k < 0.6:
            c = rng.randint(128, 0x7FF)
        elif k < 0.8:
            c = rng.choice([rng.randint(0x800, 0xD7FF), rng.randint(0xE000, 0xFFFF)])
        else:
            c = rng.randint(0x10000, 0x10FFFF)
        out.append(chr(c))
    if rng.random() < 0.05:
        out.insert(0, "\ufeff")  # a leading byte-order mark is an ordinary character
    if allow_surrogate and rng.random() < 0.06:  # a lone surrogate somewhere: not UTF-8 encodable
        out.insert(rng.randint(0, len(out)), chr(rng.choice([0xD800, 0xDBFF, 0xDC00, 0xDC80, 0xDCFF, 0xDFFF, rng.randint(0xD800, 0xDFFF)])))
    return "".join(out)


def rand_float(rng):
    if rng.random() < 0.3:
        return rng.choice([0.0, -0.0, float("inf"), float("-inf"), float("nan"), 1.5, -2.25, 5e-324, 1.7976931348623157e308])
    b = bytes(rng.getrandbits(8) for _ in range(8))
    # signalling NaNs may be quieted when copied through FP registers: keep bit 51 set for NaNs
    if (b[0] & 0x7F) == 0x7F and (b[1] & 0xF0) == 0xF0:
        b = bytes([b[0], b[1] | 0x08]) + b[2:]
    return struct.unpack("!d", b)[0]


def rand_leaf(rng, allow_bad=True):
    k = rng.random()
    if k < 0.08:
        return None
    if k < 0.16:
        return rng.random() < 0.5
    if k < 0.40:
        return rand_int(rng)
    if k < 0.52:
        return rand_float(rng)
    if k < 0.57:
        return complex(rand_float(rng), rand_float(rng))
    if k < 0.70:
        return bytes(rng.getrandbits(8) for _ in range(rng.randint(0, 20)))
    if k < 0.93 or not allow_bad:
        return rand_str(rng, allow_surrogate=allow_bad)
    return rng.choice([pyval.Unsupported(), pyval.IntSub(3), pyval.StrSub("s"), pyval.ListSub([1]), pyval.DictSub(), "lone\ud800", bytearray(b"x"), range(3), 1.5j.__class__, memoryview(b"ab")])


def rand_hashable(rng, depth, allow_bad):
    if depth <= 0 or rng.random() < 0.6:
        v = rand_leaf(rng, allow_bad)
        try:
            hash(v)
        except TypeError:
            return 0
        return v
    if rng.random() < 0.5:
        return tuple(rand_hashable(rng, depth - 1, allow_bad) for _ in range(rng.randint(0, 3)))
    return frozenset(rand_hashable(rng, depth - 1, allow_bad) for _ in range(rng.randint(0, 3)))


def rand_value(rng, depth=3, allow_bad=True, width=4):
    if depth <= 0 or rng.random() < 0.35:
        return rand_leaf(rng, allow_bad)
    k = rng.randint(0, 4)
    n = rng.randint(0, width)
    if k == 0:
        return [rand_value(rng, depth - 1, allow_bad, width) for _ in range(n)]
    if k == 1:
        return tuple(rand_value(rng, depth - 1, allow_bad, width) for _ in range(n))
    if k == 2:
        return {rand_hashable(rng, depth - 1, allow_bad): rand_value(rng, depth - 1, allow_bad, width) for _ in range(n)}
    if k == 3:
        return {rand_hashable(rng, depth - 1, allow_bad) for _ in range(n)}
    return frozenset(rand_hashable(rng, depth - 1, allow_bad) for _ in range(n))


def special_values(extended=False):
    big = [2**31 - 1, 2**31, -(2**31), -(2**31) - 1, -(2**31) - 2, -(10**12), 10**300, -(10**300), -(2**64)]
    deep = None
    for _ in range(30):
        deep = [deep]
    return big + [deep, [[]], ((),), {(): frozenset()}, {frozenset({(1, 2)}): {(3,): [4]}},
                  {True: 1}, {1: True}, [True, 1, 1.0, False, 0, 0.0, -0.0], "", b"", "\U0010ffff", "\x00",
                  list(range(40)), {str(i): i for i in range(30)}, b"\x00" * 300, "é" * 200,
                  "\ud800", "\udbff", "\udc00", "\udc80", "a\udcffb", "\udfff", ["\udc80"], {"\udcfe": 1}, ("x", "\udc81"),
                  "\ufeff", "\ufeffabc", {"\ufeffk": 1, "k": 2}, ["\ufeff\ufeff"], "\ufffe", "\x00\ufeff",
                  b"x" * 70000, [b"z" * 65537, b"w" * 65536],
                  float("nan"), [float("nan")], (float("inf"), -0.0), complex(float("nan"), -0.0),
                  {float("nan"): 1, float("nan"): 2}, {(float("nan"),): 1, (float("nan"), 1): 2}, {float("nan"), float("nan"), 1.0}] + (ordered_pairs() if extended else [])


def subclass_models():
    """model values in which an instance of a subclass of a supported builtin (unsupported: type-exactness) stands alone, or directly
    behind / in front of an instance of its base type inside a list, a tuple or a dict"""
    base = {"int": ["int", False, [1]], "str": ["str", [120]], "list": ["list", []], "dict": ["dict", []], "float": ["float", [63, 248, 0, 0, 0, 0, 0, 0]],
            "bytes": ["bytes", [98]], "tuple": ["tuple", []], "set": ["set", []]}
    out = []
    for k, b in base.items():
        bad = ["bad", k]
        out += [bad, ["list", [b, bad]], ["list", [bad, b]], ["tuple", [b, bad]], ["dict", [[["str", [97]], b], [["str", [98]], bad]]], ["list", [b, b, bad, b]]]
    return out


def ordered_pairs():
    """every ordered pair of leaves of different types next to each other in a list, a tuple and as dict values (an encoder that
    picks the routine for an item from its neighbour shows here), and both signs of zero in either order"""
    leaves = [None, True, False, 0, 1, 2**40, 1.5, 0.0, -0.0, 1j, complex(-0.0, 0.0), b"x", "x", (), [], {}, frozenset()]
    out = []
    for a in leaves:
        for b in leaves:
            if type(a) is not type(b) or (a == 0 and b == 0 and repr(a) != repr(b)):
                out.append([a, b])
    out += [(1, True), (True, 1), {"a": 1, "b": True}, {"a": 0.0, "b": -0.0}, [0.0, -0.0, 0.0], [-0.0, 0.0], [complex(0.0, -0.0), complex(-0.0, 0.0)], [1, True, 2, False]]
    return out


# --------------------------------------------------------------- mutations
MUT_BYTES = [0, 1, 2, 255, 128, 81, 80, 75, 64, 74, 66, 72, 78, 48]


def mutations(valid: bytes, rng, limit=None):
    """strict prefixes (flagged), substitutions, deletions, insertions of one byte"""
    out = []
    n = len(valid)
    for k in range(n):
        out.append((list(valid[:k]), True))
    pos = list(range(n))
    if limit and n > limit:
        pos = sorted(rng.sample(pos, limit))
    for i in pos:
        out.append((list(valid[:i] + valid[i + 1:]), False))
        for b in MUT_BYTES:
            if b != valid[i]:
                out.append((list(valid[:i] + bytes([b]) + valid[i + 1:]), False))
            out.append((list(valid[:i] + bytes([b]) + valid[i:]), False))
    return out


# ------------------------------------------------------- other interpreters
def _limit_as():
    import resource

    resource.setrlimit(resource.RLIMIT_AS, (3 << 30, 3 << 30))


def record(ctx, job, version=None, release=False):
    """Run the recorder in a child (address space limited to 3 GB so that length-field
    memory bombs end in MemoryError instead of eating the machine)."""
    exe = "/venv/bin/python" if version is None else os.path.join(PYENV, version, "bin", "python")
    version = (version or "venv") + ("-release" if release else "")
    if not os.path.exists(exe):
        return None
    jp = os.path.join(ctx.scratch, f"job-{version}.json")
    op = os.path.join(ctx.scratch, f"out-{version}.json")
    json.dump(job, open(jp, "w"))
    env = dict(os.environ, PYTHONPATH=(os.environ.get("VERIF_REPO") or "/repo") + "/src:/verif", PYTHONDONTWRITEBYTECODE="1")
    if release:  # the execnet release installed in the venv's site-packages, not the tree under test
        env.update(PYTHONPATH="/verif", SER_RELEASE="1")
    p = subprocess.run([exe, os.path.join("/verif/drivers/ser_recorder.py"), jp, op], env=env, capture_output=True, text=True, timeout=1800, preexec_fn=_limit_as)
    if p.returncode != 0:
        ctx.machinery(f"recorder under {version} failed: {p.stderr[-1500:]}")
    res = json.load(open(op))
    os.unlink(jp)
    os.unlink(op)
    return res


# ------------------------------------------------------------------ judging
def judge(ctx, cases, chunks=16):
    slim = [{k: v for k, v in c.items() if k in ("k", "v", "internal", "out", "back", "inp", "cfg", "real", "prefix", "effects", "sendres", "marker")} for c in cases]
    return batch.judge("SerCases", slim, ctx.scratch, chunks=chunks)


def has_huge_int(m, digits=4300):
    if m[0] == "int":
        return len(m[2]) > digits
    if m[0] in ("list", "tuple", "set", "frozenset"):
        return any(has_huge_int(x, digits) for x in m[1])
    if m[0] == "dict":
        return any(has_huge_int(k, digits) or has_huge_int(v, digits) for k, v in m[1])
    return False


def short(case, n=160):
    s = json.dumps({k: v for k, v in case.items() if k != "effects"})
    return s if len(s) <= n else s[:n] + "..."
