"""C16 -- every transport is observationally equivalent for channel programs."""

from __future__ import annotations

import json

from drivers import transport_common as tc
from mbt import batch, tlc


def run(ctx):
    r = tlc.run("MCProxy", "MCProxy.cfg", scratch=ctx.scratch, coverage=True, timeout=1800, parse_trace=False)
    if not r.ok:
        ctx.machinery(f"TLC MCProxy: {r.violated} {r.error[:500]}")
    dead = [a for a, (d, t) in r.coverage.items() if t == 0]
    if dead:
        ctx.machinery(f"TLC MCProxy: actions never taken {dead}")
    # the control plane shares the forwarder's receiver thread with the data plane: a pending wait request must not block a kill
    pc = tlc.run("MCProxyCtl", "PC.cfg", scratch=ctx.scratch, timeout=600, parse_trace=False)
    pe = tlc.run("MCProxyCtl", "PC_exits.cfg", scratch=ctx.scratch, timeout=600, parse_trace=False)
    if not (pc.ok and pe.ok):
        ctx.machinery(f"TLC MCProxyCtl: {pc.violated or pe.violated} {(pc.error or pe.error)[:400]}")
    pu = tlc.run("MCProxyCtl", "PC_unfixed.cfg", scratch=ctx.scratch, timeout=600, parse_trace=False)
    if not pu.violated or pu.violated == "error":
        ctx.machinery("TLC: the design that waits for the sub process inside the forwarder's receiver thread is not rejected (ProxyCtl vacuous)")
    ctx.note(f"TLC ProxyCtl: {pc.distinct + pe.distinct} states: a kill request reaches the process behind a pending wait request, every request is answered, data keeps moving; the in-receiver-thread design is killed by {pu.violated}")
    ctx.note(f"TLC MCProxy: {r.generated} states, {r.distinct} distinct: the proxied connection is a FIFO byte stream in both directions, control requests reach the sub; {r.wall:.1f}s")
    kinds = ["popen", "python", "socket", "via"]
    ems = ["thread", "main_thread_only", "gevent"]
    jobs = [("popen", "thread", None, ctx.seed, False, {})]
    for k in kinds:
        for em in ems:
            if (k, em) != ("popen", "thread"):
                jobs.append((k, em, None, ctx.seed, (not ctx.quick) and em == "thread", {}))
    # multi-MB items followed at once by more traffic (socket buffers fill, partial reads / writes happen)
    jobs += [(k, "thread", None, ctx.seed + 1, True, {}) for k in (kinds if not ctx.quick else ["popen", "socket", "via"])]
    # the stand-alone server script, second connection (the first one changed the directory and left)
    jobs += [("socket_standalone_second", "thread", None, ctx.seed, False, {}), ("socket_installvia_second", "thread", None, ctx.seed, False, {})]
    # a socket server hosted by a gevent gateway (cooperative reads and writes on the worker's side), small and multi-MB items
    try:
        import gevent  # noqa: F401

        jobs += [("socket_gevent_host", "gevent", None, ctx.seed, False, {}), ("socket_gevent_host", "gevent", None, ctx.seed + 1, True, {})]
    except ImportError:
        ctx.note("gevent not installed: no gevent-hosted socket worker")
    res, ctl = tc.run_matrix(jobs, [("thread", None), ("main_thread_only", None)])
    base = res[0]
    if base["err"]:
        ctx.machinery(f"baseline popen/thread run failed: {base['err']}")
    cases, metas = [], []
    for job, rr in zip(jobs[1:], res[1:]):
        ref = base["T"] if job[3:5] == jobs[0][3:5] else next(x["T"] for j, x in zip(jobs, res) if j[0] == "popen" and j[1] == "thread" and j[3:5] == job[3:5]) \
            if any(j[0] == "popen" and j[1] == "thread" and j[3:5] == job[3:5] for j in jobs) else None
        if ref is None:
            continue
        cases.append({"k": "transcript", "base": ref, "other": rr["T"], "transport": job[0], "execmodel": job[1], "isolated": False, "err": rr["err"]})
        metas.append({"transport": job[0], "execmodel": job[1], "big": job[4]})
    for (em, _py), c in zip([("thread", None), ("main_thread_only", None)], ctl):
        cases.append({"k": "control", "isolated": False, **c})
        metas.append({"control": em})
    verdicts = batch.judge("TransportCases", cases, ctx.scratch)
    hist = {}
    for c, m, vd in zip(cases, metas, verdicts):
        hist[vd] = hist.get(vd, 0) + 1
        if vd.startswith("HARNESS"):
            ctx.machinery(vd)
        if vd != "ok":
            ctx.violation(f"{vd}: {json.dumps(m)}", {"meta": m, "verdict": vd, "other": c.get("other", c)},
                          key="socket-ignores-execmodel" if vd == "C16.socket-worker-ignores-the-requested-execmodel" else None)
    from drivers import ssloop_part

    ssl = ssloop_part.run(ctx)
    ctx.coverage.update({
        "socketserver_loop": ssl,
        "states": r.distinct, "transitions": r.generated, "traces_validated_against_impl": len(cases),
        "evaluations": len(cases), "distinct_nontrivial": sum(1 for m in metas if m.get("transport") != "popen"),
        "rule": "the transcript program set (echo of every serialisable type and size, sub-channels, callback with endmarker, remote error, refused "
                "explicit close, function with kwargs, stdout/stderr floods, status, two concurrent senders) on {popen, popen//python=, socket//installvia, "
                "popen//via} x {thread, main_thread_only, gevent}, each compared entry by entry with the plain popen/thread transcript by TLC; wait/kill "
                "requests on proxied gateways observed through the sub's pid; non-trivial = not the baseline transport",
        "samples": [base["T"][:3], base["T"][-3:]], "matrix": [m for m in metas], "verdict_histogram": hist,
        "transcript_entries": len(base["T"]),
    })
    ctx.assumptions += ["equivalence is checked on deterministic (sequential request/response) programs; timing-dependent numbers are excluded from transcripts"]
    return "model_checking"
