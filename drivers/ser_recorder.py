"""Record what the real serializer does.  Stdlib + mbt.pyval only, so that it also runs
as a script under the other interpreters (3.10 .. 3.13) with PYTHONPATH=/repo/src:/verif.

    python ser_recorder.py job.json out.json

job: {"dump": [model values], "load": [{"inp": [...], "cfg": [a, b], "prefix": bool}]}
out: list of cases for spec/SerCases.tla
"""

from __future__ import annotations

import io
import json
import sys

from mbt import pyval

_effects: list = []
_recording = False
_installed = False
_INTERESTING = (
    "exec", "compile", "import", "open", "os.system", "os.exec", "os.spawn", "os.posix_spawn",
    "subprocess.Popen", "socket.connect", "socket.bind", "os.remove", "os.rename", "os.mkdir",
    "ctypes.dlopen", "pty.spawn", "os.putenv", "os.fork", "os.kill",
)


def _hook(event, args):
    if _recording and event.startswith(_INTERESTING):
        _effects.append(event)


def install_audit():
    global _installed
    if not _installed:
        sys.addaudithook(_hook)
        _installed = True
        # warm up lazily imported codecs so that their import is not mistaken for a side effect
        for enc in ("utf-8", "latin-1", "ascii"):
            b"a".decode(enc)
            "a".encode(enc)


def exc_name(e: BaseException) -> str:
    t = type(e)
    if t.__module__ in ("builtins", "execnet.gateway_base"):
        return t.__name__
    return f"{t.__module__}.{t.__name__}"


def record_dump(gb, m, mode: str):
    """mode: 'dumps' | 'stream' | 'internal'"""
    obj = pyval.from_model(m)
    v = pyval.to_model(obj)  # iteration order of the actual set objects
    internal = mode == "internal"
    try:
        if mode == "dumps":
            b = gb.dumps(obj)
        elif mode == "stream":
            f = io.BytesIO()
            gb.dump(f, obj)
            b = f.getvalue()
        else:
            b = gb.dumps_internal(obj)
        out = ["bytes", list(b)]
    except BaseException as e:
        return {"k": "dump", "v": v, "internal": internal, "out": ["exc", exc_name(e)], "back": ["na"], "mode": mode}
    try:
        if mode == "dumps":
            r = gb.loads(b)
        elif mode == "stream":
            # several records in one stream: each load() consumes exactly one
            two = io.BytesIO()
            gb.dump(two, obj)
            gb.dump(two, obj)
            two.seek(0)
            r = gb.load(two)
            r2 = gb.load(two)
            if type(r2) is not type(r) or two.read() != b"":
                raise AssertionError("second record of the stream has another type or bytes are left over")
        else:
            r = gb.loads_internal(b)
        back = ["value", pyval.to_model(r)]
    except BaseException as e:
        back = ["exc", exc_name(e)]
    return {"k": "dump", "v": v, "internal": internal, "out": out, "back": back, "mode": mode}


class _ReadOnly:
    """the least a stream has to offer to load(): read(n)"""

    def __init__(self, b):
        self._read = io.BytesIO(b).read

    def read(self, n):
        return self._read(n)


def _stream(kind, b):
    if kind == "readonly":
        return _ReadOnly(b)
    if kind == "buffered":  # what open(path, "rb"), os.fdopen(pipe) and socket.makefile("rb") return: refuses negative sizes except -1
        return io.BufferedReader(io.BytesIO(b))
    return io.BytesIO(b)


def record_load(gb, inp, cfg, prefix=False, stream=False, defaults=False):
    global _recording
    install_audit()
    b = bytes(inp)
    eff: list = []
    for _attempt in (0, 1):
        del _effects[:]
        _recording = True
        try:
            try:
                if defaults:  # the documented defaults of load() / loads() are (False, False): called without the keyword arguments
                    r = gb.load(_stream(stream, b)) if stream else gb.loads(b)
                elif stream:
                    r = gb.load(_stream(stream, b), py2str_as_py3str=cfg[0], py3str_as_py2str=cfg[1])
                else:
                    r = gb.loads(b, py2str_as_py3str=cfg[0], py3str_as_py2str=cfg[1])
                real = ["value", r]
            except BaseException as e:
                real = ["exc", exc_name(e)]
        finally:
            _recording = False
        eff = list(_effects)
        if not eff:
            break
    if real[0] == "value":
        if _huge(real[1]):
            real = ["huge"]
        else:
            real = ["value", pyval.to_model(real[1])]
    return {"k": "load", "inp": list(inp), "cfg": [bool(cfg[0]), bool(cfg[1])], "real": real,
            "prefix": bool(prefix), "effects": eff}


def _huge(o, budget=[0]):
    """more than 200k nodes: only possible from a length-field memory bomb (inputs are small)"""
    budget = [200000]

    def walk(x):
        if isinstance(x, (list, tuple, set, frozenset)):
            budget[0] -= len(x)
            if budget[0] < 0:
                return True
            return any(walk(y) for y in x if isinstance(y, (list, tuple, set, frozenset, dict)))
        if isinstance(x, dict):
            budget[0] -= len(x)
            if budget[0] < 0:
                return True
            return any(walk(y) for kv in x.items() for y in kv if isinstance(y, (list, tuple, set, frozenset, dict)))
        return False

    return walk(o)


def record_threads(gb, models, nthreads=8, rounds=30):
    """the same values serialized by several threads at once (every Channel.send serializes on the caller's thread): what each call
    returns must still be the encoding of its own value.  One dump case per value: the bytes of a concurrent call that differ from the
    single-threaded ones if there was such a call, else the single-threaded bytes."""
    import threading

    objs = [pyval.from_model(m) for m in models]
    funcs = [gb.dumps_internal if i % 2 == 0 else gb.dumps for i in range(len(objs))]
    base, odd = [], {}
    for f, o in zip(funcs, objs):
        try:
            base.append(f(o))
        except BaseException as e:  # noqa: BLE001
            base.append(e)
    old = sys.getswitchinterval()
    sys.setswitchinterval(1e-6)
    start = threading.Barrier(nthreads)

    def work(t):
        start.wait()
        for _ in range(rounds):
            for i in range(t, len(objs), max(1, nthreads // 2)):   # neighbours overlap: two threads per value
                if isinstance(base[i], BaseException) or i in odd:
                    continue
                try:
                    b = funcs[i](objs[i])
                except BaseException as e:  # noqa: BLE001
                    odd[i] = e
                    continue
                if b != base[i]:
                    odd[i] = b

    ths = [threading.Thread(target=work, args=(t,)) for t in range(nthreads)]
    try:
        for t in ths:
            t.start()
        for t in ths:
            t.join()
    finally:
        sys.setswitchinterval(old)
    cases = []
    for i, o in enumerate(objs):
        got = odd.get(i, base[i])
        internal = funcs[i] is gb.dumps_internal
        if isinstance(got, BaseException):
            cases.append({"k": "dump", "v": pyval.to_model(o), "internal": internal, "out": ["exc", exc_name(got)], "back": ["na"], "mode": "threads"})
            continue
        try:
            r = gb.loads_internal(got) if internal else gb.loads(got)
            back = ["value", pyval.to_model(r)]
        except BaseException as e:  # noqa: BLE001
            back = ["exc", exc_name(e)]
        cases.append({"k": "dump", "v": pyval.to_model(o), "internal": internal, "out": ["bytes", list(got)], "back": back, "mode": "threads"})
    return cases


def run_job(job):
    import execnet.gateway_base as gb

    import os

    if os.environ.get("SER_RELEASE"):
        # the released execnet installed in the venv (an independent binary of the same dump format)
        assert "site-packages" in gb.__file__, gb.__file__
    else:
        assert gb.__file__.startswith((os.environ.get("VERIF_REPO") or "/repo") + "/src/"), gb.__file__
    cases = []
    for m in job.get("dump", []):
        for mode in job.get("modes", ["dumps"]):
            cases.append(record_dump(gb, m, mode))
    if job.get("threads"):
        cases += record_threads(gb, job["threads"])
    for ld in job.get("load", []):
        cases.append(record_load(gb, ld["inp"], ld["cfg"], ld.get("prefix", False), ld.get("stream", False), ld.get("defaults", False)))
    return cases


if __name__ == "__main__":
    job = json.load(open(sys.argv[1]))
    with open(sys.argv[2], "w") as f:
        import execnet

        json.dump({"python": sys.version.split()[0], "execnet": getattr(execnet, "__version__", "?"), "cases": run_job(job)}, f)
