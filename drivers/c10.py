"""C10 -- callback receivers see every item once, in order, then one endmarker"""

from __future__ import annotations

import random

from drivers import gwcommon as gc
from drivers import gwmodel, gwprograms
from sim import gwrun

LINE_FUNCS = ["setcallback", "_local_receive", "_local_close", "_no_longer_opened", "_finished_receiving", "receive", "reconfigure"]


def run(ctx):
    rng = random.Random(ctx.seed + 10)
    mc = gwmodel.check(ctx, ["GW_cb", "GW_cb_recv"] if ctx.quick else ["GW_cb", "GW_cb_recv", "GW_all_big"], mutants=[])
    progs = gwprograms.c10_programs(rng, 10 if ctx.quick else 80)
    opts = [{"post_yields": True}, {"post_yields": True, "chunking": "random"}, {"post_yields": False},
            {"post_yields": True, "line_level": LINE_FUNCS}]
    # the whole family once more on a gateway whose string coercion was reconfigured (nothing about channels, closes, errors or
    # remote_exec may depend on the coercion switches)
    opts.append({"post_yields": True, "reconfigure": (False, True)})
    # the real SocketIO over the scripted socket (partial sends, chunked receives)
    opts.append({"post_yields": True, "transport": "socket", "chunking": "random"})
    if not ctx.quick:
        opts.append({"post_yields": False, "transport": "socket"})
        opts.append({"post_yields": False, "reconfigure": (True, True)})
    jobs = gc.jobs_for(progs, 24 if ctx.quick else 120, 10 if ctx.quick else 40, ctx.seed, opts)
    # preemption-bounded systematic search (every schedule with <= 1 preemption, yields before and after each operation)
    searches = [(p, 1, 250 if ctx.quick else 6000, {"post_yields": True}) for p in progs[: 6 if ctx.quick else 14]]
    life = gc.chanlife_part(ctx, ["C10."], 3 if ctx.quick else 5)
    res = gc.run_and_judge(ctx, jobs, ["C10."], lambda evs: sum(1 for e in evs if e["ev"] == "cb") >= 2, None, searches=searches)
    gwrun.close_pool()
    ctx.coverage.update({
        "states": mc["states"], "transitions": mc["transitions"],
        "traces_validated_against_impl": res["distinct"], "evaluations": res["runs"], "distinct_nontrivial": res["nontrivial"],
        "rule": "setcallback placed before / between / after in-flight items and the peer's close (the schedule decides where relative to the receiver thread), endings by close, error, end of body and gateway exit, with and without endmarker, callback channels whose object was dropped, two callback channels at once; run on the real Gateway + WorkerGateway pair over real Popen2IO/SocketIO with scripted pipes under seeded random / PCT / "
                "non-preemptive schedules and a preemption-bounded systematic search (<= 1 preemption) for the first programs, yielding before and after every synchronisation and IO operation and, in a quarter of the runs, before "
                "every source line of " + ", ".join(LINE_FUNCS) + "; distinct by event trace; non-trivial = the callback was invoked at least twice",
        "samples": [res["sample"]], "programs": len(progs), "verdict_histogram": res["hist"],
        "other_property_rejections": res["other_property_rejections"], "tlc": mc["detail"],
        "bounded_search": {"programs": res["bounded_searches"], "runs": res["bounded_search_runs"], "finished_exhaustively": res["bounded_searches_finished"]},
    })
    ctx.coverage["chanlife_replay"] = life
    ctx.assumptions += gc.ASSUMPTIONS
    return "model_checking"
