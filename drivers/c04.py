"""C04 -- connection loss at any byte never hangs or corrupts the survivor."""

from __future__ import annotations

import json
import os
import random

from drivers import gwcommon as gc
from drivers import gwmodel, gwprograms
from sim import gwrun

LINE_FUNCS = ["_thread_receiver", "_finished_receiving", "_local_close", "_no_longer_opened", "from_io", "read", "new", "newchannel"]


def _loss_job(job):
    import sys

    sys.stderr = open(os.devnull, "w")
    from real import loss_real

    return loss_real.run_case(*job)


def real_part(ctx):
    """the worker process of a real popen / socket / via gateway is SIGKILLed in mid-conversation (also behind an execnet-less interpreter)"""
    import multiprocessing as mp

    from drivers import transport_common as tc
    from mbt import batch

    iso = [c for v, c in sorted(tc.ISOLATED.items()) if os.path.exists(c[0])]
    jobs = [(kind, "thread", None) for kind in ("popen", "socket", "via")] + [(kind, "thread", None, "halfclose") for kind in ("popen", "via", "socket")]
    if iso:
        jobs += [("via", "thread", iso[-1]), ("python", "thread", iso[0])]
    if not ctx.quick:
        # (the conversation runs four remote_execs at once: not a main_thread_only scenario; what is observed is the initiator anyway)
        jobs += jobs * 5
    with mp.get_context("spawn").Pool(min(8, len(jobs)), maxtasksperchild=1) as pool:
        outs = pool.map(_loss_job, jobs, chunksize=1)
    fields = ("err", "blocked_done", "blocked_receive", "blocked_waitclose", "items", "later_receive", "receive_again", "later_waitclose", "callback",
              "joined", "send", "remote_exec", "newchannel", "hasreceiver", "blocked_fileread", "file")
    dflt = {"err": "", "blocked_done": False, "blocked_receive": "", "blocked_waitclose": "", "items": [], "later_receive": "", "receive_again": "",
            "later_waitclose": "", "callback": [], "joined": False, "send": "", "remote_exec": "", "newchannel": "", "hasreceiver": True, "blocked_fileread": "", "file": []}
    verdicts = batch.judge("LossCases", [{k: o.get(k, dflt[k]) for k in fields} for o in outs], ctx.scratch)
    hist = {}
    for o, vd in zip(outs, verdicts):
        hist[vd] = hist.get(vd, 0) + 1
        if vd != "ok":
            ctx.violation(f"{vd}: {json.dumps(o)[:500]}", o)
    return {"cases": len(outs), "kinds": sorted({o["kind"] for o in outs}), "verdict_histogram": hist}


def run(ctx):
    rng = random.Random(ctx.seed + 4)
    mc = gwmodel.check(ctx, ["GW_data", "GW_cb"] if ctx.quick else ["GW_data", "GW_err", "GW_cb", "GW_cb_recv", "GW_data_big"])
    progs = gwprograms.c04_programs()
    # measure the worker->initiator stream of each program (uncut run)
    probe = gwrun.run_many([(p, ("first",), {"post_yields": False}) for p in progs])
    jobs = []
    offsets_total = 0
    for p, pr in zip(progs, probe):
        if "harness_error" in pr or "harness_hang" in pr:
            ctx.machinery(pr.get("harness_error", "probe run hung")[-1200:])
        L = pr["wi_bytes"]
        bounds = set(pr["wi_frames"])
        offsets = list(range(0, L + 1))
        offsets_total += len(offsets)
        for n in offsets:
            for mode in ("cut", "die"):
                for transport in ("popen", "socket"):
                    if ctx.quick and transport == "socket" and n % 3 and n not in bounds:
                        continue
                    base = {"post_yields": True, "transport": transport, "cut": ("w>i", n) if mode == "cut" else ("w>i", n, "die")}
                    jobs.append((p, ("first",), base))
                    nr = 2 if ctx.quick else 12
                    for k in range(nr):
                        o = dict(base)
                        if k % 2:
                            o["chunking"] = "random"
                        if k % 4 == 2:
                            o["line_level"] = LINE_FUNCS
                        jobs.append((p, ("random", ctx.seed * 977 + n * 31 + k), o))
                    if not ctx.quick:
                        jobs.append((p, ("pct", ctx.seed + n, 3, 200), base))
    res = gc.run_and_judge(ctx, jobs, ["C04.", "C02.", "C03.EOF", "C03.item", "C10.endmarker", "C10.callback", "C08.", "C07.remote-error-without"],
                           lambda evs: any(e["ev"] == "cut" for e in evs) and any(e["ev"] == "ret" and e["res"] == "EOF" for e in evs))
    gwrun.close_pool()
    real = real_part(ctx)
    ctx.coverage["real_transports"] = real
    ctx.coverage.update({
        "states": mc["states"], "transitions": mc["transitions"],
        "traces_validated_against_impl": res["distinct"], "evaluations": res["runs"], "distinct_nontrivial": res["nontrivial"],
        "rule": "every byte offset 0..L of the worker->initiator stream of each program as the cut point (header, payload, between frames), in two "
                "modes (the connection breaks / the peer process dies), over the real Popen2IO and SocketIO, crossed with schedules and read chunkings; "
                "survivor has blocked receivers, waitclose callers and a callback with endmarker, then probes send/newchannel/remote_exec/hasreceiver "
                "after join(); non-trivial = the cut happened and some receiver then saw EOFError",
        "samples": [res["sample"]], "programs": len(progs), "cut_offsets": offsets_total, "verdict_histogram": res["hist"],
        "other_property_rejections": res["other_property_rejections"], "tlc": mc["detail"], "exhaustive": False,
    })
    ctx.assumptions += gc.ASSUMPTIONS + ["'from then on' is read as: from the moment join() has returned (receiver thread finished)"]
    return "model_checking"
