"""C04 -- connection loss at any byte never hangs or corrupts the survivor."""

from __future__ import annotations

import random

from drivers import gwcommon as gc
from drivers import gwmodel, gwprograms
from sim import gwrun

LINE_FUNCS = ["_thread_receiver", "_finished_receiving", "_local_close", "_no_longer_opened", "from_io", "read"]


def run(ctx):
    rng = random.Random(ctx.seed + 4)
    mc = gwmodel.check(ctx, ["GW_data", "GW_cb"] if ctx.quick else ["GW_data", "GW_err", "GW_cb", "GW_cb_recv", "GW_data_big"])
    progs = gwprograms.c04_programs()
    # measure the worker->initiator stream of each program (uncut run)
    probe = gwrun.run_many([(p, ("first",), {"post_yields": False}) for p in progs])
    jobs = []
    offsets_total = 0
    for p, pr in zip(progs, probe):
        if "harness_error" in pr:
            ctx.machinery(pr["harness_error"][-1200:])
        L = pr["wi_bytes"]
        bounds = set(pr["wi_frames"])
        offsets = list(range(0, L + 1))
        offsets_total += len(offsets)
        for n in offsets:
            for mode in ("cut", "die"):
                for transport in ("popen", "socket"):
                    if ctx.quick and transport == "socket" and n % 3 and n not in bounds:
                        continue
                    base = {"post_yields": True, "transport": transport, "cut": ("w>i", n) if mode == "cut" else ("w>i", n, "die")}
                    jobs.append((p, ("first",), base))
                    nr = 2 if ctx.quick else 12
                    for k in range(nr):
                        o = dict(base)
                        if k % 2:
                            o["chunking"] = "random"
                        if k % 4 == 2:
                            o["line_level"] = LINE_FUNCS
                        jobs.append((p, ("random", ctx.seed * 977 + n * 31 + k), o))
                    if not ctx.quick:
                        jobs.append((p, ("pct", ctx.seed + n, 3, 200), base))
    res = gc.run_and_judge(ctx, jobs, ["C04.", "C02.", "C03.EOF", "C03.item", "C10.endmarker", "C10.callback", "C08.", "C07.remote-error-without"],
                           lambda evs: any(e["ev"] == "cut" for e in evs) and any(e["ev"] == "ret" and e["res"] == "EOF" for e in evs))
    gwrun.close_pool()
    ctx.coverage.update({
        "states": mc["states"], "transitions": mc["transitions"],
        "traces_validated_against_impl": res["distinct"], "evaluations": res["runs"], "distinct_nontrivial": res["nontrivial"],
        "rule": "every byte offset 0..L of the worker->initiator stream of each program as the cut point (header, payload, between frames), in two "
                "modes (the connection breaks / the peer process dies), over the real Popen2IO and SocketIO, crossed with schedules and read chunkings; "
                "survivor has blocked receivers, waitclose callers and a callback with endmarker, then probes send/newchannel/remote_exec/hasreceiver "
                "after join(); non-trivial = the cut happened and some receiver then saw EOFError",
        "samples": [res["sample"]], "programs": len(progs), "cut_offsets": offsets_total, "verdict_histogram": res["hist"],
        "other_property_rejections": res["other_property_rejections"], "tlc": mc["detail"], "exhaustive": False,
    })
    ctx.assumptions += gc.ASSUMPTIONS + ["'from then on' is read as: from the moment join() has returned (receiver thread finished)"]
    return "model_checking"
