"""C11 -- workers never outlive their initiator."""

from __future__ import annotations

import json
import os
import random
import signal
import subprocess
import sys
import threading
import time

from mbt import batch, tlc
from real import procs

KNOWN = {"C11.gevent-worker-with-non-cooperative-body-never-notices": "gevent-noncooperative"}


def run_driver(scenarios, death, results, lock):
    env = dict(os.environ, PYTHONPATH="/repo/src:/verif")
    p = subprocess.Popen(["/venv/bin/python", "/verif/real/c11_driver.py", json.dumps({"scenarios": scenarios, "death": death})],
                         stdout=subprocess.PIPE, stderr=subprocess.DEVNULL, env=env, text=True)
    line = p.stdout.readline()
    if not line:
        with lock:
            results.append({"harness_error": f"driver produced no pid line (rc={p.poll()})"})
        p.kill()
        return
    info = json.loads(line)
    everything = set(info["all"])
    if death == "sigkill":
        os.kill(p.pid, signal.SIGKILL)
    t0 = time.monotonic()
    gone = procs.wait_gone([w["pid"] for w in info["workers"]], 24.0)
    rest = procs.wait_gone(everything, 2.0)
    for w in info["workers"]:
        sc = w["scenario"]
        with lock:
            results.append({"k": "orphan", "env": sc["env"], "execmodel": sc["execmodel"], "topo": sc["topo"], "death": death,
                            "gone_ms": gone[w["pid"]], "pid": w["pid"]})
    left = [q for q, ms in rest.items() if ms == -1]
    procs.reap(left + [p.pid])
    p.wait()


def bootstrap_orphan(results, lock):
    """the initiator dies between starting the child interpreter and sending the bootstrap source"""
    code = ("import os, sys, time\nimport execnet\nfrom execnet import gateway_io\nfrom execnet.xspec import XSpec\n"
            "from execnet.gateway_base import get_execmodel\n"
            "io = gateway_io.create_io(XSpec('popen'), get_execmodel('thread'))\nprint(io.popen.pid, flush=True)\ntime.sleep(60)\n")
    p = subprocess.Popen(["/venv/bin/python", "-c", code], stdout=subprocess.PIPE, stderr=subprocess.DEVNULL,
                         env=dict(os.environ, PYTHONPATH="/repo/src"), text=True)
    pid = int(p.stdout.readline())
    os.kill(p.pid, signal.SIGKILL)
    gone = procs.wait_gone([pid], 10.0)
    with lock:
        results.append({"k": "orphan", "env": "idle", "execmodel": "thread", "topo": "popen-during-bootstrap", "death": "sigkill", "gone_ms": gone[pid], "pid": pid})
    procs.reap([pid, p.pid])
    p.wait()


def run(ctx):
    rng = random.Random(ctx.seed + 11)
    r = tlc.run("Termination", "TM.cfg", scratch=ctx.scratch, timeout=600)
    if not r.ok:
        ctx.machinery(f"TLC Termination/TM: {r.violated} {r.error[:500]}")
    m = tlc.run("Termination", "TM_softexit.cfg", scratch=ctx.scratch, timeout=600, parse_trace=False)
    if not m.violated or m.violated == "error":
        ctx.machinery("TLC mutant TM_softexit (sys.exit instead of os._exit) not killed")
    ctx.note(f"TLC Termination/TM: {r.generated} states over all environments x time-outs x both halves; mutant TM_softexit killed by {m.violated}")
    envs = ["idle", "receive", "busy", "sleep", "swallow", "sigign", "thread", "sending"]
    base = []
    for env in envs:
        base.append({"env": env, "execmodel": "thread", "topo": "popen"})
    base += [{"env": "busy", "execmodel": "main_thread_only", "topo": "popen"}, {"env": "swallow", "execmodel": "main_thread_only", "topo": "python"},
             {"env": "receive", "execmodel": "thread", "topo": "via"}, {"env": "sleep", "execmodel": "thread", "topo": "via"},
             {"env": "busy", "execmodel": "thread", "topo": "socket"}, {"env": "receive", "execmodel": "gevent", "topo": "popen"},
             {"env": "sleep", "execmodel": "gevent", "topo": "popen"}, {"env": "busy", "execmodel": "gevent", "topo": "popen"}]
    plans = [(base, "sigkill")]
    second = [dict(s) for s in rng.sample(base[:13], 6)]
    plans.append((second, "close"))
    plans.append(([dict(s) for s in rng.sample(base[:13], 5)], "exit"))
    plans.append(([{"env": "idle", "execmodel": "thread", "topo": "popen"}, {"env": "receive", "execmodel": "thread", "topo": "python"},
                   {"env": "receive", "execmodel": "main_thread_only", "topo": "popen"}, {"env": "sleep", "execmodel": "thread", "topo": "popen"}], "midframe"))
    if not ctx.quick:
        for _ in range(6):
            scs = [{"env": rng.choice(envs), "execmodel": rng.choice(["thread", "main_thread_only"]), "topo": rng.choice(["popen", "python", "via", "socket"])} for _ in range(10)]
            plans.append((scs, rng.choice(["sigkill", "close", "exit", "midframe"])))
    results, lock = [], threading.Lock()
    threads = [threading.Thread(target=run_driver, args=(scs, death, results, lock)) for scs, death in plans]
    threads.append(threading.Thread(target=bootstrap_orphan, args=(results, lock)))
    for t in threads:
        t.start()
    for t in threads:
        t.join(90)
    herr = [x for x in results if "harness_error" in x]
    if herr:
        ctx.machinery(herr[0]["harness_error"])
    cases = [x for x in results if x.get("k") == "orphan"]
    verdicts = batch.judge("TermCases", [{k: v for k, v in c.items() if k != "pid"} for c in cases], ctx.scratch)
    hist = {}
    nontrivial = set()
    for c, vd in zip(cases, verdicts):
        hist[vd] = hist.get(vd, 0) + 1
        if c["env"] not in ("idle",):
            nontrivial.add((c["env"], c["execmodel"], c["topo"], c["death"]))
        if vd != "ok":
            ctx.violation(f"{vd}: {json.dumps(c)}", c, key=KNOWN.get(vd))
    ctx.coverage.update({
        "states": r.distinct, "transitions": r.generated, "traces_validated_against_impl": len(cases),
        "evaluations": len(cases), "distinct_nontrivial": len(nontrivial),
        "rule": "initiator processes create workers (popen, popen//python=, via, socket//installvia; thread, main_thread_only, gevent) running generated "
                "activities (idle, blocked in receive, busy loop, sleeping, swallowing KeyboardInterrupt, SIGINT ignored, extra daemon thread, blocked "
                "while sending) and are then SIGKILLed / close the connection / _exit / die in the middle of a frame, also during bootstrap; every worker pid is watched in /proc; "
                "the time until it disappears is compared by TLC (spec/TermCases.tla) with the rung deadline of spec/Termination.tla "
                "(0 / 5 / 15 s + 3-4 s slack); non-trivial = not idle; distinct by (activity, execmodel, topology, death mode)",
        "samples": cases[:3], "verdict_histogram": hist, "gone_ms": {f"{c['env']}/{c['execmodel']}/{c['topo']}/{c['death']}": c["gone_ms"] for c in cases},
    })
    ctx.assumptions += ["time bounds are wall-clock with a fixed slack; one model tick = 1 s", "the OS chooses the schedules here (S3); the ladder logic itself is model-checked in Termination.tla"]
    return "model_checking"
