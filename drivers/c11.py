"""C11 -- workers never outlive their initiator."""

from __future__ import annotations

import json
import os
import random
import signal
import subprocess
import sys
import threading
import time

from mbt import batch, tlc
from real import procs

KNOWN = {"C11.gevent-worker-with-non-cooperative-body-never-notices": "gevent-noncooperative",
         "C11.worker-kept-alive-by-a-thread-or-exit-hook-of-the-remote-code": "lingering-user-thread-or-exit-hook"}


def run_driver(scenarios, death, results, lock):
    env = dict(os.environ, PYTHONPATH=(os.environ.get("VERIF_REPO") or "/repo") + "/src:/verif")
    p = subprocess.Popen(["/venv/bin/python", "/verif/real/c11_driver.py", json.dumps({"scenarios": scenarios, "death": death})],
                         stdout=subprocess.PIPE, stderr=subprocess.DEVNULL, env=env, text=True)
    line = p.stdout.readline()
    if not line:
        with lock:
            results.append({"harness_error": f"driver produced no pid line (rc={p.poll()})"})
        p.kill()
        return
    info = json.loads(line)
    everything = set(info["all"])
    if death == "sigkill":
        os.kill(p.pid, signal.SIGKILL)
    t0 = time.monotonic()
    gone = procs.wait_gone([w["pid"] for w in info["workers"]], 24.0)
    rest = procs.wait_gone(everything, 2.0)
    for w in info["workers"]:
        sc = w["scenario"]
        with lock:
            results.append({"k": "orphan", "env": sc["env"], "execmodel": sc["execmodel"], "topo": sc["topo"], "death": death,
                            "gone_ms": gone[w["pid"]], "pid": w["pid"]})
    left = [q for q, ms in rest.items() if ms == -1]
    procs.reap(left + [p.pid])
    p.wait()


def bootstrap_orphan(results, lock):
    """the initiator dies between starting the child interpreter and sending the bootstrap source"""
    code = ("import os, sys, time\nimport execnet\nfrom execnet import gateway_io\nfrom execnet.xspec import XSpec\n"
            "from execnet.gateway_base import get_execmodel\n"
            "io = gateway_io.create_io(XSpec('popen'), get_execmodel('thread'))\nprint(io.popen.pid, flush=True)\ntime.sleep(60)\n")
    p = subprocess.Popen(["/venv/bin/python", "-c", code], stdout=subprocess.PIPE, stderr=subprocess.DEVNULL,
                         env=dict(os.environ, PYTHONPATH=(os.environ.get("VERIF_REPO") or "/repo") + "/src"), text=True)
    pid = int(p.stdout.readline())
    os.kill(p.pid, signal.SIGKILL)
    gone = procs.wait_gone([pid], 10.0)
    with lock:
        results.append({"k": "orphan", "env": "idle", "execmodel": "thread", "topo": "popen-during-bootstrap", "death": "sigkill", "gone_ms": gone[pid], "pid": pid})
    procs.reap([pid, p.pid])
    p.wait()


def sim_worker_side(ctx):
    """S1: the real WorkerGateway.serve() in the simulator; the initiator's stream ends after n bytes (0 = right at the end of the
    bootstrap, before the worker has set itself up), under explored schedules: the worker side must always wind down by itself"""
    from drivers import gwcommon as gc
    from sim import gwrun

    def prog(threads, bodies):
        return {"threads": [{"name": n, "side": "i", "ops": ops} for n, ops in threads], "bodies": {str(k): v for k, v in bodies.items()}}

    progs = [
        prog([("u1", [])], {}),
        prog([("u1", [("remote_exec", "c", 1)])], {1: [("receive", "channel")]}),
        prog([("u1", [("remote_exec", "c", 1), ("receive", "c")])],
             {1: [("newchannel", "k"), ("setcallback", "k", False), ("sendchan", "channel", "k"), ("drop", "k"), ("receive", "channel")]}),
        prog([("u1", [("remote_exec", "c", 1), ("remote_exec", "d", 2)])], {1: [("receive", "channel")], 2: [("sleep", 100)]}),
        # a body that is just finishing on the worker's main thread when the connection goes away
        prog([("u1", [("remote_exec", "c", 1)])], {1: []}),
        prog([("u1", [("remote_exec", "c", 1), ("remote_exec", "d", 2)])], {1: [], 2: [("send", "channel", 1)]}),
    ]
    jobs = []
    for p in progs:
        for n in (0, 1, 5, 9, 12, 40, 80, 200):
            base = {"post_yields": True, "cut": ("i>w", n)}
            jobs.append((p, ("first",), base))
            for k in range(6 if ctx.quick else 40):
                o = dict(base)
                if k % 3 == 2:
                    o["line_level"] = ["serve", "_thread_receiver", "_finished_receiving", "_terminate_execution", "_no_longer_opened", "_local_close",
                                       "integrate_as_primary_thread", "trigger_shutdown", "_try_send_to_primary_thread", "_perform_spawn"]
                jobs.append((p, ("random", ctx.seed * 131 + n * 7 + k), o))
    searches = [(progs[0], 1, 600 if ctx.quick else 4000, {"post_yields": True, "cut": ("i>w", 0)}),
                (progs[0], 2, 300 if ctx.quick else 4000, {"post_yields": True, "cut": ("i>w", 0)}),
                (progs[1], 1, 400 if ctx.quick else 4000, {"post_yields": True, "cut": ("i>w", 0)}),
                (progs[2], 1, 400 if ctx.quick else 4000, {"post_yields": True, "cut": ("i>w", 200)}),
                (progs[4], 1, 600 if ctx.quick else 6000, {"post_yields": True, "cut": ("i>w", 200), "line_level": ["integrate_as_primary_thread", "trigger_shutdown"]})]
    res = gc.run_and_judge(ctx, jobs, ["C11.", "GEN.", "C04.blocked"], lambda evs: any(e["ev"] == "down" for e in evs), searches=searches)
    gwrun.close_pool()
    return res


def run(ctx):
    rng = random.Random(ctx.seed + 11)
    r = tlc.run("Termination", "TM.cfg", scratch=ctx.scratch, timeout=600)
    if not r.ok:
        ctx.machinery(f"TLC Termination/TM: {r.violated} {r.error[:500]}")
    m = tlc.run("Termination", "TM_softexit.cfg", scratch=ctx.scratch, timeout=600, parse_trace=False)
    if not m.violated or m.violated == "error":
        ctx.machinery("TLC mutant TM_softexit (sys.exit instead of os._exit) not killed")
    ctx.note(f"TLC Termination/TM: {r.generated} states over all environments x time-outs x both halves; mutant TM_softexit killed by {m.violated}")
    cbm = tlc.run("Termination", "TM_cbraises_unguarded.cfg", scratch=ctx.scratch, timeout=600, parse_trace=False)
    if cbm.violated != "WorkerGoneInTime":
        ctx.machinery(f"TLC mutant TM_cbraises_unguarded (an endmarker callback's exception ends the receiver thread before the ladder) not killed ({cbm.violated})")
    ctx.note("TLC Termination/TM_cbraises_unguarded: a receiver thread that dies on a raising endmarker callback never starts the ladder - killed by WorkerGoneInTime")
    lg = tlc.run("Termination", "TM_linger.cfg", scratch=ctx.scratch, timeout=600, parse_trace=False)
    if lg.violated != "WorkerGoneInTime":
        ctx.machinery(f"TLC Termination/TM_linger: expected the exit ladder not to cover a lingering thread / exit hook of the remote code, got {lg.violated}")
    ctx.note("TLC Termination/TM_linger: with remote code that left a non-daemon thread or a blocking exit hook behind the ladder does not end the "
             "worker (WorkerGoneInTime violated) - the listed finding lingering-user-thread-or-exit-hook")
    envs = ["idle", "receive", "busy", "sleep", "swallow", "sigign", "thread", "sending", "cbdropped", "cbraises", "cbraises_dropped", "func_kwargs"]
    base = []
    for env in envs:
        base.append({"env": env, "execmodel": "thread", "topo": "popen"})
    base += [{"env": "busy", "execmodel": "main_thread_only", "topo": "popen"}, {"env": "swallow", "execmodel": "main_thread_only", "topo": "python"},
             {"env": "receive", "execmodel": "thread", "topo": "via"}, {"env": "sleep", "execmodel": "thread", "topo": "via"},
             {"env": "busy", "execmodel": "thread", "topo": "socket"}, {"env": "receive", "execmodel": "gevent", "topo": "popen"},
             {"env": "sleep", "execmodel": "gevent", "topo": "popen"}, {"env": "busy", "execmodel": "gevent", "topo": "popen"},
             {"env": "nondaemon", "execmodel": "thread", "topo": "popen"}, {"env": "atexit_hang", "execmodel": "thread", "topo": "popen"},
             {"env": "flooded", "execmodel": "thread", "topo": "popen"}, {"env": "flooded", "execmodel": "main_thread_only", "topo": "python"},
             {"env": "sleep_and_sending", "execmodel": "thread", "topo": "popen"}, {"env": "sleep_and_short", "execmodel": "thread", "topo": "popen"}]
    plans = [(base, "sigkill")]
    second = [dict(s) for s in rng.sample(base[:13], 6)]
    plans.append((second, "close"))
    plans.append(([dict(s) for s in rng.sample(base[:13], 5)], "exit"))
    plans.append(([{"env": "idle", "execmodel": "thread", "topo": "popen"}, {"env": "receive", "execmodel": "thread", "topo": "python"},
                   {"env": "receive", "execmodel": "main_thread_only", "topo": "popen"}, {"env": "sleep", "execmodel": "thread", "topo": "popen"}], "midframe"))
    if not ctx.quick:
        for _ in range(6):
            scs = [{"env": rng.choice(envs), "execmodel": rng.choice(["thread", "main_thread_only"]), "topo": rng.choice(["popen", "python", "via", "socket"])} for _ in range(10)]
            plans.append((scs, rng.choice(["sigkill", "close", "exit", "midframe"])))
    results, lock = [], threading.Lock()
    threads = [threading.Thread(target=run_driver, args=(scs, death, results, lock)) for scs, death in plans]
    threads.append(threading.Thread(target=bootstrap_orphan, args=(results, lock)))
    for t in threads:
        t.start()
    for t in threads:
        t.join(90)
    herr = [x for x in results if "harness_error" in x]
    if herr:
        ctx.machinery(herr[0]["harness_error"])
    cases = [x for x in results if x.get("k") == "orphan"]
    verdicts = batch.judge("TermCases", [{k: v for k, v in c.items() if k != "pid"} for c in cases], ctx.scratch)
    hist = {}
    nontrivial = set()
    for c, vd in zip(cases, verdicts):
        hist[vd] = hist.get(vd, 0) + 1
        if c["env"] not in ("idle",):
            nontrivial.add((c["env"], c["execmodel"], c["topo"], c["death"]))
        if vd != "ok":
            ctx.violation(f"{vd}: {json.dumps(c)}", c, key=KNOWN.get(vd))
    simres = sim_worker_side(ctx)
    ctx.coverage.update({
        "simulated_worker_runs": {"runs": simres["runs"], "distinct_traces": simres["distinct"], "verdicts": simres["hist"]},
        "states": r.distinct, "transitions": r.generated, "traces_validated_against_impl": len(cases) + simres["distinct"],
        "evaluations": len(cases), "distinct_nontrivial": len(nontrivial),
        "rule": "initiator processes create workers (popen, popen//python=, via, socket//installvia; thread, main_thread_only, gevent) running generated "
                "activities (idle, blocked in receive, busy loop, sleeping, swallowing KeyboardInterrupt, SIGINT ignored, extra daemon thread, blocked "
                "while sending) and are then SIGKILLed / close the connection / _exit / die in the middle of a frame, also during bootstrap; every worker pid is watched in /proc; "
                "the time until it disappears is compared by TLC (spec/TermCases.tla) with the rung deadline of spec/Termination.tla "
                "(0 / 5 / 15 s + 3-4 s slack); non-trivial = not idle; distinct by (activity, execmodel, topology, death mode)",
        "samples": cases[:3], "verdict_histogram": hist, "gone_ms": {f"{c['env']}/{c['execmodel']}/{c['topo']}/{c['death']}": c["gone_ms"] for c in cases},
    })
    ctx.assumptions += ["time bounds are wall-clock with a fixed slack; one model tick = 1 s", "the OS chooses the schedules here (S3); the ladder logic itself is model-checked in Termination.tla"]
    return "model_checking"
