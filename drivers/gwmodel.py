"""M1/M2 for the channel protocol: TLC on spec/Gateway.tla configurations."""

from __future__ import annotations

from mbt import tlc

EXPECT_VIOLATION = {"GW_close_unfixed": "invariant"}


def _split(c):
    return c if isinstance(c, tuple) else ("Gateway", c)


def check(ctx, cfgs, mutants=()):
    states = trans = 0
    detail = {}
    for c in cfgs:
        module, cfg = _split(c)
        r = tlc.run(module, cfg + ".cfg", scratch=ctx.scratch, coverage=True, timeout=3000)
        if not r.ok:
            ctx.machinery(f"TLC {module}/{cfg}: {r.violated}: {r.error[:1000]}")
        dead = sorted(a for a, (d, t) in r.coverage.items() if t == 0)
        states += r.distinct
        trans += r.generated
        detail[cfg] = {"generated": r.generated, "distinct": r.distinct, "depth": r.depth, "never_taken": dead}
        ctx.note(f"TLC {module}/{cfg}: {r.generated} states, {r.distinct} distinct, depth {r.depth}, {r.wall:.1f}s; never taken: {dead}")
    for c in mutants:
        module, cfg = _split(c)
        r = tlc.run(module, cfg + ".cfg", scratch=ctx.scratch, timeout=1200, parse_trace=False)
        if not r.violated or r.violated == "error":
            ctx.machinery(f"TLC mutant {module}/{cfg} was not killed: {r.violated} {r.error[:300]}")
        detail[cfg] = {"killed_by": r.violated}
        ctx.note(f"TLC mutant {module}/{cfg}: killed by {r.violated}")
    return {"states": states, "transitions": trans, "detail": detail}
