"""C06 -- remote_exec runs exactly the given code with a live channel and clean stdio."""

from __future__ import annotations

import importlib.util
import json
import os
import random
import sys

from mbt import batch, tlc
from mbt.tlaval import parse_value


def synth(shape, idx):
    """source of a scratch module defining `target` with the given shape features, and the kwargs to pass"""
    has_ab = shape["kwargs"] != "none" or shape["defaults"]
    if shape["first"] == "channel":
        params = "channel"
    elif shape["first"] == "other":
        params = "chan"
    elif shape["first"] in ("kwonly_channel", "star_channel", "starstar_channel"):
        params = {"kwonly_channel": "*, channel", "star_channel": "*channel", "starstar_channel": "**channel"}[shape["first"]]
        has_ab = False
    else:
        params = ""
    if has_ab and params:
        params += ", a=1, b=None" if shape["defaults"] else ", a, b"
    chan = "channel" if shape["first"] == "channel" else "chan"
    body = [f"{chan}.send(('ran', __name__, {'a, b' if has_ab and params else 'None, None'}, '{chan}' == 'channel'))"
            if params and shape["first"] in ("channel", "other") else "pass"]
    if shape["closure"]:
        body.insert(0, "_ = outer_local")
    if shape["global"]:
        body.insert(0, "_ = GLOBAL_X")
    if shape.get("shadow"):
        body = ["def helper(GLOBAL_Y):", "    return GLOBAL_Y", "_ = GLOBAL_Y"] + body
    lines = ["GLOBAL_X = 5", "GLOBAL_Y = 6", "", "def deco(f):", "    return f", ""]
    ind = ""
    if shape["nested"]:
        lines += ["def make():", "    outer_local = 3"]
        ind = "    "
    if shape["lambda"]:
        lam = f"lambda {params}: None" if params else "lambda: None"
        lines.append(f"{ind}target = {lam}")
    else:
        if shape["decorated"]:
            lines.append(f"{ind}@deco")
        lines.append(f"{ind}def target({params}):")
        lines += [f"{ind}    {b}" for b in body]
    if shape["nested"]:
        lines += ["    return target", "", "target = make()"]
    kw = {}
    if shape["kwargs"] == "good":
        kw = {"a": [1, {"x": (2.5, None)}], "b": b"bytes"}
    elif shape["kwargs"] == "bad":
        kw = {"a": object(), "b": 1}
    return "\n".join(lines) + "\n", kw


def load_module(path, name):
    spec = importlib.util.spec_from_file_location(name, path)
    mod = importlib.util.module_from_spec(spec)
    sys.modules[name] = mod
    spec.loader.exec_module(mod)
    return mod


def shape_case(gw, shape, idx, scratch):
    from execnet import gateway_base

    kw = {}
    if shape["kind"] == "function":
        src, kw = synth(shape, idx)
        path = os.path.join(scratch, f"shape_{idx}.py")
        open(path, "w").write(src)
        target = load_module(path, f"shape_{idx}").target
    elif shape["kind"] == "module":
        path = os.path.join(scratch, f"shapemod_{idx}.py")
        open(path, "w").write("if __name__ == '__channelexec__':\n    channel.send(('ran', __name__, None, None, True))\n")
        target = load_module(path, f"shapemod_{idx}")
        if shape["kwargs"] != "none":
            kw = {"a": 1}
    else:
        target = "\n    channel.send(('ran', __name__, None, None, True))\n"
        if shape["kwargs"] != "none":
            kw = {"a": 1}
    before = gw.newchannel().id
    case = {"k": "shape", "shape": shape, "res": "", "ran": False, "kwargs_equal": True, "name_ok": True, "channel_bound": True}
    try:
        ch = gw.remote_exec(target, **kw)
        case["res"] = "sent"
    except gateway_base.DumpError:
        case["res"] = "DumpError"
    except BaseException as e:  # noqa: BLE001
        case["res"] = type(e).__name__
    after = gw.newchannel().id
    if case["res"] == "sent":
        try:
            item = ch.receive(20)
            case["ran"] = item[0] == "ran"
            case["name_ok"] = item[1] == "__channelexec__"
            case["channel_bound"] = bool(item[4])
            if shape["kwargs"] == "good":
                case["kwargs_equal"] = item[2] == kw["a"] and type(item[2][1]["x"]) is tuple and item[3] == kw["b"] and type(item[3]) is bytes
            ch.waitclose(10)
        except BaseException as e:  # noqa: BLE001
            case["ran"] = False
            case["res_detail"] = type(e).__name__
    else:
        # nothing may have been sent: for ValueError/TypeError not even a channel id was consumed
        case["ran"] = (after - before) > (4 if case["res"] == "DumpError" else 2)
    return case


def trace_cases(gw, scratch):
    out = []
    path = os.path.join(scratch, "tracefn.py")
    open(path, "w").write("# line 1\n# line 2\ndef f(channel, n):\n    channel.send(n)\n    x = 1\n    raise KeyError('original-line-6')\n")
    mod = load_module(path, "tracefn")
    mpath = os.path.join(scratch, "tracemod.py")
    open(mpath, "w").write("\n\nif __name__ == '__channelexec__':\n    channel.send(1)\n    raise KeyError('original-line-5')\n")
    mmod = load_module(mpath, "tracemod")
    for target, kw, fname, line in ((mod.f, {"n": 1}, path, 6), (mmod, {}, mpath, 5), ("channel.send(1)\n\nraise KeyError('line-3')", {}, "<remote exec>", 3)):
        ch = gw.remote_exec(target, **kw)
        c = {"k": "trace", "want_file": False, "want_line": False, "once": False, "closed_after": False}
        try:
            ch.receive(10)
            try:
                ch.receive(10)
            except ch.RemoteError as e:
                txt = str(e)
                c["want_file"] = f'File "{fname}"' in txt
                c["want_line"] = f'File "{fname}", line {line}' in txt and "KeyError" in txt
                try:
                    ch.receive(5)
                except EOFError:
                    c["once"] = True
                except Exception:  # noqa: BLE001
                    pass
                c["closed_after"] = ch.isclosed()
        except Exception:  # noqa: BLE001
            pass
        out.append(c)
    return out


def literal_cases(gw, scratch):
    """the code that runs remotely is exactly the given text: a multi-line string literal with whitespace-only lines, trailing blanks and
    tabs inside a module, a function and a source string comes back character by character"""
    out = []
    lit = "line one\n    \n\t\nindented  \n  \n    last"
    mpath = os.path.join(scratch, "litmod.py")
    open(mpath, "w").write('TEXT = """' + lit + '"""\nif __name__ == "__channelexec__":\n    channel.send(TEXT)\n')
    mmod = load_module(mpath, "litmod")
    fpath = os.path.join(scratch, "litfn.py")
    open(fpath, "w").write('def f(channel):\n    text = """' + lit + '"""\n    channel.send(text)\n')
    fmod = load_module(fpath, "litfn")
    for target in (mmod, fmod.f):
        c = {"k": "literal", "ok": False, "form": "module" if target is mmod else "function"}
        try:
            ch = gw.remote_exec(target)
            got = _txt(ch.receive(10))
            ch.waitclose(10)
            c["ok"] = got == lit
            c["got"] = repr(got)[:120]
        except Exception as e:  # noqa: BLE001
            c["err"] = type(e).__name__
        out.append(c)
    return out


def _txt(x):
    """text items arrive as bytes on a gateway reconfigured with py3str_as_py2str"""
    return x.decode() if isinstance(x, bytes) else x


def repeat_cases(gw, scratch):
    """the same function / module / source string executed several times on one gateway: every execution runs the given code afresh
    (state created when the code is defined or first run - a mutable default, a module-level name - does not leak into the next one)"""
    out = []
    path = os.path.join(scratch, "repeatfn.py")
    open(path, "w").write("def f(channel, seen=[]):\n    seen.append(1)\n    channel.send(len(seen))\n\n"
                          "def g(channel, n, acc={}):\n    acc[n] = acc.get(n, 0) + 1\n    channel.send(sorted(acc.items()))\n")
    mod = load_module(path, "repeatfn")
    mpath = os.path.join(scratch, "repeatmod.py")
    open(mpath, "w").write("counter = []\nif __name__ == '__channelexec__':\n    counter.append(1)\n    channel.send(len(counter))\n")
    mmod = load_module(mpath, "repeatmod")
    src = "try:\n    runs\nexcept NameError:\n    runs = 0\nruns += 1\nchannel.send(runs)"
    for target, kws, want in ((mod.f, [{}, {}, {}], [1, 1, 1]), (mod.g, [{"n": 1}, {"n": 2}, {"n": 1}], [[(1, 1)], [(2, 1)], [(1, 1)]]),
                              (mmod, [{}, {}, {}], [1, 1, 1]), (src, [{}, {}, {}], [1, 1, 1])):
        c = {"k": "repeat", "ok": False}
        try:
            got = []
            for kw in kws:
                ch = gw.remote_exec(target, **kw)
                x = ch.receive(10)
                got.append([tuple(i) for i in x] if isinstance(x, list) else x)
                ch.waitclose(10)
            c["ok"] = got == want
            c["got"] = repr(got)
        except Exception as e:  # noqa: BLE001
            c["err"] = type(e).__name__
        out.append(c)
    return out


def stdio_cases(gw, rng, quick):
    out = []
    sizes = [0, 1, 4095, 4096, 65536, 300000] + ([] if quick else [1000000, 5000000])
    writers = ["print('x' * N)", "sys.stdout.write('y' * N); sys.stdout.flush()", "os.write(1, b'z' * N)", "os.write(2, b'e' * N)",
               "sys.stderr.write('E' * N); sys.stderr.flush()", "sys.__stdout__.write('w' * N); sys.__stdout__.flush()",
               "import subprocess; subprocess.call([sys.executable, '-c', 'print(\"q\" * %d)' % min(N, 100000)])"]
    for n in sizes:
        for w in (writers if not quick else rng.sample(writers, 4)):
            c = {"k": "stdio", "ok": False, "alive": False, "writer": w, "n": n}
            try:
                ch = gw.remote_exec(f"import os, sys\nN = {n}\n{w}\nchannel.send(('after', N))\nchannel.send(channel.receive() + 1)\n")
                first = ch.receive(30)
                ch.send(41)
                second = ch.receive(30)
                ch.waitclose(10)
                c["ok"] = first == ("after", n) and second == 42
                c["alive"] = gw.hasreceiver()
            except Exception as e:  # noqa: BLE001
                c["err"] = type(e).__name__
                c["alive"] = gw.hasreceiver()
            out.append(c)
    # remote code that rebinds sys.stdout / sys.stdin and lets the old objects go: descriptors 0 and 1 of the worker stay open (a later
    # raw write still works and is not part of the protocol) and are not handed out to the next open()
    c = {"k": "stdio", "ok": False, "alive": False, "writer": "rebind sys.stdout/sys.stdin, gc, os.write(1), open()", "n": 0}
    try:
        ch = gw.remote_exec("import gc, io, os, sys\nsys.stdout = io.StringIO()\nsys.stdin = io.StringIO()\ngc.collect()\nos.write(1, b'raw' * 1000)\n"
                            "f = open(os.devnull)\nfresh = f.fileno() > 2\nf.close()\nchannel.send(('after', fresh))\nchannel.send(channel.receive() + 1)\n")
        first = ch.receive(30)
        ch.send(41)
        second = ch.receive(30)
        ch.waitclose(10)
        c["ok"] = first == ("after", True) and second == 42
        c["alive"] = gw.hasreceiver()
    except Exception as e:  # noqa: BLE001
        c["err"] = type(e).__name__
        c["alive"] = gw.hasreceiver()
    out.append(c)
    return out


def close_cases(gw, scratch=None):
    out = []
    # the initiator closes its end first; an explicit close from inside the still running code must nevertheless be refused
    ch = gw.remote_exec("report = channel.receive()\nreport.receive()\ntry:\n    channel.close()\n    report.send('accepted')\nexcept OSError:\n    report.send('refused')\n")
    rep = gw.newchannel()
    c = {"k": "close", "refused": False, "closed_at_end": True, "open_before_end": True}
    try:
        ch.send(rep)
        ch.close()
        rep.send("go")
        c["refused"] = _txt(rep.receive(10)) == "refused"
    except Exception:  # noqa: BLE001
        pass
    out.append(c)
    ch = gw.remote_exec("try:\n    channel.close()\n    channel.send('closed')\nexcept OSError:\n    channel.send('refused')\nchannel.receive()\nchannel.send('end')")
    c = {"k": "close", "refused": False, "closed_at_end": False, "open_before_end": False}
    try:
        c["refused"] = _txt(ch.receive(10)) == "refused"
        c["open_before_end"] = not ch.isclosed()
        ch.send(None)
        last = _txt(ch.receive(10))
        ch.waitclose(10)
        c["closed_at_end"] = ch.isclosed() and last == "end"
    except Exception:  # noqa: BLE001
        pass
    out.append(c)
    # the same refusal for a function body, also when the close comes through a channel file with proxyclose
    if scratch:
        import time

        path = os.path.join(scratch, "closefunc.py")
        open(path, "w").write(
            "def plain(channel):\n    try:\n        channel.close()\n        channel.send('closed')\n    except OSError:\n        channel.send('refused')\n"
            "    channel.receive()\n    channel.send('end')\n\n"
            "def through_file(channel):\n    f = channel.makefile('w', proxyclose=True)\n    try:\n        f.close()\n        r = 'closed'\n    except OSError:\n        r = 'refused'\n"
            "    channel.send(r)\n    channel.receive()\n    channel.send('end')\n")
        mod = load_module(path, "closefunc")
        for fn in (mod.plain, mod.through_file):
            c = {"k": "close", "refused": False, "closed_at_end": False, "open_before_end": False}
            try:
                ch = gw.remote_exec(fn)
                c["refused"] = _txt(ch.receive(10)) == "refused"
                c["open_before_end"] = not ch.isclosed()
                ch.send(None)
                last = _txt(ch.receive(10))
                ch.waitclose(10)
                c["closed_at_end"] = ch.isclosed() and last == "end"
            except Exception:  # noqa: BLE001
                pass
            out.append(c)
        # a caller that keeps nothing but a callback (gw.remote_exec(src).setcallback(cb, endmarker=...)): the end of the code - by
        # returning or by raising - closes the channel, which is what delivers the endmarker
        for tail in ("", "raise ValueError('the code fails')\n"):
            got = []
            gw.remote_exec("import time\ntime.sleep(0.2)\nchannel.send(1)\n" + tail).setcallback(got.append, endmarker="END")
            # (no observation "still open before the end" here: it would depend on how fast this thread runs)
            c = {"k": "close", "refused": True, "closed_at_end": False, "open_before_end": True}
            for _ in range(1000):
                if "END" in got:
                    break
                time.sleep(0.01)
            c["closed_at_end"] = [_txt(x) if isinstance(x, (str, bytes)) else x for x in got] == [1, "END"]
            out.append(c)
    return out


def fd_part(ctx):
    """spec/FdTable.tla (init_popen_io and what remote code can do to the descriptor table): TLC checks that nothing written to a standard
    descriptor reaches the protocol pipes and no file lands on a standard or protocol descriptor, kills the design in which sys.stdout /
    sys.stdin own descriptors 1 / 0; every operation sequence of the model (TLC-enumerated) runs on a fresh real popen worker and TLC
    compares what each operation observed and the final descriptor table with the model's"""
    from concurrent.futures import ThreadPoolExecutor

    from real import fdtable_real

    r = tlc.run("MCFdTable", "FD.cfg", scratch=ctx.scratch, timeout=300, parse_trace=False)
    if not r.ok:
        ctx.machinery(f"TLC MCFdTable/FD: {r.violated} {r.error[:300]}")
    m = tlc.run("MCFdTable", "FD_owned.cfg", scratch=ctx.scratch, timeout=300, parse_trace=False)
    if not m.violated or m.violated == "error":
        ctx.machinery("TLC: the design in which sys.stdout / sys.stdin own descriptors 1 / 0 is not rejected (FdTable vacuous)")
    e = tlc.run("FdTableCases", "Batch.cfg", scratch=ctx.scratch, env={"WHAT": "enum", "DEPTH": "3" if ctx.quick else "5"}, workers=1, timeout=600)
    vals = tlc.printed_values(e.out, "words")
    if not vals or not vals[0]:
        ctx.machinery("FdTableCases enumerated nothing:\n" + e.out[-1200:])
    words = sorted(vals[0], key=lambda w: (len(w), repr(w)))
    prefixes = {w[:i] for w in words for i in range(len(w))}
    maximal = [list(w) for w in words if w and w not in prefixes]
    probe = os.path.join(ctx.scratch, "fdtable-probe")
    with ThreadPoolExecutor(8) as ex:
        res = list(ex.map(lambda w: fdtable_real.replay(w, probe), maximal))
    bad = [x for x in res if x["err"] or not x["usable"]]
    cases = [{"ops": x["ops"], "obs": x["obs"], "table": x["table"]} for x in res if not x["err"]]
    verdicts = batch.judge("FdTableCases", cases, ctx.scratch, extra_env={"WHAT": "judge", "DEPTH": "0"})
    hist = {}
    for x in bad:
        hist["worker-broke"] = hist.get("worker-broke", 0) + 1
        ctx.violation(f"C06.worker-unusable-after-remote-code-touched-its-standard-descriptors: {json.dumps(x)[:300]}", x)
    for c, vd in zip(cases, verdicts):
        hist[vd] = hist.get(vd, 0) + 1
        if vd.startswith("MODEL."):
            ctx.machinery(f"FdTable replay: {vd} on {c['ops']}")
        if vd != "ok":
            ctx.violation(f"{vd}: {json.dumps(c)[:400]}", c)
    ctx.note(f"FdTable: {len(maximal)} operation sequences replayed on fresh popen workers")
    return {"model_states": r.distinct, "mutant_killed_by": m.violated, "sequences_enumerated": len(words), "sequences_replayed": len(maximal), "verdict_histogram": hist}


def run(ctx):
    import execnet

    rng = random.Random(ctx.seed + 6)
    r = tlc.run("RemoteExec", "RemoteExec.cfg", scratch=ctx.scratch, timeout=600, parse_trace=False)
    if not r.ok:
        ctx.machinery(f"TLC RemoteExec: {r.violated} {r.error[:500]}")
    # M3: the shapes, enumerated by TLC
    pr = tlc.run("RemoteExecCases", "Batch.cfg", scratch=ctx.scratch, workers=1, env={"CASES": _empty(ctx)}, parse_trace=False)
    vals = tlc.printed_values(pr.out, "shapes")
    if not vals:
        ctx.machinery("RemoteExecCases printed no shapes: " + pr.out[-800:])
    shapes = [dict(x) if isinstance(x, dict) else dict(x) for x in sorted(vals[0], key=repr)]
    shapes = [{k: (bool(v) if isinstance(v, bool) else str(v)) for k, v in dict(s).items()} for s in shapes]
    ctx.note(f"TLC RemoteExec: {r.generated} states; {len(shapes)} function/source shapes enumerated")
    cases = []
    sys.path.insert(0, ctx.scratch)
    for kind, em in (("popen", "thread"),) + ((("popen", "main_thread_only"), ("via", "thread")) if not ctx.quick else ()):
        group = execnet.Group()
        try:
            from real import matrix

            gw = matrix.make_gateway(group, kind, em)
            for i, sh in enumerate(shapes):
                cases.append(shape_case(gw, sh, f"{kind}{em}{i}", ctx.scratch))
            cases += trace_cases(gw, ctx.scratch)
            cases += close_cases(gw, ctx.scratch)
            cases += repeat_cases(gw, ctx.scratch)
            cases += literal_cases(gw, ctx.scratch)
            cases += stdio_cases(gw, rng, ctx.quick)
        finally:
            group.terminate(timeout=3)
    # remote_exec must not depend on the gateway's string-coercion switches: the same cases on a reconfigured gateway
    group = execnet.Group()
    try:
        gw = group.makegateway("popen")
        gw.reconfigure(py2str_as_py3str=False, py3str_as_py2str=True)
        cases += repeat_cases(gw, ctx.scratch)
        cases += close_cases(gw, ctx.scratch)
        cases += trace_cases(gw, ctx.scratch)
    finally:
        group.terminate(timeout=3)
    # the stdio cases once more on a gevent worker (its own fdopen / file objects), when gevent is installed
    try:
        import gevent  # noqa: F401

        group = execnet.Group()
        try:
            from real import matrix

            gw = matrix.make_gateway(group, "popen", "gevent")
            cases += stdio_cases(gw, rng, True)
        finally:
            group.terminate(timeout=3)
    except ImportError:
        ctx.note("gevent not installed: stdio cases not repeated on a gevent worker")
    fdres = fd_part(ctx)
    slim = [{k: v for k, v in c.items() if k in ("k", "shape", "res", "ran", "kwargs_equal", "name_ok", "channel_bound", "want_file", "want_line",
                                                 "once", "closed_after", "ok", "alive", "refused", "closed_at_end", "open_before_end", "form")} for c in cases]
    verdicts = batch.judge("RemoteExecCases", slim, ctx.scratch)
    hist = {}
    for c, vd in zip(cases, verdicts):
        hist[vd] = hist.get(vd, 0) + 1
        if vd != "ok":
            ctx.violation(f"{vd}: {json.dumps(c, default=str)[:300]}", c,
                          key="dedent-blanks-whitespace-only-lines" if vd == "C06.function-source-altered-by-dedent" else None)
    ctx.coverage.update({
        "states": r.distinct, "transitions": r.generated, "traces_validated_against_impl": len(cases),
        "evaluations": len(cases), "distinct_nontrivial": sum(1 for c in cases if c["k"] != "shape" or c["shape"]["kind"] == "function"),
        "rule": "every shape of the decision table of spec/RemoteExec.tla (TLC-enumerated: string / module / function x lambda, first parameter, closure, "
                "non-builtin global, nested, defaults, decorated, kwargs none/good/unserialisable) synthesised as real source files and passed to the real "
                "remote_exec on a real popen gateway; tracebacks of functions, modules and strings checked for original file and line; explicit close "
                "inside refused, channel open until the code ends; stdout/stderr/fd-1/fd-2/subprocess output of 0..300000 (thorough 5 MB) bytes followed "
                "by further traffic; verdict by TLC (spec/RemoteExecCases.tla); non-trivial = function shapes and trace/stdio/close cases",
        "samples": [cases[0], cases[-1]], "shapes": len(shapes), "verdict_histogram": hist, "fd_table": fdres,
    })
    ctx.assumptions += ["soundness of the purity analysis over all Python syntax is not decided; the table covers the shapes the statement enumerates",
                        "'nothing sent' for a local rejection is observed through the initiator's channel id allocation"]
    return "model_checking"


def _empty(ctx):
    p = os.path.join(ctx.scratch, "empty.json")
    open(p, "w").write("[]")
    return p
