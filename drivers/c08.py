"""C08 -- message frames survive any chunking and never interleave on the wire."""

from __future__ import annotations

import json
import random

from mbt import batch, tlc
from real import wire_real
from sim.sched import Chooser, PCTChooser
from sim.wiresim import run_wire

IDS = [0, 1, -1, 2, 3, 2147483647, -2147483648, 65536, -65536, 255, 256]
LINE = ["to_io", "write", "read", "from_io", "sendall"]


def gen_program(rng, big):
    nw = rng.choice([1, 2, 2, 3, 3, 4])
    writers = []
    fill = 1
    for _ in range(nw):
        frames = []
        for _ in range(rng.randint(1, 3)):
            ln = rng.choice([0, 0, 1, 2, 8, 9, 10, 100, 4096] + ([65535, 65536, 65537, 70000, 200000] if big else []))
            frames.append((rng.randint(0, 7), rng.choice(IDS + [rng.randint(-2**31, 2**31 - 1)]), ln, fill % 250 + 1))
            fill += 1
        writers.append(frames)
    return {"writers": writers}


def run(ctx):
    rng = random.Random(ctx.seed + 8)
    states = trans = 0
    detail = {}
    for cfg in ["W_pipe", "W_sock", "W_pipe_cut"] + ([] if ctx.quick else ["W_sock3"]):
        r = tlc.run("MCWire", cfg + ".cfg", scratch=ctx.scratch, coverage=True, timeout=1800)
        if not r.ok:
            ctx.machinery(f"TLC MCWire/{cfg}: {r.violated} {r.error[:600]}")
        states += r.distinct
        trans += r.generated
        detail[cfg] = {"generated": r.generated, "distinct": r.distinct, "never_taken": sorted(a for a, (d, t) in r.coverage.items() if t == 0)}
        ctx.note(f"TLC MCWire/{cfg}: {r.generated} states, {r.distinct} distinct, {r.wall:.1f}s")
    r = tlc.run("MCWire", "W_sock_unfixed.cfg", scratch=ctx.scratch, timeout=600)
    if r.violated not in ("NoGarbage", "FramesIntact"):
        ctx.machinery(f"TLC mutant W_sock_unfixed not killed: {r.violated}")
    detail["W_sock_unfixed"] = {"killed_by": r.violated}
    ctx.note(f"TLC mutant MCWire/W_sock_unfixed (no write lock): killed by {r.violated}")
    # ---- S1: real to_io/from_io over real Popen2IO/SocketIO with scripted files/sockets
    cases, metas = [], []
    seen = set()
    nprog = 14 if ctx.quick else 120
    nsched = 10 if ctx.quick else 60
    nruns = 0
    for pi in range(nprog):
        prog = gen_program(rng, big=(pi % 3 == 0))
        total = sum(9 + f[2] for w in prog["writers"] for f in w)
        for transport in ("popen", "socket"):
            for k in range(nsched):
                opts = {"transport": transport, "chunking": rng.choice(["random", "random", "one" if total < 3000 else "random", "all"])}
                if k % 4 == 3:
                    opts["cut"] = rng.randint(0, total)
                if k % 5 == 4 and total < 5000:
                    opts["line_level"] = LINE
                ch = PCTChooser(random.Random(ctx.seed * 31 + pi * 101 + k), 3, 200) if k % 3 == 2 else Chooser(random.Random(ctx.seed * 17 + pi * 977 + k))
                res = run_wire(prog, ch, **opts)
                nruns += 1
                key = json.dumps(res["events"])
                if key in seen:
                    continue
                seen.add(key)
                cases.append({"kind": "sim", "events": res["events"]})
                metas.append({"program": prog, "opts": opts, "decisions": res["decisions"]})
    # ---- S3: concurrent senders on real transports
    reals = []
    plan = [("popen", 3, 3, 300000), ("socket", 4, 3, 2000000), ("via", 3, 2, 300000)]
    if not ctx.quick:
        plan += [("socket", 6, 4, 4000000), ("popen", 6, 4, 4000000), ("via", 4, 3, 2000000), ("socket", 3, 3, 2000000)]
    for kind, nt, ni, size in plan:
        rr = wire_real.run_real(kind, nt, ni, size)
        reals.append(rr)
        cases.append({"kind": "real", "sent": rr["sent"], "got": rr["got"], "alive": rr["alive"]})
        metas.append({k: rr[k] for k in ("transport", "threads", "items", "size", "errors")})
    # the sending side is the worker: several threads / greenlets with multi-megabyte frames over a socket
    hosts = ["thread"]
    try:
        import gevent  # noqa: F401

        hosts.append("gevent")
    except ImportError:
        ctx.note("gevent not installed: no greenlet senders")
    for host in hosts:
        rr = wire_real.run_remote_senders(host, 3, 3, 8000000)
        reals.append(rr)
        cases.append({"kind": "real", "sent": rr["sent"], "got": rr["got"], "alive": rr["alive"]})
        metas.append({k: rr[k] for k in ("transport", "threads", "items", "size", "errors")})
    verdicts = batch.judge("WireCases", cases, ctx.scratch)
    hist = {}
    nontrivial = 0
    for c, m, vd in zip(cases, metas, verdicts):
        hist[vd] = hist.get(vd, 0) + 1
        if c["kind"] == "sim" and sum(1 for e in c["events"] if e["ev"] == "rdec") >= 3:
            nontrivial += 1
        if vd == "ok":
            continue
        if vd.startswith("TRACE."):
            ctx.machinery(vd)
        ctx.violation(f"{vd}: {json.dumps(m)[:300]}", {"meta": m, "case": c if c["kind"] == "real" else {"events": c["events"][:80]}, "verdict": vd})
    ctx.coverage.update({
        "states": states, "transitions": trans, "traces_validated_against_impl": len(cases),
        "evaluations": nruns + len(reals), "distinct_nontrivial": nontrivial,
        "rule": "generated frame programs (1-4 concurrent writer threads, message codes 0-7, channel ids over the signed 32-bit range, payloads 0..200000 bytes) "
                "through the real Message.to_io/from_io over the real Popen2IO and SocketIO on scripted files/sockets: random read chunkings (incl. 1 byte per read), "
                "partial socket sends, cuts at random offsets, random/PCT schedules with line-level preemption inside to_io/write/read/from_io; plus concurrent "
                "senders of 0.3-4 MB items on real popen / socket / via gateways; non-trivial = at least 3 frames decoded; distinct by event trace",
        "samples": [{"meta": metas[0], "events": cases[0]["events"][:8]}] if cases else [],
        "verdict_histogram": hist, "real_runs": [{k: rr[k] for k in ("transport", "threads", "items", "size", "alive")} for rr in reals], "tlc": detail,
    })
    ctx.assumptions += ["one write() on a buffered pipe file is atomic; socket sendall() is a loop of partial sends with other threads free to run in between",
                        "payload identity is checked through type, channel id, length and a uniform fill byte per frame"]
    return "model_checking"
