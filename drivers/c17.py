"""C17 -- RSync makes every target tree equal to the source, minimally."""

from __future__ import annotations

import json
import os
import random

from mbt import batch, tlc
from real import rsync_real

FILES = [["file", c, m, t] for c in (0, 1, 2) for m in (420, 384, 493, 292) for t in (1, 2)]
LINKS = [["link", k] for k in ("rel_inside", "rel_up", "dangling", "abs_inside", "abs_inside_dd", "abs_outside")]
LEAVES = FILES + LINKS + [["absent"]]
DIRS = [["dir", m, ch] for m in (493, 365, 448) for ch in LEAVES]
ENTRIES = LEAVES + DIRS
KNOWN = {"C17.directory-mode-forced-to-u+rwx": "dir-mode-or-0o700", "C17.same-size-same-mtime-content-not-synced": "same-size-same-mtime"}


def free_trees(gw, base, rng, n):
    """hypothesis-style generated trees outside the pair-complete grammar: unicode / space names, empty, binary and large files,
    deep nesting, several targets, modify-then-resync; compared directly (source tree == target tree)"""
    import shutil
    import stat

    from execnet.rsync import RSync

    res = []
    for i in range(n):
        shutil.rmtree(base, ignore_errors=True)
        src = os.path.join(base, "s r c")
        os.makedirs(src)
        names = ["a b", "ü中", "x.txt", "empty", "bin", "deep", "l1", "l2", ".hidden", "big"]

        def fill(d, depth):
            for nm in rng.sample(names, rng.randint(1, 5)):
                p = os.path.join(d, nm)
                k = rng.random()
                if k < 0.2 and depth < 4:
                    os.mkdir(p)
                    fill(p, depth + 1)
                elif k < 0.3:
                    os.symlink(rng.choice(["x.txt", "../a b", "/etc/hostname", "nowhere", os.path.join(src, "x.txt")]), p)
                else:
                    size = rng.choice([0, 1, 10, 1000, 70000] + ([3000000] if rng.random() < 0.05 else []))
                    with open(p, "wb") as f:
                        f.write(bytes(rng.getrandbits(8) for _ in range(min(size, 2000))) * max(1, size // 2000) if size else b"")
                    os.chmod(p, rng.choice([0o644, 0o600, 0o755, 0o640]))
                    t = rng.randint(10**9, 1700000000)
                    os.utime(p, (t, t))

        fill(src, 0)
        dests = [os.path.join(base, f"dst{j}") for j in range(rng.randint(1, 3))]
        sent = []

        class R(RSync):
            def _report_send_file(self, gateway, p):
                sent.append(p)

        def tree(root):
            out = {}
            for dp, dn, fn in os.walk(root):
                for nme in dn + fn:
                    p = os.path.join(dp, nme)
                    st = os.lstat(p)
                    rel = os.path.relpath(p, root)
                    if stat.S_ISLNK(st.st_mode):
                        t = os.readlink(p)
                        out[rel] = ("link", t.replace(root, "<ROOT>"))
                    elif stat.S_ISDIR(st.st_mode):
                        out[rel] = ("dir",)
                    else:
                        with open(p, "rb") as f:
                            out[rel] = ("file", f.read(), stat.S_IMODE(st.st_mode), int(st.st_mtime))
            return out

        ok, why = True, ""
        old = os.getcwd()
        try:
            os.chdir(rng.choice([base, src]))
            r = R(src, verbose=False)
            for d in dests:
                r.add_target(gw, d, delete=True)
            r.send()
            want = tree(src)
            for d in dests:
                if tree(d) != want:
                    ok, why = False, "C17.generated-tree-differs-after-send"
            # modify one file, resync: only that file travels
            files = [k for k, v in want.items() if v[0] == "file"]
            if ok and files:
                victim = rng.choice(files)
                with open(os.path.join(src, victim), "ab") as f:
                    f.write(b"+")
                del sent[:]
                r = R(src, verbose=False)
                for d in dests:
                    r.add_target(gw, d, delete=True)
                r.send()
                if sorted(set(sent)) != [victim]:
                    ok, why = False, "C17.resync-after-one-change-transferred-other-files"
                elif any(tree(d) != tree(src) for d in dests):
                    ok, why = False, "C17.generated-tree-differs-after-resync"
                else:
                    # the same RSync object once more, after an edit that keeps the size (only content and mtime change)
                    # (twice: whatever the object remembers from one round must not decide the next one)
                    vp = os.path.join(src, victim)
                    t2 = int(os.lstat(vp).st_mtime)
                    for _round in range(2):
                        data = open(vp, "rb").read()
                        with open(vp, "wb") as f:
                            f.write(bytes((b + 1) % 256 for b in data))
                        t2 += 77      # a new mtime in every round (writing the file has just set it to "now")
                        os.utime(vp, (t2, t2))
                        for d in dests:
                            r.add_target(gw, d, delete=True)
                        r.send()
                        if any(tree(d) != tree(src) for d in dests):
                            ok, why = False, "C17.second-send-of-the-same-RSync-object-left-a-target-stale"
        except Exception as e:  # noqa: BLE001
            ok, why = False, "C17.send-raised-" + type(e).__name__
        finally:
            os.chdir(old)
        res.append((ok, why, {"names": sorted(want)[:12] if "want" in dir() else [], "targets": len(dests)}))
    shutil.rmtree(base, ignore_errors=True)
    return res


def run(ctx):
    import execnet

    rng = random.Random(ctx.seed + 17)
    r = tlc.run("MCRSync", "MCRSync.cfg", scratch=ctx.scratch, timeout=1800)
    if not r.ok:
        ctx.machinery(f"TLC MCRSync: {r.violated} {r.error[:600]}")
    ctx.note(f"TLC MCRSync: {r.generated // 2} (source, prior target, delete, cwd) cases: target = source, limitations exact, minimal; {r.wall:.1f}s")
    # the protocol message by message (structure broadcast, serve loop, 2 targets that may fail at any point) and its three mutants
    pr = tlc.run("MCRSyncProto", "RP.cfg", scratch=ctx.scratch, timeout=900)
    pc = tlc.run("MCRSyncProto", "RP_crash_small.cfg" if ctx.quick else "RP_crash.cfg", scratch=ctx.scratch, timeout=3000)
    for x, nm in ((pr, "RP"), (pc, "RP_crash")):
        if not x.ok:
            ctx.machinery(f"TLC MCRSyncProto/{nm}: {x.violated} {x.error[:600]}")
    ctx.note(f"TLC RSyncProto: {pr.distinct} + {pc.distinct} states (with failing targets): pairing, complete at return, callback once, inside the sender language, send() ends")
    for cfg in ("RP_linksonce", "RP_serveone", "RP_pairlast", "RP_cache"):
        m = tlc.run("MCRSyncProto", cfg + ".cfg", scratch=ctx.scratch, timeout=600, parse_trace=False)
        if not m.violated or m.violated == "error":
            ctx.machinery(f"TLC mutant {cfg} not killed")
        ctx.note(f"TLC mutant {cfg}: killed by {m.violated}")
    for cfg in ("MCRSync_mode", "MCRSync_link"):
        m = tlc.run("MCRSync", cfg + ".cfg", scratch=ctx.scratch, timeout=600, parse_trace=False)
        if not m.violated or m.violated == "error":
            ctx.machinery(f"TLC mutant {cfg} not killed")
        ctx.note(f"TLC mutant {cfg}: killed by {m.violated}")
    # the model's case space, replayed on the real RSync (all kind-changing pairs + a seeded sample; thorough: all)
    allcases = [(s, d) for s in ENTRIES for d in ENTRIES]
    kind_changing = [(s, d) for s, d in allcases if s[0] != d[0] and (s[0] != "dir" or s[2][0] in ("file", "absent")) and (d[0] != "dir" or d[2][0] in ("file", "absent"))]
    same_kind_files = [(s, d) for s in FILES for d in FILES]
    if ctx.quick:
        picked = rng.sample(kind_changing, 500) + rng.sample(same_kind_files, 350) + rng.sample(allcases, 500)
    else:
        picked = allcases
    cases = []
    for s, d in picked:
        cases.append({"src": s, "dst": d, "del": rng.random() < 0.5, "cwd": rng.choice(["outside", "root", "inside"]), "sibling": rng.random() < 0.7,
                      "tv": rng.choice([0, 0, 1, 2]), "slash": rng.random() < 0.3})
    if not ctx.quick:
        cases += [dict(c, **{"del": not c["del"]}) for c in cases[:: 3]]
    gw = execnet.makegateway("popen")
    base = os.path.join(ctx.scratch, "rs")
    try:
        outs = [rsync_real.run_case(gw, base, c) for c in cases]
        free = free_trees(gw, os.path.join(ctx.scratch, "free"), rng, 25 if ctx.quick else 250)
        from real import rsync_trace

        protos = [rsync_trace.run_one(gw, os.path.join(ctx.scratch, "proto"), rng) for _ in range(120 if ctx.quick else 1500)]
        from real import rsync_filter

        filt = [rsync_filter.run_case(gw, os.path.join(ctx.scratch, "filter"), rng, i) for i in range(150 if ctx.quick else 2000)]
        from real import rsync_rounds

        rwords = rsync_rounds.words(3 if ctx.quick else 5)
        rounds = [rsync_rounds.run_word(gw, os.path.join(ctx.scratch, "rounds"), w, i) for i, w in enumerate(rwords)]
    finally:
        gw.exit()
        execnet.default_group.terminate(timeout=3)
    verdicts = batch.judge("RSyncCases", outs, ctx.scratch, cfg="RSyncBatch.cfg")
    hist = {}
    nontrivial = 0
    for o, vd in zip(outs, verdicts):
        hist[vd] = hist.get(vd, 0) + 1
        if o["dst"][0] != "absent" and o["src"] != o["dst"]:
            nontrivial += 1
        if vd == "ok":
            continue
        if vd.startswith("MODEL-DRIFT"):
            ctx.note(f"MODEL-DRIFT {vd}: {json.dumps(o)[:200]}")
            continue
        ctx.violation(f"{vd}: {json.dumps(o)[:400]}", o, key=KNOWN.get(vd))
    # one RSync object over several rounds: the model and its mutant (digests remembered on the object), behaviours replayed above
    rr = tlc.run("RSyncRounds", "RR.cfg", scratch=ctx.scratch, timeout=300, parse_trace=False)
    if not rr.ok:
        ctx.machinery(f"TLC RSyncRounds: {rr.violated} {rr.error[:300]}")
    rm = tlc.run("RSyncRounds", "RR_digestcache.cfg", scratch=ctx.scratch, timeout=300, parse_trace=False)
    if rm.violated != "TargetEqualsSourceAfterSend":
        ctx.machinery(f"TLC mutant RSyncRounds/RR_digestcache not killed by TargetEqualsSourceAfterSend ({rm.violated})")
    for c, vd in zip(rounds, batch.judge("RSyncRoundsCases", rounds, ctx.scratch)):
        hist["rounds:" + vd] = hist.get("rounds:" + vd, 0) + 1
        if vd.startswith("HARNESS"):
            ctx.machinery(f"{vd}: {json.dumps(c)[:300]}")
        elif vd.startswith("MODEL-DRIFT"):
            ctx.note(f"{vd}: {json.dumps(c)[:200]}")
        elif vd != "ok":
            ctx.violation(f"{vd}: {json.dumps(c)[:300]}", c)
    # an overridden filter(): rejected entries (and everything below them) are not part of the source for the sync
    for c, vd in zip(filt, batch.judge("RSyncFilterCases", filt, ctx.scratch)):
        hist["filter:" + vd] = hist.get("filter:" + vd, 0) + 1
        if vd != "ok":
            ctx.violation(f"{vd}: {json.dumps(c)[:500]}", c)
    pverdicts = batch.judge("RSyncProtoCases", protos, ctx.scratch)
    for c, vd in zip(protos, pverdicts):
        hist["proto:" + vd] = hist.get("proto:" + vd, 0) + 1
        if vd != "ok":
            ctx.violation(f"{vd}: targets={c['nt']} failing={c['mayfail']} err={c['err']} trace={json.dumps([[e['e'], e['t'], e['k'], e['p'], e['n']] for e in c['trace']])[:600]}", c)
    for ok, why, meta in free:
        hist[why or "ok(generated)"] = hist.get(why or "ok(generated)", 0) + 1
        if not ok:
            ctx.violation(f"{why}: {json.dumps(meta)[:300]}", meta)
    ctx.coverage.update({
        "states": r.distinct, "transitions": r.generated, "traces_validated_against_impl": len(outs),
        "evaluations": len(outs) + len(free), "distinct_nontrivial": nontrivial,
        "rule": "the pair-complete instance of spec/RSync.tla (source entry x prior target entry x delete x cwd; entries: 24 files, 5 link kinds, absent, "
                "3x30 directories) materialised on disk and synced by the real RSync through a real popen gateway: all kind-changing pairs + seeded sample "
                "(quick) / all 14400 pairs (thorough); each followed by a second send() (no content, no change); plus generated trees (unicode/space names, "
                "empty/binary/large files, nesting, 1-3 targets, modify-then-resync); verdict by TLC (spec/RSyncCases.tla); sender-side event traces of real 1-3 target syncs (incl. a target that fails) validated by TLC against the "
                "sender-observable protocol language (spec/RSyncProtoAbs.tla) that spec/RSyncProto.tla is model-checked to stay inside; non-trivial = prior target entry "
                "present and different from the source entry",
        "samples": [outs[0], outs[len(outs) // 2]], "generated_trees": len(free), "protocol_traces": len(protos), "protocol_traces_with_failing_target": sum(1 for c in protos if c["mayfail"]),
        "protocol_model_states": pr.distinct + pc.distinct, "verdict_histogram": hist, "exhaustive": not ctx.quick,
    })
    ctx.assumptions += ["run as root: permission-denied paths are not exercised", "timestamps of directories and of symlinks themselves are not compared",
                        "mtimes compared at one-second resolution"]
    return "model_checking"
