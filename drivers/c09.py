"""C09 -- WorkerPool runs every accepted task exactly once and reports truthfully."""

from __future__ import annotations

import json
import os
import random

from mbt import batch, tlc
from sim import explore
from sim.poolsim import run_pool

EXPECT_DEAD = {
    "WP_thread": {"SpWaitPrev", "WaTimeout"}, "WP_mto": {"WkStart", "WkEnd", "WkRemove", "WaTimeout"},
    "WP_noprimary": {"SpWaitPrev", "PrWake", "PrRead", "PrStart", "PrEnd", "PrRemove", "PrPost", "WaTimeout"},
    "WP_thread_big": {"SpWaitPrev", "WaTimeout"}, "WP_mto_big": {"WkStart", "WkEnd", "WkRemove", "WaTimeout"},
    "WP_noprimary_big": {"SpWaitPrev", "PrWake", "PrRead", "PrStart", "PrEnd", "PrRemove", "PrPost", "WaTimeout"},
}
PROG_OF_CFG = {
    "WP_thread": dict(mto=False, hasprimary=True, spawners=["s1", "s2"], tasks_per=2, shutter=True, waiters=["w1"]),
    "WP_mto": dict(mto=True, hasprimary=True, spawners=["s1", "s2"], tasks_per=2, shutter=True, waiters=["w1"]),
    "WP_noprimary": dict(mto=False, hasprimary=False, spawners=["s1", "s2"], tasks_per=2, shutter=True, waiters=["w1"]),
}


def programs(rng, quick):
    progs = []
    for mto in (False, True):
        for hasprimary in (True, False):
            for nsp in ((1, 2) if quick else (1, 2, 3)):
                for tp in (1, 2):
                    for nw in ((0, 1) if quick and tp == 2 else (0, 1, 2)):
                        sp = [f"s{i+1}" for i in range(nsp)]
                        p = dict(mto=mto, hasprimary=hasprimary, spawners=sp, tasks_per=tp, shutter=True,
                                 waiters=[f"w{i+1}" for i in range(nw)])
                        if nw == 2:
                            p["timed"] = ["w2"]
                        progs.append(p)
                        if not hasprimary:
                            q = dict(p, shutter=False)
                            progs.append(q)
    # variants: raising tasks, Reply.get (also timed out on a gated task), terminate()
    extra = []
    for p in progs:
        if len(p["spawners"]) <= 2 and p["tasks_per"] == 2:
            e = dict(p, raising=[2, 11], get_after={1: None, 2: None})
            extra.append(e)
            # ... while the STATUS handler asks the pool for its number of active tasks at any moment (gateway.remote_status())
            extra.append(dict(p, status_polls=4))
            # ... a task that ends by KeyboardInterrupt (not an Exception): completion is recorded all the same, get() re-raises it
            extra.append(dict(p, raising=[1, 2], raising_base=[1, 2], get_after={1: None, 2: None}))
            if not (p["mto"] and p["hasprimary"]):
                extra.append(dict(p, gated_tasks=[1], get_after={1: 1.0}))
                if len(p["spawners"]) == 1:  # the boundary: get(timeout=0) on a task that is still running times out at once
                    extra.append(dict(p, gated_tasks=[1], get_after={1: 0}))
            if p["shutter"]:
                extra.append(dict(p, shutdown_via_terminate=True))
    # two overlapping waitall() callers, the timed one gives up while a task is still running; when the task finishes the other one wakes up
    for hp in (False,):
        extra.append(dict(mto=False, hasprimary=hp, spawners=["s1"], tasks_per=1, shutter=False, waiters=["w1", "w2"], timed=["w2"],
                          gated_tasks=[1], timeout_opens_gates=True))
        extra.append(dict(mto=False, hasprimary=hp, spawners=["s1"], tasks_per=2, shutter=False, waiters=["w1", "w2", "w3"], timed=["w2"],
                          gated_tasks=[1], timeout_opens_gates=True))
    if quick:
        progs.append(dict(mto=False, hasprimary=True, spawners=["s1", "s2", "s3"], tasks_per=1, shutter=True, waiters=["w1"]))
        progs.append(dict(mto=True, hasprimary=True, spawners=["s1", "s2", "s3"], tasks_per=2, shutter=True, waiters=["w1", "w2"], timed=["w2"]))
    return progs + extra


def thread_of_step(prev, cur, spawners):
    """which model thread moved between two states of spec/WorkerPool.tla"""
    for s in spawners:
        if prev["spc"][s] != cur["spc"][s] or prev["snext"][s] != cur["snext"][s]:
            return s
    if prev["ppc"] != cur["ppc"]:
        return "p"
    if prev["shpc"] != cur["shpc"]:
        return "sh"
    for w in cur["wapc"]:
        if prev["wapc"][w] != cur["wapc"][w]:
            return w
    for t in cur["wkpc"]:
        if prev["wkpc"][t] != cur["wkpc"][t]:
            return f"wk{spawners.index(t[0]) * 10 + t[1]}"
    return None


def hints_from_behaviour(beh, spawners):
    hints = []
    for (_, a), (_, b) in zip(beh, beh[1:]):
        th = thread_of_step(a, b, spawners)
        if th:
            hints.append(th)
    return hints


def _explore_job(job):
    """one program x one strategy, in a worker process; returns distinct traces"""
    import sys

    sys.stderr = open("/dev/null", "w")
    kind, prog = job[0], job[1]
    traces = {}
    runs = 0
    exhaustive = 0

    def rec(res):
        nonlocal runs
        runs += 1
        key = json.dumps(res["events"], sort_keys=True)
        if key not in traces:
            traces[key] = {"prog": prog, "decisions": res["decisions"], "events": res["events"]}

    if kind == "dfs":
        st = None
        for res, st in explore.dfs(lambda ch: run_pool(prog, ch), job[2]):
            rec(res)
        exhaustive = 1 if st and st["exhaustive"] else 0
    elif kind == "bounded":
        st = None
        for res, st in explore.bounded(lambda ch: run_pool(prog, ch, post_yields=True), job[2], job[3]):
            rec(res)
        exhaustive = 1 if st and st["exhaustive"] else 0
    elif kind == "random":
        for res in explore.randoms(lambda ch: run_pool(prog, ch, post_yields=job[4]), job[2], job[3]):
            rec(res)
    elif kind == "pct":
        for res in explore.pct(lambda ch: run_pool(prog, ch, post_yields=job[4]), job[2], job[3]):
            rec(res)
    elif kind == "hints":
        for res in explore.hinted(lambda ch: run_pool(prog, ch), job[2], job[3]):
            rec(res)
    return {"traces": traces, "runs": runs, "exhaustive": exhaustive}


def real_exit_cases(ctx):
    """a task running on a secondary pool thread of a real popen worker when gateway.exit() arrives still runs to its end"""
    import time

    import execnet

    from real import procs

    out = []
    for em in ("thread",) if ctx.quick else ("thread", "thread", "thread"):
        group = execnet.Group()
        marker = os.path.join(ctx.scratch, f"marker-{len(out)}")
        c = {"started": False, "marker": False, "gone": False, "execmodel": em}
        try:
            gw = group.makegateway(f"popen//execmodel={em}")
            pid = gw.remote_exec("import os\nchannel.send(os.getpid())").receive(20)
            a = gw.remote_exec("channel.send('a-runs')\ntry:\n    channel.receive()\nexcept EOFError:\n    pass")
            a.receive(20)
            b = gw.remote_exec("import time\nchannel.send('b-runs')\ntime.sleep(1.0)\nopen(%r, 'w').write('done')" % marker)
            c["started"] = b.receive(20) == "b-runs"
            gw.exit()
            c["gone"] = procs.wait_gone([pid], 12.0)[pid] != -1
            c["marker"] = os.path.exists(marker)
        except Exception as e:  # noqa: BLE001
            c["err"] = type(e).__name__
        finally:
            group.terminate(timeout=2)
        out.append(c)
    return out


def run(ctx):
    rng = random.Random(ctx.seed + 9)
    # ---- M1: exhaustive TLC on the implementation-shaped model (fixed design), M2: the un-fixed design must fail
    cfgs = ["WP_thread", "WP_mto", "WP_noprimary"] + ([] if ctx.quick else ["WP_thread_big", "WP_mto_big", "WP_noprimary_big"])
    states = trans = 0
    for cfg in cfgs:
        r = tlc.run("WorkerPool", cfg + ".cfg", scratch=ctx.scratch, coverage=True, timeout=3000)
        if not r.ok:
            ctx.machinery(f"TLC {cfg}: {r.violated}: {r.error[:800]}")
        dead = {a for a, (d, t) in r.coverage.items() if t == 0} - EXPECT_DEAD[cfg]
        if dead:
            ctx.machinery(f"TLC {cfg}: dead actions {dead}")
        states += r.distinct
        trans += r.generated
        ctx.note(f"TLC WorkerPool/{cfg}: {r.generated} states, {r.distinct} distinct, depth {r.depth}, {r.wall:.1f}s, invariants + liveness hold")
    mutant_hints = {}
    for cfg in ["WP_thread_unfixed", "WP_mto_unfixed"]:
        r = tlc.run("WorkerPool", cfg + ".cfg", scratch=ctx.scratch, timeout=600)
        if r.violated != "temporal":
            ctx.machinery(f"TLC mutant {cfg} was not killed ({r.violated}); the liveness properties are vacuous")
        base = cfg.replace("_unfixed", "")
        mutant_hints[base] = hints_from_behaviour(r.trace, PROG_OF_CFG[base]["spawners"])
        ctx.note(f"TLC mutant {cfg}: killed (lost task counterexample, {len(r.trace)} states)")
    # ---- S1: the real WorkerPool under explored schedules (parallel worker processes)
    progs = programs(rng, ctx.quick)
    budget_dfs = 60 if ctx.quick else 2000
    budget_rand = 40 if ctx.quick else 400
    jobs = []
    for pi, prog in enumerate(progs):
        small = len(prog["spawners"]) * prog["tasks_per"] <= 2 and len(prog["waiters"]) <= 1
        jobs.append(("dfs", prog, budget_dfs * (4 if small else 1), False))
        nthreads = len(prog["spawners"]) + len(prog["waiters"]) + int(prog["hasprimary"]) + int(prog["shutter"])
        if nthreads <= (3 if ctx.quick else 4):
            # every schedule with at most 2 preemptions (yield points before and after each sync operation)
            jobs.append(("bounded", prog, 2, 2500 if ctx.quick else 60000))
        else:
            jobs.append(("bounded", prog, 1, 300 if ctx.quick else 30000))
        jobs.append(("random", prog, budget_rand, ctx.seed + 1 + pi, False))
        jobs.append(("random", prog, budget_rand, ctx.seed + 3 + pi, True))   # also yield after set/put/release
        jobs.append(("pct", prog, budget_rand // 2, ctx.seed + 2 + pi, True))
    # ---- M4: TLC-generated behaviours of the model as schedule hints (spec -> code)
    nhint = 0
    for cfg, prog in PROG_OF_CFG.items():
        behs = tlc.simulate("WorkerPool", cfg + ".cfg", num=60 if ctx.quick else 600, depth=60, seed=ctx.seed + 5, scratch=ctx.scratch)
        hl = [hints_from_behaviour(b, prog["spawners"]) for b in behs]
        if cfg in mutant_hints:
            hl.append(mutant_hints[cfg])  # the lost-task schedule of the un-fixed design
        nhint += len(hl)
        jobs.append(("hints", prog, hl, ctx.seed))
    traces = {}
    nruns = 0
    exhaustive_programs = 0
    import multiprocessing as mp

    with mp.get_context("fork").Pool(14) as pool:
        for out in pool.imap_unordered(_explore_job, jobs, chunksize=1):
            nruns += out["runs"]
            exhaustive_programs += out["exhaustive"]
            for key, val in out["traces"].items():
                traces.setdefault(key, val)
    # ---- M5: TLC judges every distinct trace
    items = list(traces.values())
    verdicts = batch.judge("PoolCases", [{"events": it["events"]} for it in items], ctx.scratch)
    nontrivial = 0
    hist = {}
    for it, vd in zip(items, verdicts):
        evs = it["events"]
        # non-trivial: shutdown raced with a spawn (call spawn before ret shutdown, ret spawn after call shutdown) or a waitall had to wait
        idx = {(e["ev"], e["op"]): i for i, e in enumerate(evs) if e["op"] == "shutdown"}
        sc_, sr_ = idx.get(("call", "shutdown")), idx.get(("ret", "shutdown"))
        raced = sc_ is not None and any(e["ev"] == "ret" and e["op"] == "spawn" and i > sc_ for i, e in enumerate(evs))
        if raced:
            nontrivial += 1
        hist[vd] = hist.get(vd, 0) + 1
        if vd != "ok":
            if vd.startswith("TRACE."):
                ctx.machinery(f"trace vocabulary mismatch: {vd}")
            ctx.violation(f"{vd}: program={json.dumps(it['prog'])} schedule={it['decisions'][:60]}",
                          {"prog": it["prog"], "decisions": it["decisions"], "events": evs, "verdict": vd})
    reals = real_exit_cases(ctx)
    rv = batch.judge("PoolRealCases", [{"started": c["started"], "marker": c["marker"], "gone": c["gone"]} for c in reals], ctx.scratch)
    for c, vd in zip(reals, rv):
        if vd.startswith("HARNESS"):
            ctx.machinery(f"{vd}: {c}")
        if vd != "ok":
            ctx.violation(f"{vd}: {json.dumps(c)}", c)
    ctx.coverage["real_worker_exit_cases"] = len(reals)
    ctx.coverage.update({
        "states": states, "transitions": trans,
        "traces_validated_against_impl": len(items),
        "evaluations": nruns, "distinct_nontrivial": nontrivial,
        "rule": "runs of the real WorkerPool under the baton scheduler: per program DFS over sync-point schedules (budgeted), seeded random and PCT "
                "schedules, post-yield schedules, preemption-bounded systematic search (all schedules with <= 2 preemptions for programs of <= 3 (quick) / 4 (thorough) threads, "
                "<= 1 beyond; programs_explored_exhaustively counts the searches that finished), and schedules hinted by TLC behaviours of spec/WorkerPool.tla incl. the un-fixed design's "
                "counterexample; distinct by observable event trace; non-trivial = a spawn returned after trigger_shutdown was called",
        "samples": [{"prog": items[0]["prog"], "events": items[0]["events"][:14]}] if items else [],
        "programs": len(progs), "programs_explored_exhaustively": exhaustive_programs,
        "tlc_hinted_runs": nhint, "verdict_histogram": hist,
        "mutants_killed": ["WP_thread_unfixed", "WP_mto_unfixed"],
    })
    ctx.assumptions += ["simulated Lock/Event/Queue semantics (sim/prims.py); timed waits expire only at quiescence (virtual time)",
                        "yield points at synchronisation operations only (no line-level preemption in this check)",
                        "main_thread_only pools with a primary thread are driven with the gateway's gated submission protocol, as the property states"]
    return "model_checking"
