"""C18 -- channel ids never collide and channels travel over channels intact"""

from __future__ import annotations

import random

from drivers import gwcommon as gc
from drivers import gwmodel, gwprograms
from sim import gwrun

LINE_FUNCS = ["new", "newchannel", "remote_exec", "remote_status", "load_channel", "_no_longer_opened", "close", "__init__", "setcallback", "_local_close", "reconfigure"]


def run(ctx):
    rng = random.Random(ctx.seed + 18)
    mc = gwmodel.check(ctx, [("MCChanIds", "CI"), "GW_data"] if ctx.quick else [("MCChanIds", "CI"), ("MCChanIds", "CI_big"), "GW_data", "GW_data_big"], mutants=[("MCChanIds", "CI_nolock")])
    progs = gwprograms.c18_programs(rng, 8 if ctx.quick else 60)
    opts = [{"post_yields": True}, {"post_yields": True, "chunking": "random"}, {"post_yields": False},
            {"post_yields": True, "line_level": LINE_FUNCS}]
    # the whole family once more on a gateway whose string coercion was reconfigured (nothing about channels, closes, errors or
    # remote_exec may depend on the coercion switches)
    opts.append({"post_yields": True, "reconfigure": (False, True)})
    # the real SocketIO over the scripted socket (partial sends, chunked receives)
    opts.append({"post_yields": True, "transport": "socket", "chunking": "random"})
    if not ctx.quick:
        opts.append({"post_yields": False, "transport": "socket"})
        opts.append({"post_yields": False, "reconfigure": (True, True)})
    jobs = gc.jobs_for(progs, 24 if ctx.quick else 120, 10 if ctx.quick else 40, ctx.seed, opts)
    # preemption-bounded systematic search (every schedule with <= 1 preemption, yields before and after each operation)
    searches = [(p, 1, 250 if ctx.quick else 6000, {"post_yields": True}) for p in progs[: 6 if ctx.quick else 14]]
    life = gc.chanlife_part(ctx, ["C18.", "C10.", "C03.", "C02."], 4 if ctx.quick else 6)
    res = gc.run_and_judge(ctx, jobs, ["C18.", "C02.", "C10.dropped-callback"], lambda evs: sum(1 for e in evs if e["ev"] == "ret" and e["op"] in ("newchannel", "remote_exec")) >= 3, None, searches=searches)
    gwrun.close_pool()
    ctx.coverage.update({
        "states": mc["states"], "transitions": mc["transitions"],
        "traces_validated_against_impl": res["distinct"], "evaluations": res["runs"], "distinct_nontrivial": res["nontrivial"],
        "rule": "concurrent newchannel/remote_exec calls from several threads on both sides; channels created on either side passed over channels (plain and nested in containers) and used; open/transfer/close/drop cycles with the channel table size compared before and after; run on the real Gateway + WorkerGateway pair over real Popen2IO/SocketIO with scripted pipes under seeded random / PCT / "
                "non-preemptive schedules and a preemption-bounded systematic search (<= 1 preemption) for the first programs, yielding before and after every synchronisation and IO operation and, in a quarter of the runs, before "
                "every source line of " + ", ".join(LINE_FUNCS) + "; distinct by event trace; non-trivial = at least three channels were created",
        "samples": [res["sample"]], "programs": len(progs), "verdict_histogram": res["hist"],
        "other_property_rejections": res["other_property_rejections"], "tlc": mc["detail"],
        "bounded_search": {"programs": res["bounded_searches"], "runs": res["bounded_search_runs"], "finished_exhaustively": res["bounded_searches_finished"]},
    })
    ctx.coverage["chanlife_replay"] = life
    ctx.coverage["apalache_inductive_invariant"] = gc.chanids_inductive(ctx)
    ctx.assumptions += gc.ASSUMPTIONS
    return "model_checking"
