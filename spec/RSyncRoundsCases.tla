---------------------------- MODULE RSyncRoundsCases ----------------------------
(* Behaviours of spec/RSyncRounds.tla replayed on the real RSync (real/rsync_rounds.py): one RSync object, a first send() and then one
   further add_target()+send() round per letter of the word (edit: new content of the same size and a new mtime; touch: a new mtime
   only; none).  case: [word, equal (after send k: target = source), travelled (in send k the file's content was sent), err].
   The model's run: the first round transfers the file; after that content travels exactly in the rounds that follow an edit
   (ContentTravelsOnlyWhenItDiffers), and the target equals the source after every send (TargetEqualsSourceAfterSend). *)
EXTENDS Integers, Sequences, TLC, Json, IOUtils
Cases == JsonDeserialize(IOEnv.CASES)
ExpectedTravel(c) == <<TRUE>> \o [i \in 1..Len(c.word) |-> c.word[i] = "edit"]
Verdict(c) ==
  IF c.err # "" THEN "C17.rounds.send-raised-" \o c.err
  ELSE IF Len(c.equal) # Len(c.word) + 1 THEN "HARNESS.observations-missing"
  ELSE IF \E i \in 1..Len(c.equal) : ~c.equal[i] THEN "C17.rounds.target-differs-from-the-source-after-a-later-send-of-the-same-RSync-object"
  ELSE IF \E i \in 1..Len(c.travelled) : c.travelled[i] /\ ~ExpectedTravel(c)[i] THEN "C17.rounds.content-travelled-although-it-had-not-changed"
  ELSE IF c.travelled # ExpectedTravel(c) THEN "MODEL-DRIFT.rounds.content-did-not-travel-but-the-target-is-equal"
  ELSE "ok"
ASSUME PrintT(<<"verdicts", [i \in 1..Len(Cases) |-> Verdict(Cases[i])]>>)
VARIABLE x
Init == x = 0
Next == UNCHANGED x
=============================================================================
