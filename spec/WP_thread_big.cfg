SPECIFICATION Spec
CONSTANT Spawners = {"s1", "s2"}
CONSTANT TasksPer = 2
CONSTANT Waiters = {"w1", "w2"}
CONSTANT HasPrimary = TRUE
CONSTANT MainThreadOnly = FALSE
CONSTANT HasShutter = TRUE
CONSTANT TimedWaiters = {"w2"}
CONSTANT Fix_KeepPendingTask = TRUE
INVARIANT TypeOK
INVARIANT AtMostOnce
INVARIANT OnlyAccepted
INVARIANT RunningIsAcceptedUnremoved
INVARIANT WaitallTruthful
INVARIANT RefusedOnlyAfterShutdown
PROPERTY EveryAcceptedTaskRuns
PROPERTY WaitallReturns
PROPERTY PrimaryLeaves
PROPERTY AllSpawnsAnswered
CHECK_DEADLOCK FALSE
