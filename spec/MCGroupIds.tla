------------------------------ MODULE MCGroupIds ------------------------------
EXTENDS GroupIds
K3 == [c \in {"a", "b", "c"} |-> IF c = "a" THEN -1 ELSE IF c = "b" THEN 0 ELSE -1]
\* an exit of one gateway next to a call that asks for the id of another, live one
KX == [c \in {"a", "b", "c"} |-> IF c = "a" THEN -1 ELSE IF c = "b" THEN -1 ELSE 1]
F3 == {"a"}
NoFail == {}
K4 == [c \in {"a", "b", "c", "d"} |-> IF c \in {"a", "c"} THEN -1 ELSE IF c = "b" THEN 1 ELSE 1]
=============================================================================
