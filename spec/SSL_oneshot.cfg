SPECIFICATION Spec
CONSTANTS
  Dirs = {"launch", "a", "b"}
  Launch = "launch"
  MaxConns = 3
  OneShot = TRUE
  Fix_RestoreOneShot = TRUE
  Fix_RestorePerConnection = TRUE
INVARIANT TypeOK
INVARIANT EveryConnectionStartsInLaunchDir
CHECK_DEADLOCK FALSE
