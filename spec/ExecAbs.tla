------------------------------- MODULE ExecAbs -------------------------------
(* Property automaton of C14 over observable events of a main_thread_only worker.
   Events [ev, side, op, chan, tok, res, thread, flag]:
     call remote_exec (tok = programmed outcome: 1 ret, 2 raise, 3 SystemExit, 4 blocks until the next submission is answered, 5 KeyboardInterrupt raised in the body)
     ret  remote_exec (chan)
     body_start (chan, flag = runs on the worker's main thread), body_end (chan)
     ret waitclose (chan, res = ok | RemoteError:deadlock | RemoteError:boom | RemoteError | ...)
     stuck / end / died
*)
EXTENDS Integers, Sequences, FiniteSets, TLC

Get(f, k, d) == IF k \in DOMAIN f THEN f[k] ELSE d
Put(f, k, v) == (k :> v) @@ f
Init0 == [ unobserved |-> {}, snap |-> [x \in {} |-> TRUE], want |-> [x \in {} |-> 0], seqok |-> [x \in {} |-> TRUE],
           expect |-> [x \in {} |-> 0], order |-> <<>>, open |-> {}, startedCh |-> {}, refused |-> {}, bad |-> "" ]
Flag(st, why) == IF st.bad = "" THEN [st EXCEPT !.bad = why] ELSE st

Step(st, e) ==
  CASE e.ev = "call" /\ e.op = "remote_exec" ->
         [st EXCEPT !.snap = Put(@, e.thread, st.unobserved = {}), !.want = Put(@, e.thread, e.tok)]
    [] e.ev = "ret" /\ e.op = "remote_exec" ->
         IF e.res # "ok" THEN Flag(st, "C14.remote_exec-raised")
         ELSE [st EXCEPT !.seqok = Put(@, e.chan, Get(st.snap, e.thread, FALSE)),
                         !.expect = Put(@, e.chan, Get(st.want, e.thread, 0)),
                         !.order = Append(@, e.chan), !.unobserved = @ \cup {e.chan}]
    [] e.ev = "body_start" ->
         LET s1 == [st EXCEPT !.open = @ \cup {e.chan}, !.startedCh = @ \cup {e.chan}] IN
         IF ~e.flag THEN Flag(s1, "C14.body-ran-outside-the-main-thread")
         ELSE IF st.open # {} THEN Flag(s1, "C14.two-bodies-at-the-same-time")
         ELSE IF \E c \in st.startedCh : c > e.chan THEN Flag(s1, "C14.bodies-started-out-of-submission-order")
         ELSE IF e.chan \in st.refused THEN Flag(s1, "C14.refused-with-deadlock-error-but-ran")
         ELSE s1
    [] e.ev = "body_end" -> [st EXCEPT !.open = @ \ {e.chan}]
    [] e.ev = "ret" /\ e.op = "waitclose" ->
         LET s1 == [st EXCEPT !.unobserved = @ \ {e.chan}] x == Get(st.expect, e.chan, 0) IN
         IF e.res = "RemoteError:deadlock" THEN
            LET s2 == [s1 EXCEPT !.refused = @ \cup {e.chan}] IN
            IF Get(st.seqok, e.chan, FALSE) THEN Flag(s2, "C14.false-deadlock-error-for-sequential-remote_exec")
            ELSE IF e.chan \in st.startedCh THEN Flag(s2, "C14.deadlock-error-although-the-body-ran")
            ELSE s2
         ELSE IF x \in {1, 4} /\ e.res # "ok" THEN Flag(s1, "C14.body-disturbed-or-wrong-result")
         ELSE IF x = 2 /\ e.res # "RemoteError:boom" THEN Flag(s1, "C14.body-disturbed-or-wrong-result")
         ELSE IF x \in {3, 5} /\ e.res \notin {"RemoteError", "RemoteError:boom"} THEN Flag(s1, "C14.body-disturbed-or-wrong-result")
         ELSE IF e.chan \notin st.startedCh THEN Flag(s1, "C14.answered-without-running")
         ELSE s1
    [] e.ev = "stuck" -> Flag(st, "C14.blocked-forever")
    [] e.ev = "died" -> Flag(st, "C14.thread-died")
    [] e.ev = "end" -> IF st.unobserved # {} THEN Flag(st, "C14.submission-never-answered") ELSE st
    [] OTHER -> st

RECURSIVE Run(_, _, _)
Run(st, evs, i) == IF i > Len(evs) THEN st ELSE Run(Step(st, evs[i]), evs, i + 1)
Verdict(evs) == LET f == Run(Init0, evs, 1) IN IF f.bad = "" THEN "ok" ELSE f.bad
=============================================================================
