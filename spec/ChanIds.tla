-------------------------------- MODULE ChanIds --------------------------------
(* ChannelFactory.new(): channel ids on the two sides of one gateway.
   Each side counts from its own start value (initiator 1, worker 2) in steps of 2, under the factory's
   write lock: read count, add 2, look up / create the Channel object.  A channel object received over a
   channel is created with new(id) from the id on the wire (the peer's parity).  Threads on both sides create
   channels concurrently; some ids are then sent to the other side.

   Fix_AllocUnderLock = FALSE: the counter is read and advanced outside the lock (a seeded mutant).
*)
EXTENDS Integers, FiniteSets, TLC

CONSTANTS Threads,             \* [side -> set of thread names], sides "i" and "w"
          PerThread,           \* channels each thread creates
          Fix_AllocUnderLock

Sides == {"i", "w"}
Start(s) == IF s = "i" THEN 1 ELSE 2
AllThreads == UNION {{<<s, t>> : t \in Threads[s]} : s \in Sides}

VARIABLES count,      \* [side -> next id]
          lock,       \* [side -> owner or <<"none">>]
          table,      \* [side -> set of ids with a Channel object]
          pc, loc, made,   \* per thread: pc, the id it read, how many it has created
          handed,     \* sequence-less set of <<side, thread, id>>: ids returned by newchannel()
          wire        \* ids travelling to the other side inside items: set of <<toSide, id>>

vars == <<count, lock, table, pc, loc, made, handed, wire>>
NONE == <<"none">>

Init == /\ count = [s \in Sides |-> Start(s)] /\ lock = [s \in Sides |-> NONE] /\ table = [s \in Sides |-> {}]
        /\ pc = [th \in AllThreads |-> "idle"] /\ loc = [th \in AllThreads |-> 0] /\ made = [th \in AllThreads |-> 0]
        /\ handed = {} /\ wire = {}

\* with self._writelock:
Acquire(th) == /\ pc[th] = "idle" /\ made[th] < PerThread /\ lock[th[1]] = NONE
               /\ lock' = [lock EXCEPT ![th[1]] = th] /\ pc' = [pc EXCEPT ![th] = "read"]
               /\ UNCHANGED <<count, table, loc, made, handed, wire>>
\* mutant: read and advance the counter before taking the lock
ReadNoLock(th) == /\ ~Fix_AllocUnderLock /\ pc[th] = "idle" /\ made[th] < PerThread
                  /\ loc' = [loc EXCEPT ![th] = count[th[1]]] /\ pc' = [pc EXCEPT ![th] = "bump_nolock"]
                  /\ UNCHANGED <<count, lock, table, made, handed, wire>>
BumpNoLock(th) == /\ pc[th] = "bump_nolock" /\ count' = [count EXCEPT ![th[1]] = loc[th] + 2] /\ pc' = [pc EXCEPT ![th] = "lock_late"]
                  /\ UNCHANGED <<lock, table, loc, made, handed, wire>>
LockLate(th) == /\ pc[th] = "lock_late" /\ lock[th[1]] = NONE /\ lock' = [lock EXCEPT ![th[1]] = th] /\ pc' = [pc EXCEPT ![th] = "create"]
                /\ UNCHANGED <<count, table, loc, made, handed, wire>>
Read(th) == /\ Fix_AllocUnderLock /\ pc[th] = "read" /\ loc' = [loc EXCEPT ![th] = count[th[1]]] /\ pc' = [pc EXCEPT ![th] = "bump"]
            /\ UNCHANGED <<count, lock, table, made, handed, wire>>
Bump(th) == /\ pc[th] = "bump" /\ count' = [count EXCEPT ![th[1]] = loc[th] + 2] /\ pc' = [pc EXCEPT ![th] = "create"]
            /\ UNCHANGED <<lock, table, loc, made, handed, wire>>
Create(th) == /\ pc[th] = "create"
              /\ table' = [table EXCEPT ![th[1]] = @ \cup {loc[th]}]
              /\ handed' = handed \cup {<<th[1], th[2], loc[th], made[th] + 1>>}
              /\ lock' = [lock EXCEPT ![th[1]] = NONE] /\ made' = [made EXCEPT ![th] = @ + 1] /\ pc' = [pc EXCEPT ![th] = "idle"]
              /\ UNCHANGED <<count, loc, wire>>
\* a channel object is sent to the other side inside an item ...
SendChan(th) == /\ \E h \in handed : h[1] = th[1] /\ h[2] = th[2] /\ <<IF th[1] = "i" THEN "w" ELSE "i", h[3]>> \notin wire
                      /\ wire' = wire \cup {<<IF th[1] = "i" THEN "w" ELSE "i", h[3]>>}
                /\ UNCHANGED <<count, lock, table, pc, loc, made, handed>>
\* ... and unserialised there: load_channel -> new(id) under the receiving factory's lock
LoadChan(s) == /\ lock[s] = NONE /\ \E w \in wire : w[1] = s /\ table' = [table EXCEPT ![s] = @ \cup {w[2]}]
               /\ UNCHANGED <<count, lock, pc, loc, made, handed, wire>>

Next == \/ \E th \in AllThreads : Acquire(th) \/ ReadNoLock(th) \/ BumpNoLock(th) \/ LockLate(th) \/ Read(th) \/ Bump(th) \/ Create(th) \/ SendChan(th)
        \/ \E s \in Sides : LoadChan(s)
Spec == Init /\ [][Next]_vars

\* two independently created channels never have the same id (on one side or across sides)
IdsDistinct == \A a, b \in handed : (a # b) => a[3] # b[3]
Parity == \A h \in handed : (h[3] % 2 = 1) <=> (h[1] = "i")
\* an id that arrived over the wire denotes the peer's conversation, never a locally allocated one
TransferredKeepsIdentity == \A w \in wire : \E h \in handed : h[3] = w[2] /\ h[1] # w[1]
=============================================================================
