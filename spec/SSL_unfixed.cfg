SPECIFICATION Spec
CONSTANTS
  Dirs = {"launch", "a", "b"}
  Launch = "launch"
  MaxConns = 3
  OneShot = FALSE
  Fix_RestoreOneShot = TRUE
  Fix_RestorePerConnection = FALSE
INVARIANT TypeOK
INVARIANT EveryConnectionStartsInLaunchDir
CHECK_DEADLOCK FALSE
