SPECIFICATION Spec
CONSTANT WithUnkillable = FALSE
CONSTANT Fix_BoundFinalWait = TRUE
CONSTANT Fix_GuardEndmarkerCallbacks = TRUE
CONSTANT WithLinger = TRUE
CONSTANT Fix_HardExit = TRUE
CONSTANT KillOnTimeout = TRUE
INVARIANT TerminatePrompt
INVARIANT NoChildLeft
PROPERTY TerminateReturns
CHECK_DEADLOCK FALSE
