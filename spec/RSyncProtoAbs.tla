---------------------------- MODULE RSyncProtoAbs ----------------------------
(* The sender-observable language of the 1:N rsync protocol (RSync.send on the initiator):
   what the initiator's loop may see on its _receivequeue, per target, and what it must do in response.

   Events (uniform records [e, t, k, p, n]; unused fields are 0 / ""):
     walk   k = "file" | "link" | "dir" | "other", p = index of the entry in walk (pre-) order
     get    the serve loop took (channel t, request k) from _receivequeue;
            k = "send" | "list_done" | "ack" | "links" | "done" | "eof";  p = entry index for send / ack;
            for send n = 1 iff the target sent a checksum along
     item   ... n = 1 iff the file's data went out, 0 iff None went out ("not really modified")
     item   _send_item(t, p): the file's data (or None) went to target t
     links  _process_link(t): n link records + the completion marker went to target t
     cb     the finishedcallback of target t ran
     return / raise   how send() ended (raise: an early end of a target was served, or a send to the closed channel of a failed target raised)

   Per target the requests arrive in channel order, so the sender sees
        send^a  list_done  ack^a  links  done  eof
   with the a requested paths in walk order and the acks in the order of the requests.
   The structure is broadcast completely before the first request is served.
*)
EXTENDS Integers, Sequences, FiniteSets, TLC

Ev(e, t, k, p, n) == [e |-> e, t |-> t, k |-> k, p |-> p, n |-> n]

\* mayfail: the targets that were set up to fail (a send to their closed channel may raise before their eof is served)
AInit(NT, mayfail) ==
  [files |-> {}, nlinks |-> 0, serving |-> FALSE, mayfail |-> mayfail,
   ph |-> [t \in 1..NT |-> "req"], reqs |-> [t \in 1..NT |-> <<>>], nacks |-> [t \in 1..NT |-> 0],
   cbs |-> [t \in 1..NT |-> 0], pend |-> <<>>, needData |-> FALSE, early |-> {}, ended |-> "", bad |-> ""]

Fail(st, why) == IF st.bad = "" THEN [st EXCEPT !.bad = why] ELSE st
Last(s) == s[Len(s)]

StepGet(st, ev) ==
  LET t == ev.t  ph == st.ph[t] IN
  CASE ev.k = "send" ->
         IF ph # "req" THEN Fail(st, "C17.proto.file-requested-after-list-done")
         ELSE IF ev.p \notin st.files THEN Fail(st, "C17.proto.request-for-a-path-that-was-not-announced-as-file")
         ELSE IF st.reqs[t] # <<>> /\ Last(st.reqs[t]) >= ev.p THEN Fail(st, "C17.proto.requests-not-in-walk-order")
         ELSE [st EXCEPT !.reqs[t] = Append(@, ev.p), !.pend = <<"item", t, ev.p>>, !.needData = (ev.n = 0)]
    [] ev.k = "list_done" ->
         IF ph # "req" THEN Fail(st, "C17.proto.list-done-twice") ELSE [st EXCEPT !.ph[t] = "ack"]
    [] ev.k = "ack" ->
         IF ph # "ack" THEN Fail(st, "C17.proto.ack-outside-the-data-phase")
         ELSE IF st.nacks[t] >= Len(st.reqs[t]) THEN Fail(st, "C17.proto.more-acks-than-requests")
         ELSE IF st.reqs[t][st.nacks[t] + 1] # ev.p THEN Fail(st, "C17.proto.ack-for-another-path-than-requested")
         ELSE [st EXCEPT !.nacks[t] = @ + 1]
    [] ev.k = "links" ->
         IF ph # "ack" \/ st.nacks[t] # Len(st.reqs[t]) THEN Fail(st, "C17.proto.links-requested-before-every-file-was-acknowledged")
         ELSE [st EXCEPT !.ph[t] = "links", !.pend = <<"links", t, st.nlinks>>]
    [] ev.k = "done" ->
         IF ph # "links" THEN Fail(st, "C17.proto.done-before-links")
         ELSE [st EXCEPT !.ph[t] = "done", !.pend = <<"cb", t, 0>>]
    [] ev.k = "eof" ->
         IF ph = "done" THEN [st EXCEPT !.ph[t] = "closed"]
         ELSE IF ph = "closed" THEN Fail(st, "C17.proto.channel-ended-twice")
         ELSE [st EXCEPT !.early = @ \cup {t}, !.pend = <<"raise", t, 0>>]
    [] OTHER -> Fail(st, "C17.proto.unknown-request")

Step(st, ev) ==
  IF st.bad # "" THEN st
  ELSE IF st.ended # "" THEN Fail(st, "C17.proto.event-after-send-ended")
  ELSE IF st.pend # <<>> /\ ev.e # "raise" /\ ~(ev.e = st.pend[1] /\ ev.t = st.pend[2]
                              /\ (ev.e = "item" => ev.p = st.pend[3]) /\ (ev.e = "links" => ev.n = st.pend[3])) THEN
         Fail(st, CASE st.pend[1] = "item" -> "C17.proto.request-answered-with-another-file"
                    [] st.pend[1] = "links" -> "C17.proto.links-request-not-answered-with-all-links"
                    [] st.pend[1] = "cb" -> "C17.proto.finished-callback-not-called"
                    [] OTHER -> "C17.proto.early-end-of-a-target-not-raised")
  ELSE
  CASE ev.e = "walk" ->
         IF st.serving THEN Fail(st, "C17.proto.structure-sent-after-serving-began")
         ELSE IF ev.k = "file" THEN [st EXCEPT !.files = @ \cup {ev.p}]
         ELSE IF ev.k = "link" THEN [st EXCEPT !.nlinks = @ + 1]
         ELSE st
    [] ev.e = "get" -> StepGet([st EXCEPT !.serving = TRUE], ev)
    [] ev.e = "item" -> IF st.pend = <<>> THEN Fail(st, "C17.proto.item-sent-without-request")
                        \* a target that sent no checksum has nothing usable: "not really modified" (None) is no answer for it
                        ELSE IF st.needData /\ ev.n = 0 THEN Fail(st, "C17.proto.request-without-checksum-answered-without-data")
                        ELSE [st EXCEPT !.pend = <<>>]
    [] ev.e = "links" -> IF st.pend = <<>> THEN Fail(st, "C17.proto.links-sent-without-request") ELSE [st EXCEPT !.pend = <<>>]
    [] ev.e = "cb" ->
         IF st.pend = <<>> \/ st.cbs[ev.t] > 0 THEN Fail(st, "C17.proto.finished-callback-called-twice-or-early")
         ELSE [st EXCEPT !.pend = <<>>, !.cbs[ev.t] = @ + 1]
    [] ev.e = "return" ->
         IF \E t \in DOMAIN st.ph : st.ph[t] \notin {"done", "closed"} THEN Fail([st EXCEPT !.ended = "return"], "C17.proto.send-returned-before-every-target-was-done")
         ELSE [st EXCEPT !.ended = "return"]
    [] ev.e = "raise" ->
         IF st.early = {} /\ st.mayfail = {} THEN Fail([st EXCEPT !.ended = "raise"], "C17.proto.send-raised-although-no-target-failed")
         ELSE [st EXCEPT !.ended = "raise", !.pend = <<>>]
    [] OTHER -> Fail(st, "C17.proto.unknown-event")

RECURSIVE RunFrom(_, _, _)
RunFrom(st, tr, i) == IF i > Len(tr) THEN st ELSE RunFrom(Step(st, tr[i]), tr, i + 1)
Run(NT, mayfail, tr) == RunFrom(AInit(NT, mayfail), tr, 1)

\* verdict of a complete trace
Finish(st) ==
  IF st.bad # "" THEN st.bad
  ELSE IF st.ended = "" THEN "C17.proto.send-never-ended"
  ELSE "ok"
=============================================================================
