------------------------------- MODULE Gateway -------------------------------
(* One channel of a gateway connection at shared-state-write granularity.

   Side A sends items 1..K on the channel and then closes it (explicit close,
   close with error, or end of the remote_exec body -- all a CLOSE / CLOSE_ERROR
   frame).  Side B runs the receiver thread (Message.received under
   _receivelock: _local_receive, _local_close write by write), R user threads
   in Channel.receive() loops, one waitclose() caller, optionally one thread
   that calls setcallback() (under _receivelock) at an arbitrary moment, and
   one thread that may call Channel.close() on B's end concurrently.
   After a thread has observed the close it probes isclosed().

   Frames are atomic here (justified by Wire.tla).

   Fix_CloseFlagFirst = FALSE is the pinned tree: _local_close queues the
   ENDMARKER and runs the endmarker callback before it sets _closed.
*)
EXTENDS Integers, Sequences, FiniteSets, TLC

CONSTANTS K,                 \* items sent by A
          Receivers,         \* set of receiver thread names on B
          WithError,         \* BOOLEAN: A closes with an error
          WithCallback,      \* BOOLEAN: a thread on B calls setcallback(endmarker) at some moment
          WithLocalClose,    \* BOOLEAN: a thread on B calls close() on its end at some moment
          Fix_CloseFlagFirst,
          EndCallbackRaises, \* BOOLEAN: the callback B registers raises when it is handed the endmarker
          Fix_GuardEndmarkerCallback   \* FALSE: that exception escapes through the message handler and ends B's receiver thread

END == 0   \* the ENDMARKER in the item queue (items are 1..K)

VARIABLES
  apc,        \* A: number of items sent so far, then "closed"
  wire,       \* frames in flight A -> B: <<"data", k>> | <<"close">> | <<"error">>
  back,       \* frames B -> A (only counted): close frames sent by B
  \* ---- B's channel object
  items,      \* the channel's item queue object (receivers inside receive() keep using it)
  taken,      \* channel._items is None: a callback took over
  closed,     \* channel._closed
  rclosed,    \* channel._receiveclosed (event flag)
  errs,       \* number of entries in channel._remoteerrors
  registered, \* id in factory._channels
  callback,   \* "none" | "set"   (factory._callbacks[id])
  rlock,      \* _receivelock owner: "none" | "recv" | "cbthread"
  \* ---- B's receiver thread
  dpc, dframe,
  \* ---- user threads on B
  rpc, rlocal,  \* receivers: pc and the dequeued item
  wpc,          \* waitclose caller
  cpc,          \* setcallback caller
  lpc,          \* local close caller
  \* ---- ghosts
  sentLog, gotLog, cbLog, endCalls, eofBy, errBy, probe

vars == <<apc, wire, back, items, taken, closed, rclosed, errs, registered, callback, rlock, dpc, dframe,
          rpc, rlocal, wpc, cpc, lpc, sentLog, gotLog, cbLog, endCalls, eofBy, errBy, probe>>

Init ==
  /\ apc = 0 /\ wire = <<>> /\ back = 0
  /\ items = <<>> /\ taken = FALSE /\ closed = FALSE /\ rclosed = FALSE /\ errs = 0 /\ registered = TRUE
  /\ callback = "none" /\ rlock = "none"
  /\ dpc = "idle" /\ dframe = <<"none">>
  /\ rpc = [r \in Receivers |-> "get"] /\ rlocal = [r \in Receivers |-> -1]
  /\ wpc = "wait"
  /\ cpc = (IF WithCallback THEN "idle" ELSE "absent")
  /\ lpc = (IF WithLocalClose THEN "idle" ELSE "absent")
  /\ sentLog = <<>> /\ gotLog = <<>> /\ cbLog = <<>> /\ endCalls = 0 /\ eofBy = {} /\ errBy = {} /\ probe = {}

UA == UNCHANGED <<apc, wire, sentLog>>
UChan == UNCHANGED <<items, taken, closed, rclosed, errs, registered, callback>>
UDisp == UNCHANGED <<dpc, dframe>>
UUsers == UNCHANGED <<rpc, rlocal, wpc, cpc, lpc>>
UGhost == UNCHANGED <<gotLog, cbLog, endCalls, eofBy, errBy, probe>>

\* ------------------------------------------------------------------ side A
ASend ==
  /\ apc \in 0..(K - 1)
  /\ wire' = Append(wire, <<"data", apc + 1>>) /\ sentLog' = Append(sentLog, apc + 1) /\ apc' = apc + 1
  /\ UNCHANGED <<back, rlock>> /\ UChan /\ UDisp /\ UUsers /\ UGhost
AClose ==
  /\ apc = K
  /\ wire' = Append(wire, IF WithError THEN <<"error">> ELSE <<"close">>) /\ apc' = K + 1
  /\ UNCHANGED <<back, rlock, sentLog>> /\ UChan /\ UDisp /\ UUsers /\ UGhost

\* ------------------------------------------------- B's receiver thread
\* from_io + "with self._receivelock"
DTake ==
  /\ dpc = "idle" /\ wire # <<>> /\ rlock = "none"
  /\ dframe' = Head(wire) /\ wire' = Tail(wire) /\ rlock' = "recv"
  /\ dpc' = IF Head(wire)[1] = "data" THEN "data" ELSE "lc_err"
  /\ UNCHANGED <<apc, back, sentLog, rpc, rlocal, wpc, cpc, lpc>> /\ UChan /\ UGhost

\* _local_receive: callback registered -> call it; else queue.put; else drop
DData ==
  /\ dpc = "data"
  /\ IF callback = "set" THEN cbLog' = Append(cbLog, dframe[2]) /\ UNCHANGED items
     ELSE IF registered /\ ~taken THEN items' = Append(items, dframe[2]) /\ UNCHANGED cbLog
     ELSE UNCHANGED <<items, cbLog>>
  /\ dpc' = "idle" /\ rlock' = "none" /\ dframe' = <<"none">>
  /\ UA /\ UNCHANGED <<back, taken, closed, rclosed, errs, registered, callback, gotLog, endCalls, eofBy, errBy, probe>> /\ UUsers

\* _local_close, one shared-state write per action
DLcErr ==     \* channel lookup; append remote error
  /\ dpc = "lc_err"
  /\ IF ~registered THEN dpc' = "nlo" /\ UNCHANGED errs      \* channel already forgotten: only _no_longer_opened
     ELSE /\ errs' = IF dframe[1] = "error" THEN errs + 1 ELSE errs
          /\ dpc' = IF Fix_CloseFlagFirst THEN "lc_flag" ELSE "lc_put"
  /\ UA /\ UNCHANGED <<back, items, taken, closed, rclosed, registered, callback, rlock, dframe>> /\ UUsers /\ UGhost
DLcFlag ==    \* channel._closed = True
  /\ dpc = "lc_flag"
  /\ closed' = TRUE
  /\ dpc' = IF Fix_CloseFlagFirst THEN "lc_put" ELSE "lc_set"
  /\ UA /\ UNCHANGED <<back, items, taken, rclosed, errs, registered, callback, rlock, dframe>> /\ UUsers /\ UGhost
DLcPut ==     \* queue.put(ENDMARKER)
  /\ dpc = "lc_put"
  /\ items' = IF taken THEN items ELSE Append(items, END)
  /\ dpc' = "lc_nlo"
  /\ UA /\ UNCHANGED <<back, taken, closed, rclosed, errs, registered, callback, rlock, dframe>> /\ UUsers /\ UGhost
DLcNlo ==     \* _no_longer_opened: forget channel and callback, fire endmarker
  /\ dpc \in {"lc_nlo", "nlo"}
  /\ registered' = FALSE /\ callback' = "none"
  /\ endCalls' = IF callback = "set" THEN endCalls + 1 ELSE endCalls
  /\ IF callback = "set" /\ EndCallbackRaises /\ ~Fix_GuardEndmarkerCallback
     THEN dpc' = "dead" /\ rlock' = "none"      \* the "with _receivelock" block is left by the exception, the thread ends
     ELSE IF dpc = "nlo" THEN dpc' = "idle" /\ rlock' = "none"
     ELSE dpc' = (IF Fix_CloseFlagFirst THEN "lc_set" ELSE "lc_flag") /\ UNCHANGED rlock
  /\ UA /\ UNCHANGED <<back, items, taken, closed, rclosed, errs, dframe, gotLog, cbLog, eofBy, errBy, probe>> /\ UUsers
DLcSet ==     \* channel._receiveclosed.set(); leave the receive lock
  /\ dpc = "lc_set"
  /\ rclosed' = TRUE /\ dpc' = "idle" /\ rlock' = "none"
  /\ UA /\ UNCHANGED <<back, items, taken, closed, errs, registered, callback, dframe>> /\ UUsers /\ UGhost

\* ------------------------------------------------------ Channel.receive()
RGet(r) ==    \* itemqueue.get(): the linearisation point of delivery
  /\ rpc[r] = "get" /\ items # <<>>
  /\ rlocal' = [rlocal EXCEPT ![r] = Head(items)] /\ items' = Tail(items)
  /\ gotLog' = IF Head(items) = END THEN gotLog ELSE Append(gotLog, Head(items))
  /\ rpc' = [rpc EXCEPT ![r] = IF Head(items) = END THEN "reput" ELSE "get"]
  /\ UA /\ UNCHANGED <<back, taken, closed, rclosed, errs, registered, callback, rlock, wpc, cpc, lpc, cbLog, endCalls, eofBy, errBy, probe>> /\ UDisp
RRefused(r) ==  \* a callback took the queue before this receive() started: OSError
  /\ rpc[r] = "get" /\ taken
  /\ rpc' = [rpc EXCEPT ![r] = "done"]
  /\ UA /\ UNCHANGED <<back, rlock, rlocal, wpc, cpc, lpc>> /\ UChan /\ UDisp /\ UGhost
RReput(r) ==    \* itemqueue.put(ENDMARKER) for other receivers; raise error or EOFError
  /\ rpc[r] = "reput"
  /\ items' = Append(items, END)
  /\ IF errs > 0 THEN errs' = errs - 1 /\ errBy' = errBy \cup {r} /\ UNCHANGED eofBy
     ELSE eofBy' = eofBy \cup {r} /\ UNCHANGED <<errs, errBy>>
  /\ rpc' = [rpc EXCEPT ![r] = "probe"]
  /\ UA /\ UNCHANGED <<back, taken, closed, rclosed, registered, callback, rlock, rlocal, wpc, cpc, lpc, gotLog, cbLog, endCalls, probe>> /\ UDisp
RProbe(r) ==    \* after having observed the end: isclosed()
  /\ rpc[r] = "probe"
  /\ probe' = probe \cup {<<r, closed>>}
  /\ rpc' = [rpc EXCEPT ![r] = "done"]
  /\ UA /\ UNCHANGED <<back, rlock, rlocal, wpc, cpc, lpc, gotLog, cbLog, endCalls, eofBy, errBy>> /\ UChan /\ UDisp

\* ------------------------------------------------------------ waitclose()
WWake ==
  /\ wpc = "wait" /\ rclosed
  /\ wpc' = "probe"
  /\ IF errs > 0 THEN errs' = errs - 1 /\ errBy' = errBy \cup {"waiter"} ELSE UNCHANGED <<errs, errBy>>
  /\ UA /\ UNCHANGED <<back, items, taken, closed, rclosed, registered, callback, rlock, rpc, rlocal, cpc, lpc, gotLog, cbLog, endCalls, eofBy, probe>> /\ UDisp
WProbe ==
  /\ wpc = "probe"
  /\ probe' = probe \cup {<<"waiter", closed>>} /\ wpc' = "done"
  /\ UA /\ UNCHANGED <<back, rlock, rpc, rlocal, cpc, lpc, gotLog, cbLog, endCalls, eofBy, errBy>> /\ UChan /\ UDisp

\* ----------------------------------------- setcallback(cb, endmarker=...)
\* the whole body runs under _receivelock, i.e. atomically w.r.t. message dispatch, but not w.r.t. receive()
CLock ==
  /\ cpc = "idle" /\ rlock = "none" /\ ~taken
  /\ rlock' = "cbthread" /\ cpc' = "drain"
  /\ UA /\ UNCHANGED <<back, rpc, rlocal, wpc, lpc>> /\ UChan /\ UDisp /\ UGhost
CDrain ==   \* self._items = None, then one queued item per step (receivers may take items in between)
  /\ cpc = "drain"
  /\ taken' = TRUE
  /\ IF items = <<>> THEN
        /\ callback' = IF closed \/ rclosed THEN callback ELSE "set"
        /\ cpc' = "done" /\ rlock' = "none"
        /\ UNCHANGED <<items, cbLog, endCalls>>
     ELSE IF Head(items) = END THEN
        \* put it back for other receivers, fire the endmarker
        /\ items' = Append(Tail(items), END) /\ endCalls' = endCalls + 1 /\ cpc' = "done" /\ rlock' = "none"
        /\ UNCHANGED <<callback, cbLog>>
     ELSE
        /\ cbLog' = Append(cbLog, Head(items)) /\ items' = Tail(items)
        /\ UNCHANGED <<callback, endCalls, cpc, rlock>>
  /\ UA /\ UNCHANGED <<back, closed, rclosed, errs, registered, rpc, rlocal, wpc, lpc, gotLog, eofBy, errBy, probe>> /\ UDisp

\* -------------------------------------------------- Channel.close() on B
LStart ==   \* not closed: send the close frame unless the other side closed already
  /\ lpc = "idle"
  /\ IF closed THEN lpc' = "done" /\ UNCHANGED back
     ELSE lpc' = "flag" /\ back' = IF rclosed THEN back ELSE back + 1
  /\ UA /\ UNCHANGED <<rlock, rpc, rlocal, wpc, cpc>> /\ UChan /\ UDisp /\ UGhost
LFlag ==
  /\ lpc = "flag" /\ closed' = TRUE /\ lpc' = "set"
  /\ UA /\ UNCHANGED <<back, items, taken, rclosed, errs, registered, callback, rlock, rpc, rlocal, wpc, cpc>> /\ UDisp /\ UGhost
LSet ==
  /\ lpc = "set" /\ rclosed' = TRUE /\ lpc' = "put"
  /\ UA /\ UNCHANGED <<back, items, taken, closed, errs, registered, callback, rlock, rpc, rlocal, wpc, cpc>> /\ UDisp /\ UGhost
LPut ==
  /\ lpc = "put" /\ items' = (IF taken THEN items ELSE Append(items, END)) /\ lpc' = "nlo"
  /\ UA /\ UNCHANGED <<back, taken, closed, rclosed, errs, registered, callback, rlock, rpc, rlocal, wpc, cpc>> /\ UDisp /\ UGhost
LNlo ==
  /\ lpc = "nlo" /\ registered' = FALSE /\ callback' = "none"
  /\ endCalls' = IF callback = "set" THEN endCalls + 1 ELSE endCalls
  /\ lpc' = "done"
  /\ UA /\ UNCHANGED <<back, items, taken, closed, rclosed, errs, rlock, rpc, rlocal, wpc, cpc, gotLog, cbLog, eofBy, errBy, probe>> /\ UDisp

Next ==
  \/ ASend \/ AClose
  \/ DTake \/ DData \/ DLcErr \/ DLcFlag \/ DLcPut \/ DLcNlo \/ DLcSet
  \/ \E r \in Receivers : RGet(r) \/ RRefused(r) \/ RReput(r) \/ RProbe(r)
  \/ WWake \/ WProbe
  \/ CLock \/ CDrain
  \/ LStart \/ LFlag \/ LSet \/ LPut \/ LNlo

Fairness ==
  /\ WF_vars(ASend) /\ WF_vars(AClose)
  /\ WF_vars(DTake) /\ WF_vars(DData) /\ WF_vars(DLcErr) /\ WF_vars(DLcFlag) /\ WF_vars(DLcPut) /\ WF_vars(DLcNlo) /\ WF_vars(DLcSet)
  /\ \A r \in Receivers : WF_vars(RGet(r)) /\ WF_vars(RRefused(r)) /\ WF_vars(RReput(r)) /\ WF_vars(RProbe(r))
  /\ WF_vars(WWake) /\ WF_vars(WProbe) /\ WF_vars(CLock) /\ WF_vars(CDrain)
  /\ WF_vars(LStart) /\ WF_vars(LFlag) /\ WF_vars(LSet) /\ WF_vars(LPut) /\ WF_vars(LNlo)

Spec == Init /\ [][Next]_vars /\ Fairness

\* ------------------------------------------------------------- properties
IsPrefix(s, t) == Len(s) <= Len(t) /\ \A i \in 1..Len(s) : s[i] = t[i]
Delivered == gotLog \o cbLog     \* what user code obtained through receive() / the callback

\* C02: in order, no duplication, nothing invented (receive-only and callback-only histories)
OrderedDelivery ==
  /\ IsPrefix(gotLog, sentLog) \/ cbLog # <<>>
  /\ \A i, j \in 1..Len(Delivered) : i < j => Delivered[i] # Delivered[j]
  /\ \A i \in 1..Len(Delivered) : Delivered[i] \in 1..K
CallbackOrdered == \A i, j \in 1..Len(cbLog) : i < j => cbLog[i] < cbLog[j]
\* C03 (a): a receiver that saw EOF because the peer closed has left nothing behind
EofMeansComplete ==
  (eofBy # {} /\ ~WithLocalClose /\ ~WithCallback) => gotLog = sentLog /\ Len(sentLog) = K
\* C03 (c): whoever observed the peer's close sees isclosed() true
ObserverSeesClosed == \A p \in probe : p[2] = TRUE
\* C07: the error is raised exactly once
ErrorOnce == Cardinality(errBy) <= 1
\* C10: at most one endmarker, and none before the callback got all queued items of a closed channel
EndmarkerOnce == endCalls <= 1

\* C07: whatever a callback does with its endmarker, the receiver thread (and with it every other channel of the gateway) lives on
ReceiverThreadSurvives == dpc # "dead"

\* liveness
ReceiversFinish == \A r \in Receivers : <>(rpc[r] = "done")
WaitcloseReturns == <>(wpc = "done")
ErrorDelivered == (WithError /\ ~WithLocalClose /\ ~WithCallback) => <>(errBy # {})
CallbackGetsAllWhenAlone ==
  (WithCallback /\ Receivers = {} /\ ~WithLocalClose) => <>[](Len(cbLog) = K /\ endCalls = 1)
=============================================================================
