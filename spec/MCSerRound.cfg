SPECIFICATION Spec
CONSTANT Big = FALSE
INVARIANT RoundTrip
INVARIANT NoDecodeErr
INVARIANT DumpErrIff
INVARIANT WellFormed
INVARIANT PrefixNeverLoads
PROPERTY Terminates
CHECK_DEADLOCK FALSE
