SPECIFICATION Spec
INVARIANT SourceBootstrapNeedsNothing
INVARIANT ShippedIsSelfContained
PROPERTY ComesUp
CHECK_DEADLOCK FALSE
