------------------------------- MODULE StrConfig -------------------------------
(* Plumbing of the two string-coercion switches (py2str_as_py3str, py3str_as_py2str) through gateways and channels:
     - every gateway starts with (TRUE, FALSE);
     - Gateway.reconfigure (initiator only) sets its own pair and, by a RECONFIGURE frame with channel id 0, the peer's;
     - a channel object copies its gateway's pair when it is created (newchannel / remote_exec locally, unserialisation
       of a channel or the first RECONFIGURE frame for that id remotely);
     - Channel.reconfigure sets the local channel's pair and, by a RECONFIGURE frame with the channel id, the peer channel's;
     - an item is decoded when its DATA frame is dispatched, with the pair of the receiving channel at that moment;
     - setcallback stores the channel's pair with the callback; it is used only once the channel object is gone
       (the initiator dropped it: LAST_MESSAGE, the peer goes on sending) - while the object lives its current pair wins.

   Channels: "c" (a remote_exec channel, exists on both sides from the start), "d" (created by L with newchannel and sent
   to R over c, where unserialising it creates R's end).  Sides "L" (initiator) and "R" (worker).

   Operations are functions state -> state (sequential semantics: every frame is dispatched before the next operation);
   StrConfigCases enumerates the operation sequences and judges their replays on the real gateway pair. *)
EXTENDS Integers, Sequences, FiniteSets, TLC

Default == <<TRUE, FALSE>>
Unborn == <<>>
Init0 == [gw |-> [s \in {"L", "R"} |-> Default],
          ch |-> [s \in {"L", "R"} |-> [c \in {"c", "d"} |-> IF c = "c" THEN Default ELSE Unborn]],
          cbk |-> [s \in {"L", "R"} |-> [c \in {"c", "d"} |-> Unborn]],      \* the pair stored with the callback (Unborn: no callback)
          dead |-> [s \in {"L", "R"} |-> [c \in {"c", "d"} |-> FALSE]]]      \* the channel object was dropped (callback left behind)
Other(s) == IF s = "L" THEN "R" ELSE "L"

GwReconf(st, cfg) == [st EXCEPT !.gw = [s \in {"L", "R"} |-> cfg]]       \* only the initiator's Gateway has reconfigure()
CanNewChan(st) == st.ch["L"]["d"] = Unborn /\ st.cbk["R"]["c"] = Unborn /\ ~st.dead["L"]["c"]     \* d travels over c and is received there
NewChan(st) == [st EXCEPT !.ch["L"]["d"] = st.gw["L"], !.ch["R"]["d"] = st.gw["R"]]
CanChReconf(st, s, c) == st.ch[s][c] # Unborn /\ ~st.dead["L"][c] /\ ~st.dead["R"][c]
CanSetCb(st, s, c) == st.ch[s][c] # Unborn /\ ~st.dead[s][c] /\ st.cbk[s][c] = Unborn
SetCb(st, s, c) == [st EXCEPT !.cbk[s][c] = st.ch[s][c]]
CanDrop(st, c) == st.ch["L"][c] # Unborn /\ ~st.dead["L"][c] /\ st.cbk["L"][c] # Unborn      \* only the initiator's end, only with a callback
Drop(st, c) == [st EXCEPT !.dead["L"][c] = TRUE]
ChReconf(st, s, c, cfg) == [st EXCEPT !.ch[s][c] = cfg, !.ch[Other(s)][c] = cfg]
\* side s sends a probe on channel c: the pair it is decoded with
CanProbe(st, s, c) == st.ch[s][c] # Unborn /\ st.ch[Other(s)][c] # Unborn /\ ~st.dead[s][c]
DecodedWith(st, s, c) == IF st.dead[Other(s)][c] THEN st.cbk[Other(s)][c] ELSE st.ch[Other(s)][c]
=============================================================================
