------------------------------- MODULE StrConfig -------------------------------
(* Plumbing of the two string-coercion switches (py2str_as_py3str, py3str_as_py2str) through gateways and channels:
     - every gateway starts with (TRUE, FALSE);
     - Gateway.reconfigure (initiator only) sets its own pair and, by a RECONFIGURE frame with channel id 0, the peer's;
     - a channel object copies its gateway's pair when it is created (newchannel / remote_exec locally, unserialisation
       of a channel or the first RECONFIGURE frame for that id remotely);
     - Channel.reconfigure sets the local channel's pair and, by a RECONFIGURE frame with the channel id, the peer channel's;
     - an item is decoded when its DATA frame is dispatched, with the pair of the receiving channel at that moment.

   Channels: "c" (a remote_exec channel, exists on both sides from the start), "d" (created by L with newchannel and sent
   to R over c, where unserialising it creates R's end).  Sides "L" (initiator) and "R" (worker).

   Operations are functions state -> state (sequential semantics: every frame is dispatched before the next operation);
   StrConfigCases enumerates the operation sequences and judges their replays on the real gateway pair. *)
EXTENDS Integers, Sequences, FiniteSets, TLC

Default == <<TRUE, FALSE>>
Unborn == <<>>
Init0 == [gw |-> [s \in {"L", "R"} |-> Default],
          ch |-> [s \in {"L", "R"} |-> [c \in {"c", "d"} |-> IF c = "c" THEN Default ELSE Unborn]]]
Other(s) == IF s = "L" THEN "R" ELSE "L"

GwReconf(st, cfg) == [st EXCEPT !.gw = [s \in {"L", "R"} |-> cfg]]       \* only the initiator's Gateway has reconfigure()
CanNewChan(st) == st.ch["L"]["d"] = Unborn
NewChan(st) == [st EXCEPT !.ch["L"]["d"] = st.gw["L"], !.ch["R"]["d"] = st.gw["R"]]
CanChReconf(st, s, c) == st.ch[s][c] # Unborn
ChReconf(st, s, c, cfg) == [st EXCEPT !.ch[s][c] = cfg, !.ch[Other(s)][c] = cfg]
\* side s sends a probe on channel c: the pair it is decoded with
CanProbe(st, s, c) == st.ch[s][c] # Unborn /\ st.ch[Other(s)][c] # Unborn
DecodedWith(st, s, c) == st.ch[Other(s)][c]
=============================================================================
