-------------------------- MODULE ClosedReceiveCases --------------------------
(* C03 on a real gateway (real/closedrecv_real.py): the peer has closed the channel; one thread calls receive() in a loop, another
   receive(timeout=20) - each call must raise EOFError ("EOF forever after"), whoever holds the end marker at that moment.
   case: [eof, timeout, other (outcomes of the timed calls), plain_eof, plain_other, err] *)
EXTENDS Integers, TLC, Json, IOUtils, Sequences
Cases == JsonDeserialize(IOEnv.CASES)
Verdict(c) ==
  IF c.err # "" THEN "HARNESS." \o c.err
  ELSE IF c.timeout > 0 THEN "C03.timed-receive-on-a-closed-channel-timed-out-instead-of-raising-EOFError"
  ELSE IF c.other > 0 \/ c.plain_other > 0 THEN "C03.receive-on-a-closed-channel-did-not-raise-EOFError"
  ELSE IF c.eof = 0 \/ c.plain_eof = 0 THEN "HARNESS.no-calls-made"
  ELSE "ok"
ASSUME PrintT(<<"verdicts", [i \in 1..Len(Cases) |-> Verdict(Cases[i])]>>)
VARIABLE x
Init == x = 0
Next == UNCHANGED x
=============================================================================
