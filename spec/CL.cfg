SPECIFICATION Spec
CONSTANTS
  K = 2
  Fix_CloseFromSendonly = TRUE
INVARIANT NoLeak
INVARIANT EndAtMostOnce
INVARIANT EndDelivered
INVARIANT NothingAfterEnd
INVARIANT NothingBehindEndmarker
CHECK_DEADLOCK FALSE
