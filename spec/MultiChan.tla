------------------------------- MODULE MultiChan -------------------------------
(* MultiChannel over the member channels of one Group.remote_exec round (multi.py): waitclose() and send_each() as the loops they
   are, against members that close (normally or with an error) at any moment.

   member[i]: "open" | "closed" | "failed" (closed with a remote error that waitclose() on that channel raises once)
   waitclose(): for each member in order: Channel.waitclose() (blocks while the member is open; raises the member's error, which is
                remembered if it is the first one); after the loop the first error is raised.
   send_each(): for each member in order: Channel.send(item), which refuses a closed member with OSError.

   Fix_WaitForAll = FALSE: stop at the first member that reports an error (returns while later members still run: for
                           main_thread_only members the next Group.remote_exec then gets the deadlock error).
   Fix_SendChecksClosed = FALSE: send_each writes the data frames itself, without Channel.send's check.

   C03 / C07 / C14: when waitclose() is over - by returning or by raising - every member is closed; what it raises is the error of
   the first failing member in member order; no data frame goes out on a member that is closed. *)
EXTENDS Integers, FiniteSets, Sequences, TLC
CONSTANTS N, Fix_WaitForAll, Fix_SendChecksClosed
Members == 1..N

VARIABLES member,      \* [Members -> {"open", "closed", "failed"}]
          wpc,         \* waitclose: "idle" | "loop" | "returned" | "raised"
          widx,        \* member the loop is at
          first,       \* index of the first member whose error was seen (0: none)
          spc,         \* send_each: "idle" | "loop" | "done" | "refused"
          sidx,
          framesAfterClose   \* data frames written for a member that was closed at that moment
vars == <<member, wpc, widx, first, spc, sidx, framesAfterClose>>

Init == /\ member = [i \in Members |-> "open"] /\ wpc = "idle" /\ widx = 1 /\ first = 0
        /\ spc = "idle" /\ sidx = 1 /\ framesAfterClose = 0

\* environment: a member's remote code ends, normally or by raising
MemberEnds(i, how) == member[i] = "open" /\ member' = [member EXCEPT ![i] = how]
                      /\ UNCHANGED <<wpc, widx, first, spc, sidx, framesAfterClose>>

WStart == wpc = "idle" /\ wpc' = "loop" /\ UNCHANGED <<member, widx, first, spc, sidx, framesAfterClose>>
\* Channel.waitclose() of member widx returns / raises (only once the member is closed)
WStep == /\ wpc = "loop" /\ widx <= N /\ member[widx] # "open"
         /\ LET failed == member[widx] = "failed" IN
            /\ first' = IF failed /\ first = 0 THEN widx ELSE first
            /\ IF failed /\ ~Fix_WaitForAll THEN wpc' = "raised" /\ UNCHANGED widx
               ELSE widx' = widx + 1 /\ UNCHANGED wpc
         /\ UNCHANGED <<member, spc, sidx, framesAfterClose>>
WEnd == /\ wpc = "loop" /\ widx > N
        /\ wpc' = IF first # 0 THEN "raised" ELSE "returned"
        /\ UNCHANGED <<member, widx, first, spc, sidx, framesAfterClose>>

SStart == spc = "idle" /\ spc' = "loop" /\ UNCHANGED <<member, wpc, widx, first, sidx, framesAfterClose>>
SStep == /\ spc = "loop" /\ sidx <= N
         /\ IF member[sidx] # "open"
            THEN IF Fix_SendChecksClosed THEN spc' = "refused" /\ UNCHANGED <<sidx, framesAfterClose>>
                 ELSE framesAfterClose' = framesAfterClose + 1 /\ sidx' = sidx + 1 /\ UNCHANGED spc
            ELSE sidx' = sidx + 1 /\ UNCHANGED <<spc, framesAfterClose>>
         /\ UNCHANGED <<member, wpc, widx, first>>
SEnd == spc = "loop" /\ sidx > N /\ spc' = "done" /\ UNCHANGED <<member, wpc, widx, first, sidx, framesAfterClose>>

Next == \/ \E i \in Members, how \in {"closed", "failed"} : MemberEnds(i, how)
        \/ WStart \/ WStep \/ WEnd \/ SStart \/ SStep \/ SEnd
Spec == Init /\ [][Next]_vars /\ WF_vars(Next)

TypeOK == member \in [Members -> {"open", "closed", "failed"}] /\ wpc \in {"idle", "loop", "returned", "raised"} /\ first \in 0..N
\* when waitclose() is over, every member is closed
AllClosedWhenOver == wpc \in {"returned", "raised"} => \A i \in Members : member[i] # "open"
\* what is raised is the first failing member's error; nothing is raised when nobody failed
RaisesTheFirstFailure == /\ wpc = "raised" => (first # 0 /\ member[first] = "failed" /\ \A j \in 1..(first - 1) : member[j] # "failed")
                         /\ wpc = "returned" => \A i \in Members : member[i] = "closed"
NoFrameAfterClose == framesAfterClose = 0
\* waitclose() ends once every member has ended
WaitcloseEnds == (wpc = "loop" /\ \A i \in Members : member[i] # "open") ~> wpc \in {"returned", "raised"}
=============================================================================
