------------------------------- MODULE TermCases -------------------------------
(* M5 for C05 / C11: timed observations of real processes judged with the bounds of spec/Termination.tla.
   orphan case (C11):    [k |-> "orphan", env, execmodel, topo, death, gone_ms (-1: still alive when the watch ended)]
   terminate case (C05): [k |-> "terminate", timeout_ms, rounds, n, elapsed_ms, group_len, leftover, err]
   mkfail case (C05):    [k |-> "mkfail", leaked (BOOLEAN), res]
   One model tick = 1000 ms.  Slack for scheduling / process reaping: SlackMs per rung.
*)
EXTENDS Integers, Sequences, TLC, Json, IOUtils
Cases == JsonDeserialize(IOEnv.CASES)

\* the rung of the worker's ladder that ends a body of this kind (Termination!ExpectedRung) and its deadline in ticks
\* ("sending": blocked in a pipe write; a dead initiator breaks the pipe at once, an initiator that merely closed its
\*  sending side but stays alive leaves the writer blocked until the SIGINT rung)
RungOf2(env, death) == CASE env \in {"idle", "receive", "thread", "cbdropped", "cbraises", "cbraises_dropped", "nondaemon", "atexit_hang"} -> "eof"
                 [] env = "sending" -> (IF death = "close" THEN "sigint" ELSE "eof")
                 [] env \in {"busy", "sleep", "flooded", "sleep_and_sending", "sleep_and_short", "func_kwargs"} -> "sigint"
                 [] OTHER -> "hardexit"
Own(env, death) == CASE RungOf2(env, death) = "eof" -> 0 [] RungOf2(env, death) = "sigint" -> 5000 [] OTHER -> 15000
\* a worker reached via= another worker only sees EOF when that forwarder is gone; the forwarder's body (blocked reading
\* from the sub) is ended by its own SIGINT rung: one more 5 s rung per level
Deadline(c) == Own(c.env, c.death) + (IF c.topo \in {"via", "via-forwarder"} THEN 5000 ELSE 0)
Slack(c) == 3000 + (IF c.topo \in {"via", "via-forwarder"} THEN 1500 ELSE 0) + (IF Own(c.env, c.death) > 0 THEN 1000 ELSE 0)
Cooperative(env) == env \in {"idle", "receive", "sending", "cbdropped", "cbraises", "cbraises_dropped"}

OrphanVerdict(c) ==
  IF c.execmodel = "gevent" /\ ~Cooperative(c.env) /\ (c.gone_ms = -1 \/ c.gone_ms > Deadline(c) + Slack(c))
     THEN "C11.gevent-worker-with-non-cooperative-body-never-notices"
  \* the remote code has returned, but it left a non-daemon thread or a blocking exit hook behind: serve() returns, the interpreter never exits
  ELSE IF c.env \in {"nondaemon", "atexit_hang"} /\ (c.gone_ms = -1 \/ c.gone_ms > Deadline(c) + Slack(c))
     THEN "C11.worker-kept-alive-by-a-thread-or-exit-hook-of-the-remote-code"
  ELSE IF c.gone_ms = -1 THEN "C11.worker-outlived-its-initiator"
  ELSE IF c.gone_ms > Deadline(c) + Slack(c) THEN "C11.worker-terminated-later-than-its-rung-allows"
  ELSE "ok"
TerminateVerdict(c) ==
  IF c.err # "" THEN "C05.terminate-raised-" \o c.err
  ELSE IF c.group_len # 0 THEN "C05.group-not-empty-after-terminate"
  ELSE IF c.leftover # 0 THEN "C05.child-process-left-behind"
  ELSE IF c.elapsed_ms > c.rounds * 2 * c.timeout_ms + 3000 THEN "C05.terminate-not-prompt"
  ELSE "ok"
Verdict(c) == IF c.k = "orphan" THEN OrphanVerdict(c)
              ELSE IF c.k = "terminate" THEN TerminateVerdict(c)
              ELSE IF c.leaked THEN "C05.failed-makegateway-left-a-process-behind" ELSE "ok"
ASSUME PrintT(<<"verdicts", [i \in 1..Len(Cases) |-> Verdict(Cases[i])]>>)
VARIABLE x
Init == x = 0
Next == UNCHANGED x
=============================================================================
