------------------------------ MODULE ChanIdsInd ------------------------------
(* Unbounded safety of channel-id allocation (the locked design of ChanIds.tla) by an inductive invariant, checked with Apalache:
       Init => IndInv                       (apalache-mc check --init=Init    --inv=IndInv --length=0)
       IndInv /\ Next => IndInv'            (apalache-mc check --init=IndInit --inv=IndInv --length=1)
       IndInv => IdsDistinct /\ Parity      (they are conjuncts of IndInv)
   Any number of channels per thread; two threads on each side.  TLC explores the same design (and the unlocked mutant, and
   ids travelling to the peer) for bounded numbers in ChanIds.tla. *)
EXTENDS Integers, FiniteSets, Apalache

VARIABLES
  \* @type: Str -> Int;
  count,
  \* @type: Str -> Str;
  lockOwner,
  \* @type: Str -> Str;
  pc,
  \* @type: Str -> Int;
  loc,
  \* @type: Set(<<Str, Int>>);
  handed

Sides == {"i", "w"}
Threads == {"a", "b", "c", "d"}
SideOf(t) == IF t \in {"a", "b"} THEN "i" ELSE "w"
Start(s) == IF s = "i" THEN 1 ELSE 2
NoOne == "none"

Init == /\ count = [s \in Sides |-> Start(s)] /\ lockOwner = [s \in Sides |-> NoOne]
        /\ pc = [t \in Threads |-> "idle"] /\ loc = [t \in Threads |-> 0] /\ handed = {}

Acquire(t) == /\ pc[t] = "idle" /\ lockOwner[SideOf(t)] = NoOne
              /\ lockOwner' = [lockOwner EXCEPT ![SideOf(t)] = t] /\ pc' = [pc EXCEPT ![t] = "read"]
              /\ UNCHANGED <<count, loc, handed>>
Read(t) == /\ pc[t] = "read" /\ loc' = [loc EXCEPT ![t] = count[SideOf(t)]] /\ pc' = [pc EXCEPT ![t] = "bump"]
           /\ UNCHANGED <<count, lockOwner, handed>>
Bump(t) == /\ pc[t] = "bump" /\ count' = [count EXCEPT ![SideOf(t)] = loc[t] + 2] /\ pc' = [pc EXCEPT ![t] = "create"]
           /\ UNCHANGED <<lockOwner, loc, handed>>
Create(t) == /\ pc[t] = "create" /\ handed' = handed \union {<<t, loc[t]>>}
             /\ lockOwner' = [lockOwner EXCEPT ![SideOf(t)] = NoOne] /\ pc' = [pc EXCEPT ![t] = "idle"]
             /\ UNCHANGED <<count, loc>>
Next == \E t \in Threads : Acquire(t) \/ Read(t) \/ Bump(t) \/ Create(t)

\* ------------------------------------------------------------------ the properties
IdsDistinct == \A x \in handed : \A y \in handed : (x /= y) => (x[2] /= y[2])
Parity == \A x \in handed : (x[2] % 2 = 1) <=> (SideOf(x[1]) = "i")

\* ------------------------------------------------------------------ the inductive invariant
Holding(t) == pc[t] \in {"read", "bump", "create"}
TypeOK == /\ count \in [Sides -> Int] /\ lockOwner \in [Sides -> Threads \union {NoOne}]
          /\ pc \in [Threads -> {"idle", "read", "bump", "create"}] /\ loc \in [Threads -> Int]
          /\ \A x \in handed : x[1] \in Threads
IndInv ==
  /\ TypeOK
  /\ \A s \in Sides : count[s] >= Start(s) /\ count[s] % 2 = Start(s) % 2
  \* the lock is held exactly by the thread that is inside new()
  /\ \A t \in Threads : Holding(t) <=> lockOwner[SideOf(t)] = t
  \* what the holder has read
  /\ \A t \in Threads : /\ (pc[t] = "bump" => loc[t] = count[SideOf(t)])
                         /\ (pc[t] = "create" => (loc[t] = count[SideOf(t)] - 2 /\ loc[t] >= Start(SideOf(t))))
  \* every id handed out so far is below the next id of its side (below the one being created), and has the parity of its side
  /\ \A x \in handed : /\ x[2] >= Start(SideOf(x[1])) /\ x[2] % 2 = Start(SideOf(x[1])) % 2
                       /\ x[2] < count[SideOf(x[1])]
                       /\ \A t \in Threads : (pc[t] = "create" /\ SideOf(t) = SideOf(x[1])) => x[2] < loc[t]
  /\ IdsDistinct
  /\ Parity

\* non-vacuity probe: must be reported as violated from IndInit (a state with a thread in new() and two ids handed out exists)
Probe == ~(\E t \in Threads : pc[t] = "create" /\ \E x \in handed : \E y \in handed : x /= y)

\* an arbitrary state for the induction step
IndInit ==
  /\ count = Gen(2) /\ lockOwner = Gen(2) /\ pc = Gen(4) /\ loc = Gen(4) /\ handed = Gen(6)
  /\ IndInv
=============================================================================
