-------------------------------- MODULE GroupIds --------------------------------
(* Group.makegateway: allocate_id (under _autoidlock: next "gwN" or check the explicit id), start the process
   (long, unlocked), _register (check + append), Gateway.exit -> _unregister.
   Fix_RegisterAtomic = FALSE: _register's check and append are two steps outside the lock (pinned tree).
   Fix_ExplicitCheck = FALSE: an explicit id is not checked before the process is started (pinned tree).
   Ids: automatic ids are 0, 1, 2, ... ; a call may ask for an explicit id from the same range.
*)
EXTENDS Integers, Sequences, FiniteSets, TLC
CONSTANTS Calls,               \* [call name -> -1 (automatic id) or an explicit id]
          Failing,             \* calls whose process cannot be started (create_io / bootstrap raises)
          Fix_RegisterAtomic, Fix_ExplicitCheck,
          GiveBackOnFailure,   \* TRUE: a mutant that decrements the automatic counter when the creation fails
          Fix_SnapshotLookup   \* FALSE (pinned tree): "id in group" walks the live list element by element while another gateway's
                               \* exit removes itself from it - the walk then skips the neighbour
VARIABLES counter, lock, live, pc, myid, procs, leaked, order, idx, atStart
vars == <<counter, lock, live, pc, myid, procs, leaked, order, idx, atStart>>
C == DOMAIN Calls
LiveIds == {g[2] : g \in live}
Init == /\ counter = 0 /\ lock = "none" /\ live = {} /\ pc = [c \in C |-> "start"] /\ myid = [c \in C |-> -1] /\ procs = {} /\ leaked = {}
        /\ order = <<>> /\ idx = [c \in C |-> 0] /\ atStart = [c \in C |-> {}]

\* the explicit-id check of allocate_id when the lookup is not atomic: start walking the list ...
ScanStart(c) ==
  /\ ~Fix_SnapshotLookup /\ pc[c] = "start" /\ Calls[c] # -1 /\ Fix_ExplicitCheck
  /\ pc' = [pc EXCEPT ![c] = "scan"] /\ idx' = [idx EXCEPT ![c] = 1] /\ atStart' = [atStart EXCEPT ![c] = live]
  /\ UNCHANGED <<counter, lock, live, myid, procs, leaked, order>>
\* ... one element per step; an exit in between shifts the list under the walk
Scan(c) ==
  /\ pc[c] = "scan"
  /\ IF idx[c] > Len(order) THEN myid' = [myid EXCEPT ![c] = Calls[c]] /\ pc' = [pc EXCEPT ![c] = "spawn"] /\ UNCHANGED idx
     ELSE IF order[idx[c]][2] = Calls[c] THEN pc' = [pc EXCEPT ![c] = "failed"] /\ UNCHANGED <<myid, idx>>
     ELSE idx' = [idx EXCEPT ![c] = @ + 1] /\ UNCHANGED <<myid, pc>>
  /\ UNCHANGED <<counter, lock, live, procs, leaked, order, atStart>>

Allocate(c) ==        \* allocate_id, one critical section
  /\ pc[c] = "start" /\ lock = "none" /\ (Fix_SnapshotLookup \/ Calls[c] = -1 \/ ~Fix_ExplicitCheck)
  /\ atStart' = [atStart EXCEPT ![c] = live]
  /\ IF Calls[c] = -1 THEN
        IF counter \in LiveIds THEN pc' = [pc EXCEPT ![c] = "failed"] /\ counter' = counter + 1 /\ UNCHANGED myid
        ELSE myid' = [myid EXCEPT ![c] = counter] /\ counter' = counter + 1 /\ pc' = [pc EXCEPT ![c] = "spawn"]
     ELSE IF Fix_ExplicitCheck /\ Calls[c] \in LiveIds THEN pc' = [pc EXCEPT ![c] = "failed"] /\ UNCHANGED <<myid, counter>>
     ELSE myid' = [myid EXCEPT ![c] = Calls[c]] /\ pc' = [pc EXCEPT ![c] = "spawn"] /\ UNCHANGED counter
  /\ UNCHANGED <<lock, live, procs, leaked, order, idx>>
Spawn(c) == /\ pc[c] = "spawn" /\ c \notin Failing /\ procs' = procs \cup {c} /\ pc' = [pc EXCEPT ![c] = "check"]
            /\ UNCHANGED <<counter, lock, live, myid, leaked, order, idx, atStart>>
SpawnFails(c) ==      \* the process could not be started: the call fails, its id stays consumed
  /\ pc[c] = "spawn" /\ c \in Failing /\ pc' = [pc EXCEPT ![c] = "failed"]
  /\ counter' = IF GiveBackOnFailure /\ Calls[c] = -1 THEN counter - 1 ELSE counter
  /\ UNCHANGED <<lock, live, myid, procs, leaked, order, idx, atStart>>
Check(c) ==           \* assert gateway.id not in self
  /\ pc[c] = "check" /\ (Fix_RegisterAtomic => lock = "none")
  /\ IF myid[c] \in LiveIds THEN pc' = [pc EXCEPT ![c] = "failed"] /\ leaked' = leaked \cup {c} /\ UNCHANGED <<live, lock>>
     ELSE IF Fix_RegisterAtomic THEN live' = live \cup {<<c, myid[c]>>} /\ pc' = [pc EXCEPT ![c] = "live"] /\ UNCHANGED <<lock, leaked>>
     ELSE pc' = [pc EXCEPT ![c] = "append"] /\ UNCHANGED <<live, lock, leaked>>
  /\ order' = IF myid[c] \notin LiveIds /\ Fix_RegisterAtomic THEN Append(order, <<c, myid[c]>>) ELSE order
  /\ UNCHANGED <<counter, myid, procs, idx, atStart>>
AppendGw(c) == /\ pc[c] = "append" /\ live' = live \cup {<<c, myid[c]>>} /\ pc' = [pc EXCEPT ![c] = "live"]
             /\ order' = Append(order, <<c, myid[c]>>)
             /\ UNCHANGED <<counter, lock, myid, procs, leaked, idx, atStart>>
Exit(c) == /\ pc[c] = "live" /\ live' = live \ {<<c, myid[c]>>} /\ procs' = procs \ {c} /\ pc' = [pc EXCEPT ![c] = "gone"]
           /\ order' = SelectSeq(order, LAMBDA g : g # <<c, myid[c]>>)
           /\ UNCHANGED <<counter, lock, myid, leaked, idx, atStart>>
Next == \E c \in C : ScanStart(c) \/ Scan(c) \/ Allocate(c) \/ Spawn(c) \/ SpawnFails(c) \/ Check(c) \/ AppendGw(c) \/ Exit(c)
Spec == Init /\ [][Next]_vars

NoSharedId == \A a, b \in live : a # b => a[2] # b[2]
AutoIdsUnique == \A a, b \in C : (a # b /\ Calls[a] = -1 /\ Calls[b] = -1 /\ myid[a] # -1 /\ myid[b] # -1) => myid[a] # myid[b]
\* a call that fails sequentially (nobody else is between allocation and registration) leaves no process behind
NoLeakWhenSequential == \A c \in leaked : \E d \in C \ {c} : pc[d] \in {"spawn", "check", "append", "live", "gone"}
\* an explicit id that a gateway holds from before the call until now is refused before any process is started for it
RefusedUpFront == \A c \in C : (pc[c] \in {"spawn", "check", "append"} /\ Calls[c] # -1 /\ Fix_ExplicitCheck)
                                  => ~\E g \in atStart[c] \cap live : g[2] = Calls[c]
=============================================================================
