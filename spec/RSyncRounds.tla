------------------------------ MODULE RSyncRounds ------------------------------
(* One RSync object used for several send() rounds (add_target + send, again and again), one file whose content is edited between
   the rounds without changing its size - the case in which the receiver answers with a checksum and the sender decides by md5
   whether the content has to travel (rsync.py: _send_item / rsync_remote.py: the "same size, other mtime" branch).

   Contents are version numbers (an edit makes a new version; Digest is injective on them).  A round: the receiver compares size and
   mtime; equal mtime -> nothing to do (the listed same-size-same-mtime heuristic is not the subject here: every edit changes the
   mtime); other mtime -> it sends its checksum; the sender compares it with the digest of the source and sends the data or None;
   the receiver stores what it got and always takes over the mtime.

   Fix_NoDigestCache = FALSE: the sender keeps the digest it computed for a path on the RSync object and uses it in later rounds.

   C17: after every send() the target equals the source. *)
EXTENDS Integers, TLC
CONSTANTS Rounds, Fix_NoDigestCache

VARIABLES src,        \* [content, mtime] of the source file
          dst,        \* [content, mtime] of the file at the target (content 0 = absent)
          cache,      \* digest remembered by the RSync object (0 = none)
          pc,         \* "edit" | "send" | "sent"
          round
vars == <<src, dst, cache, pc, round>>
Digest(v) == v

Init == src = [content |-> 1, mtime |-> 1] /\ dst = [content |-> 0, mtime |-> 0] /\ cache = 0 /\ pc = "send" /\ round = 1

\* the user edits the file (same size, new content, new mtime) or just touches it, or leaves it alone
Edit == /\ pc = "edit" /\ round <= Rounds
        /\ \/ src' = [content |-> src.content + 1, mtime |-> src.mtime + 1]
           \/ src' = [src EXCEPT !.mtime = @ + 1]
           \/ UNCHANGED src
        /\ pc' = "send" /\ UNCHANGED <<dst, cache, round>>
Send == /\ pc = "send"
        /\ IF dst.content = 0 THEN dst' = src /\ UNCHANGED cache                      \* absent: requested without a checksum
           ELSE IF dst.mtime = src.mtime THEN UNCHANGED <<dst, cache>>                \* same size, same mtime: not requested
           ELSE LET d == IF ~Fix_NoDigestCache /\ cache # 0 THEN cache ELSE Digest(src.content) IN
                /\ cache' = IF Fix_NoDigestCache THEN cache ELSE d
                /\ dst' = IF Digest(dst.content) = d THEN [dst EXCEPT !.mtime = src.mtime]   \* "not really modified": only the mtime
                          ELSE src
        /\ pc' = "sent" /\ UNCHANGED <<src, round>>
NextRound == pc = "sent" /\ round < Rounds /\ pc' = "edit" /\ round' = round + 1 /\ UNCHANGED <<src, dst, cache>>
Next == Edit \/ Send \/ NextRound
Spec == Init /\ [][Next]_vars

TargetEqualsSourceAfterSend == pc = "sent" => dst = src
\* minimality: content travels only when it differs (checked as an action property)
ContentTravelsOnlyWhenItDiffers == [][(pc = "send" /\ dst'.content # dst.content) => dst.content # src.content]_vars
=============================================================================
