SPECIFICATION Spec
CONSTANT MaxLen = 3
CONSTANT MaxItems = 3
CONSTANT MaxOps = 2
INVARIANT LossyAlgorithmIsAFile
CHECK_DEADLOCK FALSE
