SPECIFICATION Spec
CONSTANT Fix_ClosefdFalse = TRUE
INVARIANT StdIsNotProtocol
INVARIANT RawWritesHarmless
INVARIANT FilesAboveStd
INVARIANT ProtocolOpen
CHECK_DEADLOCK FALSE
