------------------------------ MODULE RSyncProto ------------------------------
(* The 1:N rsync protocol message by message: RSync.send() on the initiator (structure broadcast, then the
   serve loop over _receivequeue) and serve_rsync in each of NT targets (walk the announced structure, request
   modified files, list_done, receive data / ack, links, done).

   Source walk: files 1..NFiles (pre-order positions), NLinks symlinks (kept in RSync._links, sent in the link phase).
   need[t] (chosen initially) = the files target t's prior state makes it request.

   Channels are FIFO per target (toR[t]); everything the targets send arrives through the channel callbacks in
   one queue (rq) - per target in order, across targets interleaved arbitrarily (a send is asynchronous, so delaying
   the delivery and delaying the send are the same thing).

   A target may fail at any point (MayCrash): its channel ends early (the callback's endmarker None is queued).

   Fix_LinksToAll = FALSE: the link list is consumed by the first target that asks (mutant).
   Fix_ServeAll   = FALSE: the serve loop ends with the first "done" (mutant).
   Fix_PairByRequest = FALSE: _send_item answers with the most recently announced file instead of the requested one (mutant).

   ghost: abs = the state of the sender-observable automaton RSyncProtoAbs, stepped by every sender action -
   TLC checks that the implementation-shaped protocol stays inside the language the real traces are judged against. *)
EXTENDS Integers, Sequences, FiniteSets, TLC, RSyncProtoAbs

CONSTANTS NT, NFiles, NLinks, MayCrash, Fix_LinksToAll, Fix_ServeAll, Fix_PairByRequest, Fix_NoPayloadCache

VARIABLES need, same, cache, spc, si, toR, rq, chans, linksLeft,
          rpc, ri, modified, rk, written, gotlinks, cb, abs

vars == <<need, same, cache, spc, si, toR, rq, chans, linksLeft, rpc, ri, modified, rk, written, gotlinks, cb, abs>>
T == 1..NT

Init ==
  /\ need \in [T -> SUBSET (1..NFiles)]
  /\ same \in [T -> SUBSET (1..NFiles)] /\ \A t \in T : same[t] \subseteq need[t]     \* requested with a checksum that equals the source's
  /\ cache = [i \in {} |-> 0]
  /\ spc = "structure" /\ si = 1 /\ toR = [t \in T |-> <<>>] /\ rq = <<>> /\ chans = T /\ linksLeft = NLinks
  /\ rpc = [t \in T |-> "structure"] /\ ri = [t \in T |-> 0] /\ modified = [t \in T |-> <<>>] /\ rk = [t \in T |-> 1]
  /\ written = [t \in T |-> <<>>]          \* sequence of <<file the target stored the data under, file the data came from>>
  /\ gotlinks = [t \in T |-> 0] /\ cb = [t \in T |-> 0]
  /\ abs = AInit(NT, IF MayCrash THEN T ELSE {})

\* ------------------------------------------------------------------ sender
\* the CHANNEL_CLOSE(_ERROR) of a failed target has arrived: its endmarker is queued and channel.send() raises from now on
Closed(t) == rpc[t] = "crashed" /\ \E i \in 1..Len(rq) : rq[i] = <<t, "eof", 0, 0>>
SSendFails ==   \* _broadcast / _send_item / _process_link hit a closed channel: OSError out of send()
  /\ \/ spc = "structure" /\ si <= NFiles /\ \E t \in chans : Closed(t)
     \/ spc = "serve" /\ chans # {} /\ rq # <<>> /\ Head(rq)[2] \in {"send", "links"} /\ Closed(Head(rq)[1])
  /\ spc' = "raised"
  /\ abs' = IF spc = "serve" THEN Step(Step(abs, Ev("get", Head(rq)[1], Head(rq)[2], Head(rq)[3], 0)), Ev("raise", 0, "", 0, 0))
            ELSE Step(abs, Ev("raise", 0, "", 0, 0))
  /\ UNCHANGED <<need, same, cache, si, toR, rq, chans, linksLeft, rpc, ri, modified, rk, written, gotlinks, cb>>
SBcast ==       \* _send_directory_structure: one (mode, mtime, size) tuple per file to every channel; links only fill _links
  /\ spc = "structure" /\ si <= NFiles /\ ~\E t \in chans : Closed(t)
  /\ toR' = [t \in T |-> Append(toR[t], <<"file", si>>)]
  /\ si' = si + 1
  /\ abs' = Step(abs, Ev("walk", 0, "file", si, 0))
  /\ UNCHANGED <<need, same, cache, spc, rq, chans, linksLeft, rpc, ri, modified, rk, written, gotlinks, cb>>
SWalkLinks ==   \* the links of the walk (announced as None, nothing for the target to do)
  /\ spc = "structure" /\ si = NFiles + 1
  /\ spc' = "serve"
  /\ abs' = RunFrom(abs, [i \in 1..NLinks |-> Ev("walk", 0, "link", NFiles + i, 0)], 1)
  /\ UNCHANGED <<need, same, cache, si, toR, rq, chans, linksLeft, rpc, ri, modified, rk, written, gotlinks, cb>>

Req == Head(rq)
SGetSend ==     \* _send_item: read the file; data, or None when the target's checksum equals the file's ("not really modified")
  /\ spc = "serve" /\ chans # {} /\ rq # <<>> /\ Req[2] = "send" /\ ~Closed(Req[1])
  /\ LET t == Req[1]  p == Req[3]  withsum == Req[4] = 1
         file == IF Fix_PairByRequest THEN p ELSE NFiles
         fresh == IF withsum THEN 0 ELSE file                        \* 0 stands for None
         ans == IF ~Fix_NoPayloadCache /\ p \in DOMAIN cache THEN cache[p] ELSE fresh      \* mutant: the payload of the first answer is reused
     IN /\ toR' = [toR EXCEPT ![t] = Append(@, <<"data", ans>>)]
        /\ cache' = IF p \in DOMAIN cache THEN cache ELSE (p :> fresh) @@ cache
        /\ abs' = Step(Step(abs, Ev("get", t, "send", p, Req[4])), Ev("item", t, "", file, IF ans = 0 THEN 0 ELSE 1))
  /\ rq' = Tail(rq)
  /\ UNCHANGED <<need, same, spc, si, chans, linksLeft, rpc, ri, modified, rk, written, gotlinks, cb>>
SGetNote ==     \* list_done / ack: progress callbacks only
  /\ spc = "serve" /\ chans # {} /\ rq # <<>> /\ Req[2] \in {"list_done", "ack"}
  /\ abs' = Step(abs, Ev("get", Req[1], Req[2], Req[3], 0))
  /\ rq' = Tail(rq)
  /\ UNCHANGED <<need, same, cache, spc, si, toR, chans, linksLeft, rpc, ri, modified, rk, written, gotlinks, cb>>
SGetLinks ==
  /\ spc = "serve" /\ chans # {} /\ rq # <<>> /\ Req[2] = "links" /\ ~Closed(Req[1])
  /\ LET t == Req[1]  n == IF Fix_LinksToAll THEN NLinks ELSE linksLeft IN
     /\ toR' = [toR EXCEPT ![t] = @ \o [i \in 1..n |-> <<"link", i>>] \o << <<"end", 0>> >>]
     /\ abs' = Step(Step(abs, Ev("get", t, "links", 0, 0)), Ev("links", t, "", 0, n))
  /\ linksLeft' = IF Fix_LinksToAll THEN linksLeft ELSE 0
  /\ rq' = Tail(rq)
  /\ UNCHANGED <<need, same, cache, spc, si, chans, rpc, ri, modified, rk, written, gotlinks, cb>>
SGetDone ==
  /\ spc = "serve" /\ chans # {} /\ rq # <<>> /\ Req[2] = "done"
  /\ LET t == Req[1] IN
     /\ chans' = chans \ {t} /\ cb' = [cb EXCEPT ![t] = @ + 1]
     /\ abs' = Step(Step(abs, Ev("get", t, "done", 0, 0)), Ev("cb", t, "", 0, 0))
     \* channel.waitclose(): the target's code has ended by then (it sent "done" as its last action)
  /\ rq' = Tail(rq)
  /\ UNCHANGED <<need, same, cache, spc, si, toR, linksLeft, rpc, ri, modified, rk, written, gotlinks>>
SGetEof ==
  /\ spc = "serve" /\ chans # {} /\ rq # <<>> /\ Req[2] = "eof"
  /\ LET t == Req[1] IN
     IF t \in chans THEN /\ spc' = "raised"
                         /\ abs' = Step(Step(abs, Ev("get", t, "eof", 0, 0)), Ev("raise", 0, "", 0, 0))
     ELSE /\ UNCHANGED spc /\ abs' = Step(abs, Ev("get", t, "eof", 0, 0))
  /\ rq' = Tail(rq)
  /\ UNCHANGED <<need, same, cache, si, toR, chans, linksLeft, rpc, ri, modified, rk, written, gotlinks, cb>>
SReturn ==
  /\ spc = "serve"
  /\ IF Fix_ServeAll THEN chans = {} ELSE chans # T
  /\ spc' = "returned"
  /\ abs' = Step(abs, Ev("return", 0, "", 0, 0))
  /\ UNCHANGED <<need, same, cache, si, toR, rq, chans, linksLeft, rpc, ri, modified, rk, written, gotlinks, cb>>

\* ----------------------------------------------------------------- target t
Msg(t) == Head(toR[t])
RStruct(t) ==   \* receive_directory_structure at one file entry
  /\ rpc[t] = "structure" /\ ri[t] < NFiles /\ toR[t] # <<>> /\ Msg(t)[1] = "file"
  /\ LET i == Msg(t)[2] IN
     IF i \in need[t] THEN /\ rq' = Append(rq, <<t, "send", i, IF i \in same[t] THEN 1 ELSE 0>>) /\ modified' = [modified EXCEPT ![t] = Append(@, i)]
     ELSE UNCHANGED <<rq, modified>>
  /\ ri' = [ri EXCEPT ![t] = @ + 1] /\ toR' = [toR EXCEPT ![t] = Tail(@)]
  /\ UNCHANGED <<need, same, cache, spc, si, chans, linksLeft, rpc, rk, written, gotlinks, cb, abs>>
RListDone(t) ==
  /\ rpc[t] = "structure" /\ ri[t] = NFiles
  /\ rq' = Append(rq, <<t, "list_done", 0, 0>>) /\ rpc' = [rpc EXCEPT ![t] = "data"]
  /\ UNCHANGED <<need, same, cache, spc, si, toR, chans, linksLeft, ri, modified, rk, written, gotlinks, cb, abs>>
RData(t) ==     \* for path in modifiedfiles: data = channel.receive(); ack; write
  /\ rpc[t] = "data" /\ rk[t] <= Len(modified[t]) /\ toR[t] # <<>> /\ Msg(t)[1] = "data"
  \* None: nothing is written, the target keeps what it has - which equals the source only if it really sent a matching checksum
  /\ written' = [written EXCEPT ![t] = Append(@, <<modified[t][rk[t]], IF Msg(t)[2] = 0 THEN (IF modified[t][rk[t]] \in same[t] THEN modified[t][rk[t]] ELSE -1) ELSE Msg(t)[2]>>)]
  /\ rq' = Append(rq, <<t, "ack", modified[t][rk[t]], 0>>)
  /\ rk' = [rk EXCEPT ![t] = @ + 1] /\ toR' = [toR EXCEPT ![t] = Tail(@)]
  /\ UNCHANGED <<need, same, cache, spc, si, chans, linksLeft, rpc, ri, modified, gotlinks, cb, abs>>
RLinksReq(t) ==
  /\ rpc[t] = "data" /\ rk[t] > Len(modified[t])
  /\ rq' = Append(rq, <<t, "links", 0, 0>>) /\ rpc' = [rpc EXCEPT ![t] = "links"]
  /\ UNCHANGED <<need, same, cache, spc, si, toR, chans, linksLeft, ri, modified, rk, written, gotlinks, cb, abs>>
RLink(t) ==
  /\ rpc[t] = "links" /\ toR[t] # <<>> /\ Msg(t)[1] = "link"
  /\ gotlinks' = [gotlinks EXCEPT ![t] = @ + 1] /\ toR' = [toR EXCEPT ![t] = Tail(@)]
  /\ UNCHANGED <<need, same, cache, spc, si, rq, chans, linksLeft, rpc, ri, modified, rk, written, cb, abs>>
RDone(t) ==     \* the completion marker: send "done", the code ends, the channel closes (endmarker reaches the callback)
  /\ rpc[t] = "links" /\ toR[t] # <<>> /\ Msg(t)[1] = "end"
  /\ rq' = rq \o << <<t, "done", 0, 0>>, <<t, "eof", 0, 0>> >>
  /\ rpc' = [rpc EXCEPT ![t] = "finished"] /\ toR' = [toR EXCEPT ![t] = Tail(@)]
  /\ UNCHANGED <<need, same, cache, spc, si, chans, linksLeft, ri, modified, rk, written, gotlinks, cb, abs>>
RCrash(t) ==
  /\ MayCrash /\ rpc[t] \in {"structure", "data", "links"}
  /\ rpc' = [rpc EXCEPT ![t] = "crashed"] /\ rq' = Append(rq, <<t, "eof", 0, 0>>)
  /\ UNCHANGED <<need, same, cache, spc, si, toR, chans, linksLeft, ri, modified, rk, written, gotlinks, cb, abs>>

Sender == SSendFails \/ SBcast \/ SWalkLinks \/ SGetSend \/ SGetNote \/ SGetLinks \/ SGetDone \/ SGetEof \/ SReturn
Target(t) == RStruct(t) \/ RListDone(t) \/ RData(t) \/ RLinksReq(t) \/ RLink(t) \/ RDone(t)
Next == Sender \/ (\E t \in T : Target(t) \/ RCrash(t))
Spec == Init /\ [][Next]_vars /\ WF_vars(Sender) /\ \A t \in T : WF_vars(Target(t))

\* ------------------------------------------------------------- properties
\* every piece of data is stored under the path it was read from
Pairing == \A t \in T : \A k \in 1..Len(written[t]) : written[t][k][1] = written[t][k][2]
\* "after send() returns ... several targets are each complete"
CompleteAtReturn ==
  spc = "returned" => \A t \in T : /\ rpc[t] = "finished"
                                   /\ {written[t][k][1] : k \in 1..Len(written[t])} = need[t]
                                   /\ gotlinks[t] = NLinks /\ cb[t] = 1
CallbackAtMostOnce == \A t \in T : cb[t] <= 1
RaisedOnlyAfterFailure == spc = "raised" => \E t \in T : rpc[t] = "crashed"
\* the implementation-shaped protocol stays inside the sender-observable language
InsideLanguage == abs.bad = ""
\* send() always ends; without a failing target it returns
SendEnds == <>(spc \in {"returned", "raised"})
SendReturns == (~MayCrash) => <>(spc = "returned")
=============================================================================
