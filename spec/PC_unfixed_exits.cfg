SPECIFICATION Spec
CONSTANT Requesters <- Term
CONSTANT DataItems = 2
CONSTANT SubHangs = FALSE
CONSTANT Fix_WaitOffReceiver = FALSE
PROPERTY KillReaches
PROPERTY AllAnswered
PROPERTY DataKeepsMoving
CHECK_DEADLOCK FALSE
