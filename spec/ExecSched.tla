------------------------------ MODULE ExecSched ------------------------------
(* main_thread_only scheduling of remote_exec in the worker:
   WorkerGateway._local_schedulexec (receiver thread), the WorkerPool mailbox in
   its main_thread_only branch, the integrated main thread, executetask's
   epilogue (close the channel, then signal _executetask_complete).

   The initiator submits N remote_execs.  Submission k is "sequential" if it is
   issued after the close of channel k-1 was observed, otherwise "overlapping".
   Each body has an outcome: "ret", "raise", "sysexit", "kbdint" (KeyboardInterrupt raised inside the body) or "block" (it blocks until
   the next submission has been answered -- the situation the deadlock error is for).

   The 1 second wait in _local_schedulexec expires only at quiescence (time-outs are
   long compared with computation).

   Fix_CompleteOnAllPaths = FALSE: the pinned tree (event set only when the body returned).
   ClearBeforeSpawn = FALSE: a mutant that clears the event only after spawn().
*)
EXTENDS Integers, Sequences, FiniteSets, TLC

CONSTANTS N,                  \* number of submissions
          Fix_CompleteOnAllPaths,
          ClearBeforeSpawn

VARIABLES Outcome,    \* [1..N -> {"ret", "raise", "sysexit", "kbdint", "block"}]  the history (chosen initially, never changed)
          Overlap,    \* [1..N -> BOOLEAN]: submission k does not wait for the close of k-1
          ipc,        \* initiator: next submission index (1..N+1)
          wire,       \* EXEC frames in flight
          seen,       \* submissions whose channel close the initiator has observed: k -> "closed" | "deadlock" | "error"
          complete,   \* _executetask_complete
          rpc, rk,    \* receiver thread: "idle" | "wait" | "clear" | "spawn" | "late_clear" ; current submission
          mbox, ready,\* pool: _primary_thread_task, _primary_thread_task_ready
          prevdone,   \* Reply._result_ready of the task in the mailbox
          mpc, mk,    \* main thread: "wait" | "body" | "blocked" | "close" | "signal" | "post" ; current task
          started,    \* sequence of submissions whose body started (all on the main thread in this model)
          answered    \* k -> what the worker sent back on channel k

vars == <<Outcome, Overlap, ipc, wire, seen, complete, rpc, rk, mbox, ready, prevdone, mpc, mk, started, answered>>

Subs == 1..N
Init == /\ Outcome \in [1..N -> {"ret", "raise", "sysexit", "kbdint", "block"}]
        /\ Overlap \in [1..N -> BOOLEAN]
        /\ ~Overlap[1]
        /\ \A k \in 1..N : Outcome[k] = "block" => (k < N /\ Overlap[k + 1])   \* a blocked body waits for the next submission
        /\ ipc = 1 /\ wire = <<>> /\ seen = [k \in {} |-> ""] /\ complete = TRUE
        /\ rpc = "idle" /\ rk = 0 /\ mbox = 0 /\ ready = FALSE /\ prevdone = TRUE
        /\ mpc = "wait" /\ mk = 0 /\ started = <<>> /\ answered = [k \in {} |-> ""]

\* ---------------------------------------------------------------- initiator
Submit ==
  /\ ipc <= N
  /\ (ipc > 1 /\ ~Overlap[ipc]) => (\A j \in 1..(ipc - 1) : j \in DOMAIN seen)   \* sequential: every earlier close observed
  /\ wire' = Append(wire, ipc) /\ ipc' = ipc + 1
  /\ UNCHANGED <<seen, complete, rpc, rk, mbox, ready, prevdone, mpc, mk, started, answered>>
Observe(k) ==      \* the close frame of channel k reaches the initiator
  /\ k \in DOMAIN answered /\ k \notin DOMAIN seen
  /\ seen' = (k :> answered[k]) @@ seen
  /\ UNCHANGED <<ipc, wire, complete, rpc, rk, mbox, ready, prevdone, mpc, mk, started, answered>>

\* ---------------------------------------------- receiver thread of the worker
RTake ==
  /\ rpc = "idle" /\ wire # <<>>
  /\ rk' = Head(wire) /\ wire' = Tail(wire) /\ rpc' = "wait"
  /\ UNCHANGED <<ipc, seen, complete, mbox, ready, prevdone, mpc, mk, started, answered>>
RWaitOk ==         \* _executetask_complete.wait(timeout=1) returns True
  /\ rpc = "wait" /\ complete
  /\ rpc' = IF ClearBeforeSpawn THEN "clear" ELSE "spawn"
  /\ UNCHANGED <<ipc, wire, seen, complete, rk, mbox, ready, prevdone, mpc, mk, started, answered>>
MainCanMove == mpc \in {"body", "close", "signal", "post"} \/ (mpc = "wait" /\ ready)
               \/ (mpc = "blocked" /\ (mk = N \/ (mk + 1) \in DOMAIN answered))
RTimeout ==        \* ... expires: only when nothing else can move
  /\ rpc = "wait" /\ ~complete /\ ~MainCanMove
  /\ answered' = (rk :> "deadlock") @@ answered
  /\ rpc' = "idle"
  /\ UNCHANGED <<ipc, wire, seen, complete, rk, mbox, ready, prevdone, mpc, mk, started>>
RClear ==
  /\ rpc = "clear" /\ complete' = FALSE /\ rpc' = "spawn"
  /\ UNCHANGED <<ipc, wire, seen, rk, mbox, ready, prevdone, mpc, mk, started, answered>>
RSpawn ==          \* pool.spawn in the main_thread_only branch: wait for the previous reply, fill the mailbox
  /\ rpc = "spawn" /\ (~ready \/ prevdone)
  /\ mbox' = rk /\ ready' = TRUE /\ prevdone' = FALSE
  /\ rpc' = IF ClearBeforeSpawn THEN "idle" ELSE "late_clear"
  /\ UNCHANGED <<ipc, wire, seen, complete, rk, mpc, mk, started, answered>>
RLateClear ==      \* mutant: clear after spawn
  /\ rpc = "late_clear" /\ complete' = FALSE /\ rpc' = "idle"
  /\ UNCHANGED <<ipc, wire, seen, rk, mbox, ready, prevdone, mpc, mk, started, answered>>

\* ------------------------------------------------------------- main thread
MTake ==
  /\ mpc = "wait" /\ ready /\ mbox # 0
  /\ mk' = mbox /\ mpc' = "body" /\ started' = Append(started, mbox)
  /\ UNCHANGED <<ipc, wire, seen, complete, rpc, rk, mbox, ready, prevdone, answered>>
MBody ==
  /\ mpc = "body"
  /\ mpc' = IF Outcome[mk] = "block" THEN "blocked" ELSE "close"
  /\ UNCHANGED <<ipc, wire, seen, complete, rpc, rk, mbox, ready, prevdone, mk, started, answered>>
MUnblock ==        \* a blocking body continues once the next submission has been answered (or there is none)
  /\ mpc = "blocked" /\ (mk = N \/ (mk + 1) \in DOMAIN answered)
  /\ mpc' = "close"
  /\ UNCHANGED <<ipc, wire, seen, complete, rpc, rk, mbox, ready, prevdone, mk, started, answered>>
MClose ==          \* channel.close() / close(errortext): the CLOSE frame goes out
  /\ mpc = "close"
  /\ answered' = (mk :> (IF Outcome[mk] \in {"raise", "sysexit", "kbdint"} THEN "error" ELSE "closed")) @@ answered
  /\ mpc' = "signal"
  /\ UNCHANGED <<ipc, wire, seen, complete, rpc, rk, mbox, ready, prevdone, mk, started>>
MSignal ==         \* _executetask_complete.set() -- on the success path only, before the fix
  /\ mpc = "signal"
  /\ complete' = IF Fix_CompleteOnAllPaths \/ Outcome[mk] \in {"ret", "block"} THEN TRUE ELSE complete
  /\ prevdone' = TRUE /\ mpc' = "post"
  /\ UNCHANGED <<ipc, wire, seen, rpc, rk, mbox, ready, mk, started, answered>>
MPost ==           \* locked epilogue of integrate_as_primary_thread
  /\ mpc = "post"
  /\ IF mbox = mk THEN ready' = FALSE ELSE UNCHANGED ready
  /\ mpc' = "wait"
  /\ UNCHANGED <<ipc, wire, seen, complete, rpc, rk, mbox, prevdone, mk, started, answered>>

Next == /\ UNCHANGED <<Outcome, Overlap>>
        /\ \/ Submit \/ (\E k \in Subs : Observe(k)) \/ RTake \/ RWaitOk \/ RTimeout \/ RClear \/ RSpawn \/ RLateClear
           \/ MTake \/ MBody \/ MUnblock \/ MClose \/ MSignal \/ MPost
Spec == Init /\ [][Next]_vars /\ WF_vars(Next)

\* ------------------------------------------------------------- properties
InOrder == \A i, j \in 1..Len(started) : i < j => started[i] < started[j]
\* a sequential submission (every earlier channel was seen closed) always runs; the deadlock error is only
\* ever produced while a body really occupies the main thread
NoFalseDeadlock == \A k \in DOMAIN answered : answered[k] = "deadlock" => Overlap[k]
DeadlockOnlyWhenBusy ==
  [][(\E k \in Subs : k \notin DOMAIN answered /\ k \in DOMAIN answered' /\ answered'[k] = "deadlock") => mpc = "blocked"]_vars
\* an overlapping submission behind a blocked body gets the deadlock error, the blocked body is not disturbed
DeadlockReported ==
  \A k \in 2..N : (Overlap[k] /\ Outcome[k - 1] = "block" /\ k \in DOMAIN answered) => answered[k] = "deadlock"
Undisturbed == \A k \in DOMAIN answered : (Outcome[k] = "block" /\ answered[k] # "deadlock") => answered[k] = "closed"
AllAnswered == <>(\A k \in Subs : k \in DOMAIN seen)
=============================================================================
