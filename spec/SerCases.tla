------------------------------ MODULE SerCases ------------------------------
(* M5 for the serializer: judge recorded executions of the real dumps / dump /
   loads / load / dumps_internal against the reference.  The driver records
   what the real code did; every verdict is computed here, by the spec.

   case kinds
     "dump": v (model value), internal (BOOLEAN), out = <<"bytes", bs>> | <<"exc", name>>,
             back = <<"value", v'>> | <<"exc", name>> | <<"na">>
     "load": inp (bytes), cfg = <<p2as3, p3as2>>, real = <<"value", v>> | <<"exc", name>>,
             prefix (BOOLEAN: inp is a strict prefix of a valid dump),
             effects (audit events seen inside loads: exec, compile, import, open, ...)
*)
EXTENDS Serializer, Json, IOUtils

Cases == JsonDeserialize(IOEnv.CASES)

AllowedLoadExc == {"LoadError", "DataFormatError", "EOFError"}

DumpVerdict(c) ==
  LET e == IF c.internal THEN DumpsInternal(c.v) ELSE Dumps(c.v) IN
  IF e = Err THEN
     IF c.out = <<"exc", "DumpError">> THEN "ok"
     ELSE IF c.out[1] = "bytes" THEN "C01.unsupported-value-was-serialized"
     ELSE "C01.rejected-with-wrong-exception"
  ELSE IF c.out[1] # "bytes" THEN "C01.supported-value-rejected"
  ELSE IF c.out[2] # e THEN "C12.bytes-differ-from-format-v2"
  ELSE LET m == IF c.internal THEN LoadsInternal(e, DefaultCfg) ELSE Loads(e, DefaultCfg) IN
       IF m[1] # "value" \/ m[2] # c.v THEN "SPEC.reference-roundtrip-broken"
       ELSE IF c.back[1] = "na" THEN "ok"
       ELSE IF c.back[1] # "value" THEN "C01.loads-of-own-dump-raised"
       ELSE IF Norm(c.back[2]) # Norm(c.v) THEN "C01.roundtrip-differs"
       ELSE "ok"

LoadVerdict(c) ==
  LET cfg == [p2as3 |-> c.cfg[1], p3as2 |-> c.cfg[2], factory |-> FALSE]
      m   == Loads(c.inp, cfg)
  IN
  IF c.effects # <<>> THEN "C13.side-effect"
  ELSE IF c.real = <<"exc", "MemoryError">> /\ HasBomb(c.inp) THEN "C13.overcommit"
  ELSE IF m[1] = "overcommit" THEN
     IF c.real[1] \in {"value", "huge"} \/ c.real[2] \in AllowedLoadExc THEN "ok" ELSE "C13.overcommit"
  ELSE IF c.real[1] = "huge" THEN "C13.huge-value-from-small-input"
  ELSE IF c.real[1] = "exc" THEN
     IF c.real[2] \notin AllowedLoadExc THEN "C13.exception-class"
     ELSE IF m[1] = "value" /\ WF(m[2]) THEN "C12.valid-stream-rejected"
     ELSE "ok"
  ELSE \* the real loader returned a value
     IF c.inp # <<>> /\ Head(c.inp) # Version THEN "C12.foreign-version-byte-accepted"
     ELSE IF ~OnlySupported(c.real[2]) THEN "C13.unsupported-type-returned"
     ELSE IF c.prefix THEN "C13.strict-prefix-loaded"
     ELSE IF m[1] = "eof" THEN "C13.truncated-input-loaded"
     ELSE IF m[1] = "value" /\ WF(m[2]) /\ Norm(m[2]) # Norm(c.real[2]) THEN "C12.loaded-value-differs"
     ELSE "ok"

\* "chan": v sent through a real channel to an echo body, followed by a marker item
\*         sendres = "sent" | exception name, back as above, marker = the marker came back next
ChanVerdict(c) ==
  LET e == DumpsInternal(c.v) IN
  IF e = Err THEN
     IF c.sendres = "DumpError" THEN (IF c.marker THEN "ok" ELSE "C01.channel-unusable-after-rejected-send")
     ELSE IF c.sendres = "sent" THEN "C01.unsupported-value-was-sent"
     ELSE "C01.rejected-with-wrong-exception"
  ELSE IF c.sendres # "sent" THEN "C01.supported-value-rejected"
  ELSE IF c.back[1] # "value" THEN "C01.channel-receive-raised"
  ELSE IF Norm(c.back[2]) # Norm(c.v) THEN "C01.roundtrip-differs"
  ELSE IF ~c.marker THEN "C01.channel-out-of-step"
  ELSE "ok"

Verdict(c) == IF c.k = "dump" THEN DumpVerdict(c) ELSE IF c.k = "chan" THEN ChanVerdict(c) ELSE LoadVerdict(c)

ASSUME PrintT(<<"verdicts", [i \in 1..Len(Cases) |-> Verdict(Cases[i])]>>)

VARIABLE x
Init == x = 0
Next == UNCHANGED x
=============================================================================
