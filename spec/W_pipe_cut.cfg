SPECIFICATION Spec
CONSTANT Writers = {"a", "b"}
CONSTANT Queue <- Q_W_pipe_cut
CONSTANT IsSocket = FALSE
CONSTANT Fix_SocketWriteLock = TRUE
CONSTANT MayCut = TRUE
INVARIANT FramesIntact
INVARIANT NoGarbage
CHECK_DEADLOCK FALSE
