-------------------------------- MODULE MCRSync --------------------------------
(* M1 for C17: every (source entry, prior target entry, delete flag, cwd) of the pair-complete instance. *)
EXTENDS RSync
VARIABLES src, dst, del, cwd, phase
Files == {<<"file", c, m, t>> : c \in 0..2, m \in {420, 384, 493, 292}, t \in {1, 2}}
Links == {<<"link", k>> : k \in {"rel_inside", "rel_up", "dangling", "abs_inside", "abs_inside_dd", "abs_outside"}}
Leaves == Files \cup Links \cup {ABSENT}
Dirs == {<<"dir", m, ch>> : m \in {493, 365, 448}, ch \in Leaves}
Entries == Leaves \cup Dirs
Init == src \in Entries /\ dst \in Entries /\ del \in BOOLEAN /\ cwd \in {"outside", "root", "inside"} /\ phase = 0
Next == phase = 0 /\ phase' = 1 /\ UNCHANGED <<src, dst, del, cwd>>
Spec == Init /\ [][Next]_<<src, dst, del, cwd, phase>>
Got == Sync(src, dst, del, 0, cwd)
\* the target equals the source (up to the two accepted limitations)
TargetEqualsSource == phase = 1 => (QuickCheckMiss(src, dst) \/ Relax(Want(src, dst, del), Got.e) = Got.e)
\* exact characterisation of the first limitation: without it the target is exact apart from directory modes
LimitationsAreExact == (phase = 1 /\ ~QuickCheckMiss(src, dst) /\ ~DirModeLimit(src)) => Got.e = Want(src, dst, del)
\* re-syncing transfers no content and changes nothing
Minimal == phase = 1 => LET again == Sync(src, Got.e, del, 0, cwd) IN again.sent = {} /\ again.e = Got.e
=============================================================================
