---------------------------- MODULE MCRSyncProto ----------------------------
EXTENDS RSyncProto
\* bound for the configurations that allow failures at any point
Small == TRUE
=============================================================================
