SPECIFICATION Spec
CONSTANT Rounds = 4
CONSTANT Fix_NoDigestCache = FALSE
INVARIANT TargetEqualsSourceAfterSend
PROPERTY ContentTravelsOnlyWhenItDiffers
CHECK_DEADLOCK FALSE
