SPECIFICATION Spec
CONSTANT Calls <- K3
CONSTANT Failing <- NoFail
CONSTANT GiveBackOnFailure = FALSE
CONSTANT Fix_RegisterAtomic = FALSE
CONSTANT Fix_ExplicitCheck = TRUE
INVARIANT NoSharedId
INVARIANT AutoIdsUnique
CHECK_DEADLOCK FALSE
