------------------------------- MODULE Bootstrap -------------------------------
(* How a worker comes up.  Paths:
     "import"  plain popen: the child imports execnet.gateway_base from the initiator's directory
     "exec"    popen//python=, ssh, vagrant: the source of gateway_base is sent over the pipe and exec'd
     "via"     the forwarder executes the shipped gateway_io module (remote_exec), then starts the sub with "exec"
     "socket"  socketserver (shipped as a module to an existing worker, or started stand-alone) exec's gateway_base + SocketIO
   Handshake: parent sends one line repr(source); child: exec(eval(readline())); child writes b"1"; child serves.

   The constants are a projection of the current sources, extracted by an AST pass at check time:
     Units          the shipped texts
     Needs[u]       modules imported unconditionally anywhere in unit u
     Unbalanced[u]  names that an "import from execnet ... except ImportError: import from __main__" pair binds in one branch only
     Unresolved[u]  global names unit u reads at run time that neither u, nor the text executed before it in the same namespace
                    (gateway_base + "import socket" for SocketIO), nor the builtins bind
     Stdlib         the standard library's top-level module names
     Ships[p]       units that path p transmits
*)
EXTENDS Integers, Sequences, FiniteSets, TLC, Json, IOUtils

P == JsonDeserialize(IOEnv.CASES)
Units == {P.units[i].name : i \in 1..Len(P.units)}
UnitRec(u) == P.units[CHOOSE i \in 1..Len(P.units) : P.units[i].name = u]
ToSet(s) == {s[i] : i \in 1..Len(s)}
Needs(u) == ToSet(UnitRec(u).needs)
Unbalanced(u) == ToSet(UnitRec(u).unbalanced)
Unresolved(u) == ToSet(UnitRec(u).unresolved)
Stdlib == ToSet(P.stdlib)
Ships(p) == CASE p = "import" -> {}
              [] p = "exec" -> {"gateway_base"}
              [] p = "via" -> {"gateway_base", "gateway_io"}
              [] p = "socket" -> {"gateway_base", "socketio", "socketserver"}
              \* RSync.add_target on a source-bootstrapped worker: remote_exec of the rsync_remote module text
              [] p = "rsync" -> {"gateway_base", "rsync_remote"}

Paths == {"import", "exec", "via", "socket", "rsync"}
Children == {"stdlib_only", "with_execnet"}
Avail(c) == IF c = "with_execnet" THEN Stdlib \cup {"execnet"} ELSE Stdlib

VARIABLES path, child, phase
vars == <<path, child, phase>>
Init == path \in Paths /\ child \in Children /\ phase = "spawned"
\* the child executes what it was sent: every module the text imports must be importable there
Loadable == \A u \in Ships(path) : Needs(u) \subseteq Avail(child) /\ Unbalanced(u) = {} /\ Unresolved(u) = {}
SendSource == phase = "spawned" /\ phase' = "sent" /\ UNCHANGED <<path, child>>
ChildExec == /\ phase = "sent"
             /\ phase' = IF path = "import" THEN (IF "execnet" \in Avail(child) THEN "ready" ELSE "import_error")
                         ELSE (IF Loadable THEN "ready" ELSE "import_error")
             /\ UNCHANGED <<path, child>>
Ack == phase = "ready" /\ phase' = "serving" /\ UNCHANGED <<path, child>>       \* the b"1" byte
Fail == phase = "import_error" /\ phase' = "eof" /\ UNCHANGED <<path, child>>    \* parent reads EOF instead of b"1"
Next == SendSource \/ ChildExec \/ Ack \/ Fail
Spec == Init /\ [][Next]_vars /\ WF_vars(Next)

\* C15: every path that ships source comes up on a child that has only the standard library
SourceBootstrapNeedsNothing == (path # "import" /\ phase \in {"import_error", "eof"}) => FALSE
ShippedIsSelfContained == \A p \in Paths \ {"import"} : \A u \in Ships(p) : Needs(u) \subseteq Stdlib /\ Unbalanced(u) = {} /\ Unresolved(u) = {}
ComesUp == (path # "import" \/ child = "with_execnet") => <>(phase = "serving")
=============================================================================
