--------------------------------- MODULE RSync ---------------------------------
(* RSync: the receiver's decision at one path, as a function of the source entry and the
   prior target entry (the protocol is a pre-order walk; the decision at a path depends only
   on this pair, the ancestors' kinds and the delete flag -- "pair-complete" instance).

   Entries
     <<"absent">>
     <<"file", c, mode, mt>>   content id c (size is a function of c: Size(c)), permission bits, mtime id
     <<"dir", mode, child>>    child = the entry named "n" inside (or absent)
     <<"link", kind>>          kind in rel_inside | rel_up | dangling | abs_inside | abs_inside_dd (into an in-tree entry whose name starts with "..") | abs_outside
                               (on the target abs_inside means: points to the corresponding place under the target root)

   Sync(src, dst, del) transliterates serve_rsync / RSync.send: result [e |-> entry afterwards, sent |-> set of
   path depths whose file content was transferred].
   Fix_FileModeExact = FALSE: mode-only change applies mode | 0o700.
   The cwd dependence of relative links (Fix_RelLinkAsIs) is a parameter of LinkResult.
*)
EXTENDS Integers, Sequences, FiniteSets, TLC

CONSTANTS Fix_FileModeExact, Fix_RelLinkAsIs

ABSENT == <<"absent">>
Kind(e) == e[1]
Size(c) == IF c = 2 THEN 6 ELSE 4          \* contents 0 and 1 have the same size, 2 differs
\* mode | 0o700 on permission bits (decimal): owner rwx forced on
Or700(m) == (m % 64) + 448

\* how a source link arrives on the target.  cwd: "outside" | "root" (the source dir) | "inside" (the link's dir)
LinkResult(kind, depth, cwd) ==
  IF kind \in {"abs_inside", "abs_inside_dd", "abs_outside"} THEN <<"link", kind>>
  ELSE IF Fix_RelLinkAsIs THEN <<"link", kind>>
  ELSE \* relpath(linkpoint, sourcedir) resolved against the cwd
       IF kind = "rel_inside" /\ cwd = "root" THEN <<"link", IF depth = 0 THEN "abs_inside" ELSE "abs_inside_wrong_place">>
       ELSE <<"link", kind>>

RECURSIVE Sync(_, _, _, _, _)
Sync(src, dst, del, depth, cwd) ==
  CASE Kind(src) = "absent" ->
         \* the sender never mentions it: only a delete pass of the parent directory removes it
         [e |-> IF del THEN ABSENT ELSE dst, sent |-> {}]
    [] Kind(src) = "file" ->
         IF Kind(dst) = "file" THEN
            IF Size(src[2]) # Size(dst[2]) THEN [e |-> src, sent |-> {depth}]
            ELSE IF src[4] # dst[4] THEN         \* mtime differs: checksum decides whether data travels
               [e |-> src, sent |-> IF src[2] = dst[2] THEN {} ELSE {depth}]
            ELSE IF src[3] # dst[3] THEN         \* only the mode differs
               [e |-> <<"file", dst[2], IF Fix_FileModeExact THEN src[3] ELSE Or700(src[3]), dst[4]>>, sent |-> {}]
            ELSE [e |-> dst, sent |-> {}]       \* "already fine" (same size, mtime, mode): content is not looked at
         ELSE [e |-> src, sent |-> {depth}]      \* absent or another kind: removed, then transferred
    [] Kind(src) = "dir" ->
         LET old == IF Kind(dst) = "dir" THEN dst[3] ELSE ABSENT
             sub == Sync(src[3], old, del, depth + 1, cwd)
         IN [e |-> <<"dir", Or700(src[2]), sub.e>>, sent |-> sub.sent]
    [] Kind(src) = "link" -> [e |-> LinkResult(src[2], depth, cwd), sent |-> {}]

\* ---------------------------------------------------- what the statement demands
RECURSIVE Want(_, _, _)
Want(src, dst, del) ==
  CASE Kind(src) = "absent" -> IF del THEN ABSENT ELSE dst
    [] Kind(src) = "dir" -> <<"dir", src[2], Want(src[3], IF Kind(dst) = "dir" THEN dst[3] ELSE ABSENT, del)>>
    [] OTHER -> src

\* the two accepted limitations (known findings): directory modes get | 0o700; a target file with the
\* same size and mtime as the source file is taken to be identical
RECURSIVE Relax(_, _)
Relax(want, got) ==
  IF Kind(want) = "dir" /\ Kind(got) = "dir" THEN <<"dir", IF got[2] = Or700(want[2]) THEN got[2] ELSE want[2], Relax(want[3], got[3])>>
  ELSE want
RECURSIVE QuickCheckMiss(_, _)
QuickCheckMiss(src, dst) ==
  \/ Kind(src) = "file" /\ Kind(dst) = "file" /\ Size(src[2]) = Size(dst[2]) /\ src[4] = dst[4] /\ src[2] # dst[2]
  \/ Kind(src) = "dir" /\ Kind(dst) = "dir" /\ QuickCheckMiss(src[3], dst[3])
RECURSIVE DirModeLimit(_)
DirModeLimit(src) == Kind(src) = "dir" /\ (Or700(src[2]) # src[2] \/ DirModeLimit(src[3]))
=============================================================================
