-------------------------- MODULE MCTerminateRounds --------------------------
EXTENDS TerminateRounds
G4 == {"m", "w1", "w2", "p"}
V4 == [g \in {"w1", "w2"} |-> "m"]
\* a chain: w proxied through m, m itself proxied through r
G3 == {"r", "m", "w"}
V3 == [g \in {"m", "w"} |-> IF g = "m" THEN "r" ELSE "m"]
=============================================================================
