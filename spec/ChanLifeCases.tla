--------------------------- MODULE ChanLifeCases ---------------------------
(* Spec -> code replay of the channel life cycle (ChanLife.tla).

   WHAT = "enum":  print every sequence of at most DEPTH user operations that ChanLife enables when each operation
                   is followed by Settle (both receiver threads handle every frame in flight) - the sequential
                   behaviours of the model.
   otherwise:      judge recorded replays: CASES is a list of [ops, obs]; ops[k] = <<name, side, kind>>, obs[k] = the
                   abstract state projected from the real gateway pair after operation k had settled.  The model is
                   stepped along the same operations and every projected field is compared after every step. *)
EXTENDS Integers, Sequences, FiniteSets, TLC, Json, IOUtils

K == 2
Fix_CloseFromSendonly == (IOEnv.FIXED = "1")
VARIABLE st
L == INSTANCE ChanLife

RECURSIVE Settle(_)
Settle(s) ==
  IF L!CanDeliver(s, "R") THEN Settle(L!Deliver(s, "R"))
  ELSE IF L!CanDeliver(s, "L") THEN Settle(L!Deliver(s, "L"))
  ELSE s

Ops == {<<"send", "L", "">>, <<"send", "R", "">>, <<"setcb", "L", "plain">>, <<"setcb", "L", "end">>, <<"setcb", "R", "plain">>, <<"setcb", "R", "end">>,
        <<"receive", "L", "">>, <<"receive", "R", "">>, <<"close", "L", "">>, <<"drop", "L", "">>, <<"bodyend", "R", "">>, <<"bodyfail", "R", "">>}
Can(s, op) ==
  CASE op[1] = "send" -> L!CanSend(s, op[2])
    [] op[1] = "setcb" -> L!CanSetCb(s, op[2])
    [] op[1] = "receive" -> L!CanReceive(s, op[2])
    [] op[1] = "close" -> L!CanClose(s, "L")
    [] op[1] = "drop" -> L!CanDrop(s, "L")
    [] op[1] \in {"bodyend", "bodyfail"} -> L!CanClose(s, "R") /\ ~s.closed["R"]
    [] OTHER -> FALSE
Apply(s, op) ==
  Settle(CASE op[1] = "send" -> L!Send(s, op[2])
           [] op[1] = "setcb" -> L!SetCb(s, op[2], op[3])
           [] op[1] = "receive" -> L!Receive(s, op[2])
           [] op[1] = "close" -> L!Close(s, "L")
           [] op[1] = "drop" -> L!Drop(s, "L")
           [] op[1] = "bodyend" -> L!Drop(L!Close(s, "R"), "R")
           [] op[1] = "bodyfail" -> L!Drop(L!CloseWith(s, "R", "error"), "R"))

\* ------------------------------------------------------------ enumeration
RECURSIVE Words(_, _, _)
Words(s, w, n) ==       \* all enabled continuations of w from state s, up to n more operations
  {w} \cup (IF n = 0 THEN {} ELSE UNION {Words(Apply(s, op), Append(w, op), n - 1) : op \in {o \in Ops : Can(s, o)}})
Depth == IF IOEnv.DEPTH = "5" THEN 5 ELSE IF IOEnv.DEPTH = "6" THEN 6 ELSE IF IOEnv.DEPTH = "3" THEN 3 ELSE 4
ASSUME PrintT(<<"words", IF IOEnv.WHAT = "enum" THEN Words(L!Init0, <<>>, Depth) ELSE {}>>)

\* ------------------------------------------------------------ judging
\* fields of a dead channel object cannot be observed: they are projected away on both sides
Proj(s, sd) ==
  LET alive == s.obj[sd] = "alive" IN
  [alive |-> alive, reg |-> s.reg[sd], cb |-> s.cb[sd], ends |-> s.ends[sd], cbgot |-> s.cbgot[sd], rgot |-> s.rgot[sd], eof |-> s.eof[sd], rerr |-> s.rerr[sd], tmo |-> 0, operr |-> 0,
   closed |-> alive /\ s.closed[sd], rc |-> alive /\ s.rc[sd], hasq |-> alive /\ s.hasq[sd], errs |-> IF alive THEN s.errs[sd] ELSE 0,
   queue |-> IF alive /\ s.hasq[sd] THEN s.queue[sd] ELSE <<>>]
Fields == <<"alive", "reg", "cb", "ends", "cbgot", "rgot", "eof", "closed", "rc", "hasq", "queue", "errs", "rerr", "tmo", "operr">>
Clause(f) ==
  CASE f = "reg" -> "C18.chanlife.channel-table-entry-differs-from-model"
    [] f = "cb" -> "C18.chanlife.callback-table-entry-differs-from-model"
    [] f = "ends" -> "C10.chanlife.endmarker-calls-differ-from-model"
    [] f = "cbgot" -> "C10.chanlife.callback-items-differ-from-model"
    [] f = "rgot" -> "C02.chanlife.received-items-differ-from-model"
    [] f = "eof" -> "C03.chanlife.eof-differs-from-model"
    [] f = "closed" -> "C03.chanlife.closed-flag-differs-from-model"
    [] f = "rc" -> "C03.chanlife.receiveclosed-flag-differs-from-model"
    [] f = "queue" -> "C03.chanlife.queue-differs-from-model"
    [] f = "rerr" -> "C07.chanlife.remote-errors-raised-by-receive-differ-from-model"
    [] f = "tmo" -> "C03.chanlife.receive-found-nothing-although-the-model-has-an-item-or-the-endmarker"
    [] f = "operr" -> "C18.chanlife.operation-raised-although-the-model-enables-it"
    [] f = "errs" -> "C07.chanlife.pending-remote-errors-differ-from-model"
    [] OTHER -> "C18.chanlife.state-differs-from-model"
Differs(want, got) == {i \in 1..Len(Fields) : want[Fields[i]] # got[Fields[i]]}
RECURSIVE Judge(_, _, _, _)
Judge(s, ops, obs, k) ==
  IF k > Len(ops) THEN "ok"
  ELSE LET op == ops[k] IN
       IF ~Can(s, op) THEN "MODEL.operation-not-enabled"
       ELSE LET s1 == Apply(s, op)
                dl == Differs(Proj(s1, "L"), obs[k].L)
                dr == Differs(Proj(s1, "R"), obs[k].R)
            IN IF dl # {} THEN Clause(Fields[CHOOSE i \in dl : \A j \in dl : i <= j])
               ELSE IF dr # {} THEN Clause(Fields[CHOOSE i \in dr : \A j \in dr : i <= j])
               ELSE Judge(s1, ops, obs, k + 1)
Cases == IF IOEnv.WHAT = "enum" THEN <<>> ELSE JsonDeserialize(IOEnv.CASES)
Verdict(c) == Judge(L!Init0, c.ops, c.obs, 1)
ASSUME PrintT(<<"verdicts", [i \in 1..Len(Cases) |-> Verdict(Cases[i])]>>)
Init == st = 0
Next == UNCHANGED st
=============================================================================
