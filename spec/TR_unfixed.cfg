SPECIFICATION Spec
CONSTANT Gws <- G4
CONSTANT Via <- V4
CONSTANT Fix_TolerateGoneMaster = FALSE
CONSTANT Fix_JoinWhenEmpty = FALSE
CONSTANT Fix_ProtectPending = FALSE
INVARIANT NeverThroughAClosedMaster
INVARIANT SkippedOnlyWhenTheUserExitedTheMaster
PROPERTY Terminates
CHECK_DEADLOCK FALSE
