------------------------------ MODULE ExecCases ------------------------------
EXTENDS ExecAbs, Json, IOUtils
Cases == JsonDeserialize(IOEnv.CASES)
ASSUME PrintT(<<"verdicts", [i \in 1..Len(Cases) |-> Verdict(Cases[i].events)]>>)
VARIABLE x
Init == x = 0
Next == UNCHANGED x
=============================================================================
