---------------------------- MODULE PoolRealCases ----------------------------
(* C09 on a real worker: a task the pool has accepted runs to its end also when the gateway is told to exit meanwhile
   (the exit ladder waits for running tasks before the process goes away).
   case: [started (the task reported that it runs), marker (it reached its last statement), gone (the worker process ended)] *)
EXTENDS Integers, Sequences, TLC, Json, IOUtils
Cases == JsonDeserialize(IOEnv.CASES)
Verdict(c) == IF ~c.started THEN "HARNESS.task-did-not-start"
              ELSE IF ~c.marker THEN "C09.accepted-task-cut-short-when-the-gateway-exited"
              ELSE IF ~c.gone THEN "C09.worker-still-there-after-its-tasks-ended"
              ELSE "ok"
ASSUME PrintT(<<"verdicts", [i \in 1..Len(Cases) |-> Verdict(Cases[i])]>>)
VARIABLE x
Init == x = 0
Next == UNCHANGED x
=============================================================================
