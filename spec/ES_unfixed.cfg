SPECIFICATION Spec
CONSTANT N = 2
CONSTANT Fix_CompleteOnAllPaths = FALSE
CONSTANT ClearBeforeSpawn = TRUE
INVARIANT InOrder
INVARIANT NoFalseDeadlock
INVARIANT Undisturbed
PROPERTY AllAnswered
PROPERTY DeadlockOnlyWhenBusy
CHECK_DEADLOCK FALSE
