-------------------------------- MODULE MCXSpec --------------------------------
(* M1 for C20: for every list of up to MaxPairs pairs over a small alphabet that contains every
   structural character, parsing the joined text yields exactly the pairs (or ValueError on a repeated key). *)
EXTENDS XSpec
CONSTANT MaxPairs
VARIABLES kvs, phase
Keys == { <<97>>, <<98>>, <<101, 110, 118, 58, 97>>, <<105, 100>>, <<97, 58, 98>>, <<101, 110, 118, 58, 65>>, <<101, 110, 118, 58, 66>>, <<101, 110, 118>>,
          <<97, Slash>>, <<Slash, 97>>, <<233>>, <<97, 32, 98>>, <<101, 110, 118, 58>> }
Vals == { T, <<"str", <<>>>>, <<"str", <<49>>>>, <<"str", <<97, Eq, 98>>>>, <<"str", <<Slash>>>>, <<"str", <<120, Slash>>>>,
          <<"str", <<Slash, 120>>>>, <<"str", <<32, 233>>>>, <<"str", <<58>>>> }
Pairs == Keys \X Vals
RECURSIVE Lists(_)
\* the third pair comes from a reduced alphabet (TLC's set-size limit): repeated keys, env keys, a '/'-ending value
PairsSmall == {<<97>>, <<105, 100>>, <<101, 110, 118, 58, 65>>, <<97, Slash>>, <<101, 110, 118>>} \X {T, <<"str", <<49>>>>, <<"str", <<120, Slash>>>>, <<"str", <<97, Eq, 98>>>>}
Lists(n) == IF n = 0 THEN {<<>>} ELSE LET S == Lists(n - 1) IN S \cup {Append(l, p) : l \in {x \in S : Len(x) = n - 1}, p \in (IF n >= 3 THEN PairsSmall ELSE Pairs)}
Init == kvs \in (Lists(MaxPairs) \ {<<>>}) /\ phase = 0
Next == phase = 0 /\ phase' = 1 /\ UNCHANGED kvs
Spec == Init /\ [][Next]_<<kvs, phase>>
ParseIsFaithful == (phase = 1 /\ InDomain(kvs) /\ Unambiguous(kvs)) => Parse(Join(kvs)) = Expected(kvs)
=============================================================================
