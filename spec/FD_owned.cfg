SPECIFICATION Spec
CONSTANT Fix_ClosefdFalse = FALSE
INVARIANT StdIsNotProtocol
INVARIANT RawWritesHarmless
INVARIANT FilesAboveStd
INVARIANT ProtocolOpen
CHECK_DEADLOCK FALSE
