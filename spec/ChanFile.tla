------------------------------- MODULE ChanFile -------------------------------
(* Channel files: makefile('r') is a file over the concatenation of the items.

   Reference: a position in the concatenation.  Implementation-shaped: the buffer
   algorithm of ChannelFileRead.read / readline (receive until enough, close on
   EOF, slice).  Characters are code points (10 = newline); items are sequences.
   ops: <<"read", n>> | <<"readline">>
*)
EXTENDS Integers, Sequences, FiniteSets, TLC

NL == 10
RECURSIVE Concat(_)
Concat(items) == IF items = <<>> THEN <<>> ELSE Head(items) \o Concat(Tail(items))
Min(a, b) == IF a < b THEN a ELSE b

\* ------------------------------------------------------------- reference
RefRead(content, pos, n) == SubSeq(content, pos + 1, Min(pos + n, Len(content)))
RefReadline(content, pos) ==
  LET nls == {i \in (pos + 1)..Len(content) : content[i] = NL} IN
  IF nls = {} THEN SubSeq(content, pos + 1, Len(content))
  ELSE SubSeq(content, pos + 1, CHOOSE i \in nls : \A j \in nls : i <= j)

RECURSIVE RefRun(_, _, _)
RefRun(content, pos, ops) ==
  IF ops = <<>> THEN <<>>
  ELSE LET r == IF Head(ops)[1] = "read" THEN RefRead(content, pos, Head(ops)[2]) ELSE RefReadline(content, pos)
       IN <<r>> \o RefRun(content, pos + Len(r), Tail(ops))
Ref(items, ops) == RefRun(Concat(items), 0, ops)

\* ------------------------------------------- the algorithm of the code
\* state: [buf |-> sequence, none |-> BOOLEAN (self._buffer is None), q |-> remaining items]
RECURSIVE Fill(_, _)
Fill(st, n) ==      \* while len(buffer) < n: buffer += receive()   (EOFError ends the loop)
  IF Len(st.buf) >= n \/ st.q = <<>> THEN st
  ELSE Fill([st EXCEPT !.buf = @ \o Head(st.q), !.q = Tail(@)], n)

ImplRead(st, n) ==  \* returns <<result, new state>>
  LET s1 == IF st.none THEN (IF st.q = <<>> THEN st ELSE [st EXCEPT !.none = FALSE, !.buf = Head(st.q), !.q = Tail(@)]) ELSE st
      s2 == IF s1.none THEN s1 ELSE Fill(s1, n)
  IN IF s2.none THEN << <<>>, s2 >>
     ELSE << SubSeq(s2.buf, 1, Min(n, Len(s2.buf))), [s2 EXCEPT !.buf = SubSeq(@, Min(n, Len(@)) + 1, Len(@))] >>

\* the design that collects the items of one read() call in a local variable and stores it back only when enough has arrived:
\* a call that runs into the end of the channel forgets what it had received (mutant, must not be a file)
ImplReadLossy(st, n) ==
  LET r == ImplRead(st, n) IN
  IF Len(r[1]) < n /\ r[2].q = <<>> /\ st.q # <<>>       \* the end of the channel was met inside this call, after receiving something
  THEN LET back == [st EXCEPT !.q = <<>>] IN               \* self._buffer as before the call, the items are gone
       IF back.none THEN << <<>>, back >>
       ELSE << SubSeq(back.buf, 1, Min(n, Len(back.buf))), [back EXCEPT !.buf = SubSeq(@, Min(n, Len(@)) + 1, Len(@))] >>
  ELSE r
RECURSIVE ImplRunLossy(_, _)
ImplRunLossy(st, ops) ==       \* (read() calls only)
  IF ops = <<>> THEN <<>>
  ELSE LET r == ImplReadLossy(st, Head(ops)[2]) IN <<r[1]>> \o ImplRunLossy(r[2], Tail(ops))
ImplLossy(items, ops) == ImplRunLossy([buf |-> <<>>, none |-> TRUE, q |-> items], ops)

RECURSIVE ReadMore(_, _)
ReadMore(line, st) ==   \* while line and line[-1] != "\n": c = read(1); if not c: break; line += c
  IF line = <<>> \/ line[Len(line)] = NL THEN <<line, st>>
  ELSE LET r == ImplRead(st, 1) IN IF r[1] = <<>> THEN <<line, r[2]>> ELSE ReadMore(line \o r[1], r[2])

ImplReadline(st) ==
  IF ~st.none THEN
     LET idx == {i \in 1..Len(st.buf) : st.buf[i] = NL} IN
     IF idx # {} THEN ImplRead(st, CHOOSE i \in idx : \A j \in idx : i <= j)
     ELSE LET r == ImplRead(st, Len(st.buf) + 1) IN ReadMore(r[1], r[2])
  ELSE LET r == ImplRead(st, 1) IN ReadMore(r[1], r[2])

RECURSIVE ImplRun(_, _)
ImplRun(st, ops) ==
  IF ops = <<>> THEN <<>>
  ELSE LET r == IF Head(ops)[1] = "read" THEN ImplRead(st, Head(ops)[2]) ELSE ImplReadline(st)
       IN <<r[1]>> \o ImplRun(r[2], Tail(ops))
Impl(items, ops) == ImplRun([buf |-> <<>>, none |-> TRUE, q |-> items], ops)
=============================================================================
