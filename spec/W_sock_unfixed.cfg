SPECIFICATION Spec
CONSTANT Writers = {"a", "b"}
CONSTANT Queue <- Q_W_sock_unfixed
CONSTANT IsSocket = TRUE
CONSTANT Fix_SocketWriteLock = FALSE
CONSTANT MayCut = FALSE
INVARIANT FramesIntact
INVARIANT NoGarbage
PROPERTY AllArrive
CHECK_DEADLOCK FALSE
