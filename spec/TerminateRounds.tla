---------------------------- MODULE TerminateRounds ----------------------------
(* Group.terminate(): the order in which gateways are told to exit and are waited for, when some gateways are proxied through
   others (via=) and some were exit()ed by the user before.

   Each round:  vias := the masters of proxied gateways that must stay up;  every member not in vias gets exit();
                then every gateway in _gateways_to_join is joined and waited for - a proxied one THROUGH its master (RIO_WAIT / RIO_KILL
                travel over the master's connection); the list is cleared; repeat while members are left.

   Fix_ProtectPending = FALSE is the pinned tree: vias is computed from the members only, so the master of a gateway that was
   exit()ed before (it sits in _gateways_to_join, not among the members) is exited in the same round and the wait raises OSError. *)
EXTENDS Integers, FiniteSets, TLC

CONSTANTS Gws,                 \* gateway ids
          Via,                 \* [proxied gateway -> its master]  (a partial function: DOMAIN Via \subseteq Gws)
          Fix_ProtectPending,
          Fix_TolerateGoneMaster,  \* TRUE: waiting for / killing a proxied gateway whose master is gone is skipped instead of raising
          Fix_JoinWhenEmpty        \* FALSE (pinned tree): "while self": with no member left the pending gateways are never joined

VARIABLES members, tojoin, up, phase, failed, skipped, pre0
vars == <<members, tojoin, up, phase, failed, skipped, pre0>>

Init == /\ \E pre \in SUBSET Gws :                \* gateways the user exit()ed before calling terminate
             /\ \A g \in DOMAIN Via : Via[g] \in pre => g \in pre     \* (nobody exits a master and keeps using what is proxied through it)
             /\ members = Gws \ pre /\ tojoin = pre /\ up = Gws \ pre /\ pre0 = pre
        /\ phase = "round" /\ failed = {} /\ skipped = {}

Masters(S) == {Via[g] : g \in S \cap DOMAIN Via}
Vias == IF Fix_ProtectPending THEN Masters(members \cup tojoin) ELSE Masters(members)

\* for gw in members: if gw.id not in vias: gw.exit()
ExitRound ==
  /\ phase = "round" /\ (members # {} \/ (Fix_JoinWhenEmpty /\ tojoin # {}))
  /\ LET out == members \ Vias IN
     /\ members' = members \ out /\ tojoin' = tojoin \cup out /\ up' = up \ out
  /\ phase' = "join" /\ UNCHANGED <<failed, skipped, pre0>>
\* safe_terminate: join / wait (and kill) every gateway of the list; a proxied one needs its master's connection
JoinAll ==
  /\ phase = "join"
  /\ LET gone == {g \in tojoin \cap DOMAIN Via : Via[g] \notin up} IN
     IF Fix_TolerateGoneMaster THEN skipped' = skipped \cup gone /\ UNCHANGED failed
     ELSE failed' = failed \cup gone /\ UNCHANGED skipped
  /\ tojoin' = {} /\ phase' = "round" /\ UNCHANGED <<members, up, pre0>>
Done == phase = "round" /\ members = {} /\ (~Fix_JoinWhenEmpty \/ tojoin = {}) /\ UNCHANGED vars
Next == ExitRound \/ JoinAll \/ Done
Spec == Init /\ [][Next]_vars /\ WF_vars(Next)

\* C05: terminate does not raise, and it ends with an empty group
NeverThroughAClosedMaster == failed = {}
\* ... and the only proxied gateways it cannot wait for / kill are those whose master the user had exit()ed before
SkippedOnlyWhenTheUserExitedTheMaster == \A g \in skipped : Via[g] \in pre0
Terminates == <>(members = {} /\ tojoin = {} /\ phase = "round")
\* a master is exited only after everything proxied through it has been waited for
MastersLast == \A g \in DOMAIN Via : (g \in members \cup tojoin) => Via[g] \in up
=============================================================================
