SPECIFICATION Spec
CONSTANTS
  N = 3
  Fix_WaitForAll = TRUE
  Fix_SendChecksClosed = TRUE
INVARIANT TypeOK
INVARIANT AllClosedWhenOver
INVARIANT RaisesTheFirstFailure
INVARIANT NoFrameAfterClose
PROPERTY WaitcloseEnds
CHECK_DEADLOCK FALSE
