------------------------------ MODULE CbEndCases ------------------------------
(* C07 on a real gateway: a channel callback raises when it is handed its endmarker - on the initiator's side, then on the worker's
   side (real/cbend_real.py).  The channel in question is closed by then, so the part of the statement that is left is: no other
   channel is disturbed and the gateway connection itself stays up.
   case: [kind, err, got (what the initiator's callback was given), sibling (a conversation that was open meanwhile), later (a
          remote_exec afterwards), hasreceiver, worker_sibling, worker_later] *)
EXTENDS Integers, Sequences, TLC, Json, IOUtils
Cases == JsonDeserialize(IOEnv.CASES)
Verdict(c) ==
  IF c.err # "" THEN "HARNESS." \o c.err
  ELSE IF c.got # <<"a", "END">> THEN "C10.callback-did-not-get-its-item-and-one-endmarker"
  ELSE IF c.sibling # "ok" THEN "C07.another-channel-disturbed-after-a-callback-raised-on-its-endmarker"
  ELSE IF c.later # "ok" \/ ~c.hasreceiver THEN "C07.gateway-connection-lost-after-a-callback-raised-on-its-endmarker"
  ELSE IF c.worker_sibling # "ok" THEN "C07.another-channel-disturbed-after-a-worker-side-callback-raised-on-its-endmarker"
  ELSE IF c.worker_later # "ok" THEN "C07.gateway-connection-lost-after-a-worker-side-callback-raised-on-its-endmarker"
  ELSE "ok"
ASSUME PrintT(<<"verdicts", [i \in 1..Len(Cases) |-> Verdict(Cases[i])]>>)
VARIABLE x
Init == x = 0
Next == UNCHANGED x
=============================================================================
