--------------------------- MODULE StrConfigCases ---------------------------
(* WHAT = "enum": all sequences of <= DEPTH operations of StrConfig.tla.
   otherwise: judge replays.  A case is [ops, obs]; ops[k] = <<name, side, chan, a, b>>; for a probe operation obs[k] is the
   value (model form) the receiving side obtained for the legacy probe payload; it must be what the reference decoder
   (Serializer!LoadsInternal) yields under the pair the model says is in effect. *)
EXTENDS Integers, Sequences, FiniteSets, TLC, Json, IOUtils
VARIABLE x
S == INSTANCE StrConfig
Ser == INSTANCE Serializer

\* PY2STRING "a", PY3STRING "b", UNICODE "c", LONG 7 as a 4-tuple (dumps_internal layout: no version byte)
Probe == <<77, 0, 0, 0, 1, 97,  78, 0, 0, 0, 1, 98,  83, 0, 0, 0, 1, 99,  71, 0, 0, 0, 7,  64, 0, 0, 0, 4,  81>>

Cfgs == {<<TRUE, FALSE>>, <<FALSE, TRUE>>, <<FALSE, FALSE>>, <<TRUE, TRUE>>}
Ops == {<<"gwreconf", "L", "", c[1], c[2]>> : c \in Cfgs} \cup {<<"newchan", "L", "d", FALSE, FALSE>>}
       \cup {<<"chreconf", s, c, g[1], g[2]>> : s \in {"L", "R"}, c \in {"c", "d"}, g \in Cfgs}
       \cup {<<"probe", s, c, FALSE, FALSE>> : s \in {"L", "R"}, c \in {"c", "d"}}
       \cup {<<"setcb", s, c, FALSE, FALSE>> : s \in {"L", "R"}, c \in {"c", "d"}} \cup {<<"drop", "L", c, FALSE, FALSE>> : c \in {"c", "d"}}
       \* Channel.reconfigure on a channel the peer has never heard of (a fresh newchannel()): nothing else changes anywhere
       \cup {<<"orphanreconf", "L", "", g[1], g[2]>> : g \in {<<FALSE, TRUE>>, <<FALSE, FALSE>>}}
Can(st, op) ==
  CASE op[1] \in {"gwreconf", "orphanreconf"} -> TRUE
    [] op[1] = "newchan" -> S!CanNewChan(st)
    [] op[1] = "chreconf" -> S!CanChReconf(st, op[2], op[3])
    [] op[1] = "probe" -> S!CanProbe(st, op[2], op[3])
    [] op[1] = "setcb" -> S!CanSetCb(st, op[2], op[3])
    [] op[1] = "drop" -> S!CanDrop(st, op[3])
    [] OTHER -> FALSE
Apply(st, op) ==
  CASE op[1] = "gwreconf" -> S!GwReconf(st, <<op[4], op[5]>>)
    [] op[1] = "newchan" -> S!NewChan(st)
    [] op[1] = "chreconf" -> S!ChReconf(st, op[2], op[3], <<op[4], op[5]>>)
    [] op[1] = "setcb" -> S!SetCb(st, op[2], op[3])
    [] op[1] = "drop" -> S!Drop(st, op[3])
    [] OTHER -> st

RECURSIVE Words(_, _, _, _)
\* sequences that end in a probe are the informative ones; the last operation of a word of full length is a probe
Words(st, w, n, informative) ==
  (IF informative THEN {w} ELSE {}) \cup
  (IF n = 0 THEN {} ELSE UNION {Words(Apply(st, op), Append(w, op), n - 1, op[1] = "probe") : op \in {o \in Ops : Can(st, o) /\ (n > 1 \/ o[1] = "probe")}})
Depth == IF IOEnv.DEPTH = "4" THEN 4 ELSE IF IOEnv.DEPTH = "2" THEN 2 ELSE IF IOEnv.DEPTH = "5" THEN 5 ELSE 3
ASSUME PrintT(<<"words", IF IOEnv.WHAT = "enum" THEN Words(S!Init0, <<>>, Depth, FALSE) ELSE {}>>)

Expected(cfg) == Ser!LoadsInternal(Probe, [p2as3 |-> cfg[1], p3as2 |-> cfg[2], factory |-> FALSE])
RECURSIVE Judge(_, _, _, _)
Judge(st, ops, obs, k) ==
  IF k > Len(ops) THEN "ok"
  ELSE LET op == ops[k] IN
       IF ~Can(st, op) THEN "MODEL.operation-not-enabled"
       ELSE IF op[1] = "probe" THEN
              LET e == Expected(S!DecodedWith(st, op[2], op[3])) IN
              IF e[1] # "value" THEN "MODEL.probe-not-decodable"
              ELSE IF obs[k] # e[2] THEN
                   (IF op[3] = "c" THEN "C12.strconfig.item-decoded-with-another-coercion-than-the-channel-has"
                    ELSE "C12.strconfig.new-channel-does-not-follow-its-gateway-or-reconfigure")
              ELSE Judge(st, ops, obs, k + 1)
       ELSE Judge(Apply(st, op), ops, obs, k + 1)
Cases == IF IOEnv.WHAT = "enum" THEN <<>> ELSE JsonDeserialize(IOEnv.CASES)
Verdict(c) == Judge(S!Init0, c.ops, c.obs, 1)
ASSUME PrintT(<<"verdicts", [i \in 1..Len(Cases) |-> Verdict(Cases[i])]>>)
Init == x = 0
Next == UNCHANGED x
=============================================================================
