--------------------------------- MODULE Wire ---------------------------------
(* The framing layer: Message.to_io / Message.from_io over Popen2IO or SocketIO.

   N writer threads each own a queue of frames.  On a pipe one write() call
   appends the whole frame atomically (BufferedWriter holds its lock across the
   call).  On a socket sendall() is a loop of partial sends; other threads may
   send in between unless the write lock is held (Fix_SocketWriteLock).
   The reader obtains 1..n bytes per low-level read (any chunking) and
   reassembles: 9-byte header (type, channel id, payload length), then payload.
   The connection may be cut after any byte.
*)
EXTENDS Bytes, FiniteSets, TLC

CONSTANTS Writers,          \* set of writer names
          Queue,            \* [Writers -> Seq(frame)], frame = [type, id, data]
          IsSocket,         \* BOOLEAN
          Fix_SocketWriteLock,
          MayCut            \* BOOLEAN: the connection may be cut after any byte

VARIABLES wq,       \* frames not yet started, per writer
          pend,     \* bytes of the frame being sent that are not yet on the wire, per writer
          lock,     \* write lock owner or "none"
          stream,   \* bytes on the wire not yet read
          rbuf,     \* bytes read but not yet decoded
          decoded,  \* frames decoded by from_io, in order
          cut,      \* the connection was cut
          rstate    \* "run" | "eof" | "garbage"

vars == <<wq, pend, lock, stream, rbuf, decoded, cut, rstate>>

FrameBytes(f) == <<f.type>> \o Int4(f.id) \o Int4(Len(f.data)) \o f.data

Init == /\ wq = Queue /\ pend = [w \in Writers |-> <<>>] /\ lock = "none"
        /\ stream = <<>> /\ rbuf = <<>> /\ decoded = <<>> /\ cut = FALSE /\ rstate = "run"

\* ---- writers
WritePipe(w) ==      \* Popen2IO.write: one atomic append
  /\ ~IsSocket /\ ~cut /\ wq[w] # <<>>
  /\ stream' = stream \o FrameBytes(Head(wq[w])) /\ wq' = [wq EXCEPT ![w] = Tail(@)]
  /\ UNCHANGED <<pend, lock, rbuf, decoded, cut, rstate>>

StartSend(w) ==      \* SocketIO.write: take the lock (if there is one), sendall begins
  /\ IsSocket /\ ~cut /\ wq[w] # <<>> /\ pend[w] = <<>>
  /\ (Fix_SocketWriteLock => lock = "none")
  /\ lock' = IF Fix_SocketWriteLock THEN w ELSE lock
  /\ pend' = [pend EXCEPT ![w] = FrameBytes(Head(wq[w]))] /\ wq' = [wq EXCEPT ![w] = Tail(@)]
  /\ UNCHANGED <<stream, rbuf, decoded, cut, rstate>>

SendSome(w) ==       \* one send() of the sendall loop: any non-empty prefix
  /\ IsSocket /\ ~cut /\ pend[w] # <<>>
  /\ \E k \in {1, (Len(pend[w]) + 1) \div 2, Len(pend[w])} :
       /\ stream' = stream \o SubSeq(pend[w], 1, k)
       /\ pend' = [pend EXCEPT ![w] = SubSeq(@, k + 1, Len(@))]
       /\ lock' = IF k = Len(pend[w]) /\ lock = w THEN "none" ELSE lock
  /\ UNCHANGED <<wq, rbuf, decoded, cut, rstate>>

\* ---- reader
ReadSome ==          \* one low-level read()/recv(): 1, 2, half or all available bytes
  /\ rstate = "run" /\ stream # <<>>
  /\ \E k \in {1, 2, (Len(stream) + 1) \div 2, Len(stream)} :
       /\ k <= Len(stream)
       /\ rbuf' = rbuf \o SubSeq(stream, 1, k) /\ stream' = SubSeq(stream, k + 1, Len(stream))
  /\ UNCHANGED <<wq, pend, lock, decoded, cut, rstate>>

Decode ==            \* from_io has a complete header and payload
  /\ rstate = "run" /\ Len(rbuf) >= 9
  /\ LET n == FromInt4(SubSeq(rbuf, 6, 9)) IN
       IF n < 0 THEN rstate' = "garbage" /\ UNCHANGED <<rbuf, decoded>>
       ELSE /\ Len(rbuf) >= 9 + n
            /\ decoded' = Append(decoded, [type |-> rbuf[1], id |-> FromInt4(SubSeq(rbuf, 2, 5)), data |-> SubSeq(rbuf, 10, 9 + n)])
            /\ rbuf' = SubSeq(rbuf, 10 + n, Len(rbuf)) /\ UNCHANGED rstate
  /\ UNCHANGED <<wq, pend, lock, stream, cut>>

SeeEof ==            \* a read returns b"": EOFError, whatever is in rbuf is discarded
  /\ rstate = "run" /\ cut /\ stream = <<>>
  /\ ~(Len(rbuf) >= 9 /\ FromInt4(SubSeq(rbuf, 6, 9)) >= 0 /\ Len(rbuf) >= 9 + FromInt4(SubSeq(rbuf, 6, 9)))
  /\ rstate' = "eof"
  /\ UNCHANGED <<wq, pend, lock, stream, rbuf, decoded, cut>>

Cut == \* the connection breaks: an arbitrary suffix of the bytes in flight is lost
  /\ MayCut /\ ~cut /\ cut' = TRUE
  /\ \E k \in 0..Len(stream) : stream' = SubSeq(stream, 1, k)
  /\ UNCHANGED <<wq, pend, lock, rbuf, decoded, rstate>>

Next == \/ \E w \in Writers : WritePipe(w) \/ StartSend(w) \/ SendSome(w)
        \/ ReadSome \/ Decode \/ SeeEof \/ Cut
Spec == Init /\ [][Next]_vars /\ WF_vars(Next)
        /\ \A w \in Writers : WF_vars(WritePipe(w)) /\ WF_vars(StartSend(w)) /\ WF_vars(SendSome(w))
        /\ WF_vars(ReadSome) /\ WF_vars(Decode)

\* ---- properties
AllFrames == UNION {{Queue[w][i] : i \in 1..Len(Queue[w])} : w \in Writers}
RECURSIVE Filter(_, _)
Filter(s, S) == IF s = <<>> THEN <<>> ELSE IF Head(s) \in S THEN <<Head(s)>> \o Filter(Tail(s), S) ELSE Filter(Tail(s), S)
FramesOf(w) == {Queue[w][i] : i \in 1..Len(Queue[w])}
IsPrefix(s, t) == Len(s) <= Len(t) /\ \A i \in 1..Len(s) : s[i] = t[i]

\* every decoded message is exactly a message that was sent (type, id, payload), each writer's messages
\* arrive in its own order, nothing twice: decoded is a prefix of a frame-granular interleaving
FramesIntact ==
  /\ \A i \in 1..Len(decoded) : decoded[i] \in AllFrames
  /\ \A w \in Writers : IsPrefix(Filter(decoded, FramesOf(w)), Queue[w])
NoGarbage == rstate # "garbage"
AllArrive == ~MayCut => <>(\A w \in Writers : IsPrefix(Queue[w], Filter(decoded, FramesOf(w))))
=============================================================================
