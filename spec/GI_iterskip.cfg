SPECIFICATION Spec
CONSTANT Calls <- KX
CONSTANT Failing <- NoFail
CONSTANT GiveBackOnFailure = FALSE
CONSTANT Fix_SnapshotLookup = FALSE
CONSTANT Fix_RegisterAtomic = TRUE
CONSTANT Fix_ExplicitCheck = TRUE
INVARIANT NoSharedId
INVARIANT AutoIdsUnique
INVARIANT RefusedUpFront
CHECK_DEADLOCK FALSE
