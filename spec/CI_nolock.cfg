SPECIFICATION Spec
CONSTANT Threads <- T2
CONSTANT PerThread = 1
CONSTANT Fix_AllocUnderLock = FALSE
INVARIANT IdsDistinct
INVARIANT Parity
INVARIANT TransferredKeepsIdentity
CHECK_DEADLOCK FALSE
