------------------------------ MODULE Termination ------------------------------
(* Process termination, both halves, against one environment automaton and a discrete clock.

   Worker half (C11): the receiver thread sees EOF (or GATEWAY_TERMINATE), runs the epilogue and
   WorkerGateway._terminate_execution: trigger_shutdown; waitall(5 s); SIGINT to itself;
   waitall(10 s); os._exit(1).  The process also ends when serve() returns and no
   non-daemon thread is left.

   Initiator half (C05): Group.terminate(timeout): every member gets exit() (GATEWAY_TERMINATE
   + close_write), then safe_terminate runs one (join + wait, kill) pair per gateway in
   parallel: term gets `timeout`, then kill (SIGKILL), the caller waits at most 2*timeout.

   Environment (what the remote body does): "idle" | "receive" (blocked in channel.receive)
   | "busy" | "sleep" | "swallow" (catches KeyboardInterrupt / ignores SIGINT and continues)
   | "stopped" (SIGSTOP: nothing runs, only SIGKILL ends it) | "dead" already.

   Fix_HardExit = FALSE models sys.exit() instead of os._exit() at the last rung (a seeded mutant).
   KillOnTimeout = FALSE models a terminate() that never kills.

   Env "cbraises": the remote code registered a channel callback that raises when it is handed its endmarker; the end of the
   connection delivers that endmarker from the receiver thread.  Fix_GuardEndmarkerCallbacks = FALSE models a receiver thread in
   which that exception escapes before _terminate_execution() is reached: the ladder never starts.

   WithUnkillable = TRUE adds members the initiator has no process handle for (a socket gateway to a server that was started by
   hand: SocketIO.kill() is a no-op, nothing was started locally): terminate() cannot end them, but it must not wait for them
   beyond its bound either.  Fix_BoundFinalWait = FALSE models a safe_terminate whose last wait for its helper threads is
   unbounded once every kill function has returned ("a completed kill makes the term function return").
*)
EXTENDS Integers, FiniteSets, TLC

CONSTANTS Fix_HardExit, KillOnTimeout, WithUnkillable, Fix_BoundFinalWait, Fix_GuardEndmarkerCallbacks,
          WithLinger     \* TRUE adds the environment "linger": the remote code has returned but left a non-daemon thread or a blocking
                         \* exit hook behind - serve() returns, the interpreter does not exit (the recorded C11 finding)

VARIABLES Killable,    \* FALSE: no local process behind this member (chosen initially)
          Env,         \* the body's behaviour (chosen initially)
          Timeout,     \* terminate(timeout) in ticks (1..3)
          InitiatorActs, \* "dies" (C11: the initiator just disappears) | "terminate" (C05)
          clock,       \* ticks since the connection was closed / terminate() was called
          wphase,      \* worker: "serving" | "wait5" | "wait10" | "exiting" | "gone"
          body,        \* "running" | "ended"
          tstart,      \* clock value when the current wait of the ladder started
          iphase,      \* initiator (terminate): "idle" | "joining" | "killed" | "returned"
          rung         \* which rung ended the worker: "none" | "eof" | "sigint" | "hardexit" | "sigkill"

vars == <<clock, wphase, body, tstart, iphase, rung>>

Init == /\ Env \in {"idle", "receive", "busy", "sleep", "swallow", "stopped", "dead", "cbraises"} \cup (IF WithLinger THEN {"linger"} ELSE {})
        /\ Killable \in (IF WithUnkillable THEN BOOLEAN ELSE {TRUE})
        /\ Timeout \in 1..3 /\ InitiatorActs \in {"dies", "terminate"}
        /\ clock = 0 /\ wphase = (IF Env = "dead" THEN "gone" ELSE "serving")
        /\ body = (IF Env \in {"idle", "dead", "linger"} THEN "ended" ELSE "running")      \* ("cbraises": the body waits in receive())
        /\ tstart = 0 /\ iphase = (IF InitiatorActs = "terminate" THEN "joining" ELSE "idle") /\ rung = "none"

Stopped == Env = "stopped"
\* EOF / GATEWAY_TERMINATE reaches the worker's receiver thread: epilogue, pool shutdown, a body blocked in receive() gets EOFError
WSeeEof ==
  /\ wphase = "serving" /\ ~Stopped
  /\ (Env = "cbraises" => Fix_GuardEndmarkerCallbacks)      \* otherwise the receiver thread has died on the callback's exception
  /\ body' = IF Env \in {"receive", "cbraises"} THEN "ended" ELSE body
  /\ wphase' = "wait5" /\ tstart' = clock
  /\ UNCHANGED <<clock, iphase, rung>>
\* waitall(5.0) returns true: nothing is executing any more -> serve() returns, the process exits
WDone5 ==
  /\ wphase = "wait5" /\ body = "ended"
  /\ IF Env = "linger" THEN wphase' = "exiting" /\ UNCHANGED rung       \* serve() returns; the interpreter waits for the thread / runs the hook
     ELSE wphase' = "gone" /\ rung' = "eof"
  /\ UNCHANGED <<clock, body, tstart, iphase>>
\* ... times out: SIGINT to ourselves; busy / sleeping bodies get KeyboardInterrupt
WSigint ==
  /\ wphase = "wait5" /\ body = "running" /\ clock >= tstart + 5
  /\ body' = IF Env \in {"busy", "sleep"} THEN "ended" ELSE body
  /\ wphase' = "wait10" /\ tstart' = clock /\ UNCHANGED <<clock, iphase, rung>>
WDone10 ==
  /\ wphase = "wait10" /\ body = "ended"
  /\ wphase' = "gone" /\ rung' = "sigint" /\ UNCHANGED <<clock, body, tstart, iphase>>
WHardExit ==
  /\ wphase = "wait10" /\ body = "running" /\ clock >= tstart + 10
  /\ IF Fix_HardExit THEN wphase' = "gone" /\ rung' = "hardexit"
     ELSE wphase' = "exiting" /\ UNCHANGED rung          \* sys.exit() only ends the receiver thread
  /\ UNCHANGED <<clock, body, tstart, iphase>>

\* initiator: safe_terminate's term function (join + wait) returns once the worker is gone
IJoined ==
  /\ iphase = "joining" /\ wphase = "gone"
  /\ iphase' = "returned" /\ UNCHANGED <<clock, wphase, body, tstart, rung>>
IKill ==       \* term did not finish within `timeout`: kill
  /\ iphase = "joining" /\ wphase # "gone" /\ clock >= Timeout
  /\ IF KillOnTimeout /\ Killable THEN wphase' = "gone" /\ rung' = "sigkill" ELSE UNCHANGED <<wphase, rung>>
  /\ iphase' = "killed" /\ UNCHANGED <<clock, body, tstart>>
IReturn ==     \* the bounded wait of safe_terminate (2 * timeout) is over, or the pair finished
  /\ iphase = "killed" /\ (wphase = "gone" \/ (Fix_BoundFinalWait /\ clock >= 2 * Timeout))
  /\ iphase' = "returned" /\ UNCHANGED <<clock, wphase, body, tstart, rung>>

\* time passes only when nothing else can happen now (time-outs are long compared with computation)
CanAct == ENABLED (WSeeEof \/ WDone5 \/ WSigint \/ WDone10 \/ WHardExit \/ IJoined \/ IKill \/ IReturn)
Tick == /\ ~CanAct /\ clock < 40 /\ clock' = clock + 1 /\ UNCHANGED <<wphase, body, tstart, iphase, rung>>

Next == /\ UNCHANGED <<Killable, Env, Timeout, InitiatorActs>>
        /\ \/ WSeeEof \/ WDone5 \/ WSigint \/ WDone10 \/ WHardExit \/ IJoined \/ IKill \/ IReturn \/ Tick
Spec == Init /\ [][Next]_<<vars, Killable, Env, Timeout, InitiatorActs>> /\ WF_<<vars, Killable, Env, Timeout, InitiatorActs>>(Next)

\* ------------------------------------------------------------- properties
\* C11: whatever the body does (except being SIGSTOPped, which only the initiator's SIGKILL can end), the worker
\* is gone at most 15 ticks after the connection closed
WorkerGoneInTime == (InitiatorActs = "dies" /\ ~Stopped) => (clock > 15 => wphase = "gone")
WorkerEventuallyGone == (InitiatorActs = "dies" /\ ~Stopped) => <>(wphase = "gone")
ExpectedRung ==
  (InitiatorActs = "dies" /\ wphase = "gone" /\ Env # "dead") =>
     rung = (CASE Env \in {"idle", "receive", "cbraises"} -> "eof" [] Env \in {"busy", "sleep"} -> "sigint" [] OTHER -> "hardexit")
\* C05: terminate returns within 2 * timeout (+1 tick), and then the child is gone
TerminateReturns == InitiatorActs = "terminate" => <>(iphase = "returned")
TerminatePrompt == (InitiatorActs = "terminate" /\ iphase # "returned") => clock <= 2 * Timeout + 1
\* (only processes that were started locally for a member are the initiator's to end)
NoChildLeft == (InitiatorActs = "terminate" /\ iphase = "returned" /\ Killable) => wphase = "gone"
=============================================================================
