------------------------------ MODULE MCProxyCtl ------------------------------
EXTENDS ProxyCtl
\* Group.terminate: the join/wait thread and the kill thread
Term == [a |-> <<"close_write", "wait">>, b |-> <<"kill">>]
=============================================================================
