SPECIFICATION Spec
CONSTANT MaxLen = 4
CONSTANT UseTokens = FALSE
INVARIANT Typed
INVARIANT ValueSupported
INVARIANT NoChannelWithoutFactory
INVARIANT CanonicalWhenEncodable
PROPERTY Progress
PROPERTY Terminates
CHECK_DEADLOCK FALSE
