SPECIFICATION Spec
CONSTANT MaxLen = 4
CONSTANT MaxItems = 3
CONSTANT MaxOps = 3
INVARIANT AlgorithmIsAFile
CHECK_DEADLOCK FALSE
