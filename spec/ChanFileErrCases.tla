-------------------------- MODULE ChanFileErrCases --------------------------
(* C07 through a channel file: the remote code sends some text items and then fails; the initiator reads the channel through
   makefile("r") in pieces and finally calls waitclose() and receive() on the channel.
   case: [sent (seq of code points), outcomes (seq of <<"data", code points>> | <<"RemoteError">> | <<"EOFError">> | <<"ok">> | <<other>>)]
   The failure surfaces as RemoteError exactly once among all these calls, and what was read before is a prefix of what was sent. *)
EXTENDS Integers, Sequences, FiniteSets, TLC, Json, IOUtils
Cases == JsonDeserialize(IOEnv.CASES)
RECURSIVE Cat(_, _)
Cat(outs, i) == IF i > Len(outs) THEN <<>> ELSE (IF outs[i][1] = "data" THEN outs[i][2] ELSE <<>>) \o Cat(outs, i + 1)
IsPrefix(s, t) == Len(s) <= Len(t) /\ \A i \in 1..Len(s) : s[i] = t[i]
Verdict(c) ==
  LET n == Cardinality({i \in 1..Len(c.outcomes) : c.outcomes[i][1] = "RemoteError"}) IN
  IF ~IsPrefix(Cat(c.outcomes, 1), c.sent) THEN "C07.channel-file-returned-data-that-was-not-sent"
  \* (the calls end with read(50), readline(), read(50), read(50): whatever was sent before the failure has come out by then, also
  \*  the pieces a read() had already collected when the failure reached it)
  ELSE IF Cat(c.outcomes, 1) # c.sent THEN "C07.items-sent-before-the-failure-never-came-out-of-the-channel-file"
  ELSE IF n = 0 THEN "C07.remote-failure-never-surfaced-through-the-channel-file-or-its-channel"
  ELSE IF n > 1 THEN "C07.remote-failure-surfaced-more-than-once"
  ELSE "ok"
ASSUME PrintT(<<"verdicts", [i \in 1..Len(Cases) |-> Verdict(Cases[i])]>>)
VARIABLE x
Init == x = 0
Next == UNCHANGED x
=============================================================================
