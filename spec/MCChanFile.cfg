SPECIFICATION Spec
CONSTANT MaxLen = 3
CONSTANT MaxItems = 3
CONSTANT MaxOps = 2
INVARIANT AlgorithmIsAFile
CHECK_DEADLOCK FALSE
