------------------------------- MODULE ProxyCtl -------------------------------
(* The control plane of a proxied gateway (via=) and what it shares with the data plane.

   On the forwarder (serve_proxy_io) ONE receiver thread dispatches everything that arrives from the master, in arrival order:
   data items of the io channel (callback forward_to_sub -> sub_io.write) and control requests of the control channel
   (callback control -> RIO_WAIT / RIO_KILL / RIO_CLOSE_WRITE).  The master's requests come from several threads:
   Group.terminate runs  exit (close_write), join, io.wait()  in one thread and, after the time-out,  io.kill()  in another.

   Fix_WaitOffReceiver = FALSE is the pinned tree: RIO_WAIT calls sub_io.wait() inside the callback, i.e. in the receiver
   thread; while the sub process does not exit nothing else is dispatched - a later RIO_KILL never gets through.
   TRUE: the wait is done by a helper thread, which answers when the process is gone. *)
EXTENDS Integers, Sequences, FiniteSets, TLC

CONSTANTS Requesters,          \* [thread name -> sequence of requests ("close_write" | "wait" | "kill")], each waits for its answer
          DataItems,           \* data items the master writes meanwhile
          SubHangs,            \* TRUE: the sub process never exits by itself (hangs in its teardown, is stopped, ...)
          Fix_WaitOffReceiver

VARIABLES rpc, answered, inq, busy, helpers, sub, dsent, delivered, dropped
vars == <<rpc, answered, inq, busy, helpers, sub, dsent, delivered, dropped>>
R == DOMAIN Requesters
Gone == sub \in {"exited", "killed"}

Init == /\ rpc = [w \in R |-> 1] /\ answered = [w \in R |-> 0] /\ inq = <<>> /\ busy = "idle" /\ helpers = {}
        /\ sub = "running" /\ dsent = 0 /\ delivered = 0 /\ dropped = 0

SendData == /\ dsent < DataItems /\ inq' = Append(inq, <<"data", "m">>) /\ dsent' = dsent + 1
            /\ UNCHANGED <<rpc, answered, busy, helpers, sub, delivered, dropped>>
Request(w) == /\ rpc[w] <= Len(Requesters[w]) /\ answered[w] = rpc[w] - 1
              /\ inq' = Append(inq, <<Requesters[w][rpc[w]], w>>) /\ rpc' = [rpc EXCEPT ![w] = @ + 1]
              /\ UNCHANGED <<answered, busy, helpers, sub, dsent, delivered, dropped>>
\* the forwarder's receiver thread dispatches the next arrival
Recv ==
  /\ busy = "idle" /\ inq # <<>>
  /\ LET k == Head(inq)[1]  w == Head(inq)[2] IN
     CASE k = "data" -> /\ (IF Gone THEN dropped' = dropped + 1 /\ UNCHANGED delivered ELSE delivered' = delivered + 1 /\ UNCHANGED dropped)
                        /\ UNCHANGED <<answered, busy, helpers, sub>>
       [] k = "kill" -> /\ sub' = (IF sub = "exited" THEN sub ELSE "killed") /\ answered' = [answered EXCEPT ![w] = @ + 1]
                        /\ UNCHANGED <<busy, helpers, delivered, dropped>>
       [] k = "close_write" -> /\ sub' = (IF sub = "running" THEN "stdin_closed" ELSE sub) /\ answered' = [answered EXCEPT ![w] = @ + 1]
                               /\ UNCHANGED <<busy, helpers, delivered, dropped>>
       [] k = "wait" -> (IF Gone THEN answered' = [answered EXCEPT ![w] = @ + 1] /\ UNCHANGED <<busy, helpers, sub, delivered, dropped>>
                         ELSE IF Fix_WaitOffReceiver THEN helpers' = helpers \cup {w} /\ UNCHANGED <<answered, busy, sub, delivered, dropped>>
                         ELSE busy' = w /\ UNCHANGED <<answered, helpers, sub, delivered, dropped>>)
  /\ inq' = Tail(inq) /\ UNCHANGED <<rpc, dsent>>
WaitDone == /\ busy # "idle" /\ Gone /\ answered' = [answered EXCEPT ![busy] = @ + 1] /\ busy' = "idle"
            /\ UNCHANGED <<rpc, inq, helpers, sub, dsent, delivered, dropped>>
HelperDone(w) == /\ w \in helpers /\ Gone /\ answered' = [answered EXCEPT ![w] = @ + 1] /\ helpers' = helpers \ {w}
                 /\ UNCHANGED <<rpc, inq, busy, sub, dsent, delivered, dropped>>
SubExit == /\ ~SubHangs /\ sub = "stdin_closed" /\ sub' = "exited"
           /\ UNCHANGED <<rpc, answered, inq, busy, helpers, dsent, delivered, dropped>>

Next == SendData \/ Recv \/ WaitDone \/ SubExit \/ (\E w \in R : Request(w) \/ HelperDone(w))
Spec == Init /\ [][Next]_vars /\ WF_vars(SendData) /\ WF_vars(Recv) /\ WF_vars(WaitDone) /\ WF_vars(SubExit)
             /\ \A w \in R : WF_vars(Request(w)) /\ WF_vars(HelperDone(w))

Asked(k) == \E w \in R : \E i \in 1..Len(Requesters[w]) : Requesters[w][i] = k
\* C05 / C16: a kill request reaches the process whatever else is going on
KillReaches == Asked("kill") => <>Gone
\* then every request is answered, and the data plane keeps moving
AllAnswered == Asked("kill") => <>(\A w \in R : answered[w] = Len(Requesters[w]))
DataKeepsMoving == <>(delivered + dropped = DataItems)
=============================================================================
