SPECIFICATION Spec
CONSTANTS
  K = 3
  Fix_CloseFromSendonly = TRUE
INVARIANT NoLeak
INVARIANT EndAtMostOnce
INVARIANT EndDelivered
INVARIANT NothingAfterEnd
INVARIANT NothingBehindEndmarker
CHECK_DEADLOCK FALSE
