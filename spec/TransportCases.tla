---------------------------- MODULE TransportCases ----------------------------
(* M5 for C15 / C16: transcripts of the same channel programs on different transports / bootstrap paths.
   case "transcript": [base (transcript on plain popen, thread), other, transport, execmodel, isolated (BOOLEAN), err]
   case "control":    [alive_before, gone_after_kill_ms, wait_returned, gone_after_wait_then_kill_ms, pending_wait_returned, lingering_before_kill, gone_after_exit_then_kill_ms, isolated, err]
   A transcript is a sequence of entries (sequences of strings / ints / booleans / sequences), compared by equality:
   "observationally equivalent" means the transcripts are identical.
*)
EXTENDS Integers, Sequences, TLC, Json, IOUtils
Cases == JsonDeserialize(IOEnv.CASES)
Pfx(c) == IF c.isolated THEN "C15." ELSE "C16."
FirstDiff(a, b) == CHOOSE i \in 1..(Len(a) + 1) : (i > Len(a) \/ i > Len(b) \/ a[i] # b[i]) /\ \A j \in 1..(i - 1) : a[j] = b[j]
TVerdict(c) ==
  IF c.err # "" THEN Pfx(c) \o "worker-did-not-come-up-or-program-failed-" \o c.err
  ELSE IF c.other = c.base THEN "ok"
  ELSE IF Len(c.other) # Len(c.base) THEN Pfx(c) \o "transcript-length-differs"
  ELSE IF c.transport = "socket" /\ c.execmodel # "thread" /\ c.base[FirstDiff(c.base, c.other)][1] = "status"
          /\ \A i \in 1..Len(c.base) : (i # FirstDiff(c.base, c.other) => c.base[i] = c.other[i])
       THEN "C16.socket-worker-ignores-the-requested-execmodel"
  ELSE Pfx(c) \o "transcript-differs-at-" \o c.base[FirstDiff(c.base, c.other)][1]
CVerdict(c) ==
  IF c.err # "" THEN Pfx(c) \o "control-request-failed-" \o c.err
  ELSE IF ~c.alive_before THEN "HARNESS.sub-not-alive"
  ELSE IF c.gone_after_kill_ms = -1 THEN Pfx(c) \o "kill-request-did-not-reach-the-proxied-process"
  ELSE IF ~c.wait_returned THEN Pfx(c) \o "wait-request-did-not-return-the-exit-status"
  ELSE IF c.gone_after_wait_then_kill_ms = -1 THEN Pfx(c) \o "kill-request-behind-a-pending-wait-request-did-not-reach-the-proxied-process"
  ELSE IF ~c.pending_wait_returned THEN Pfx(c) \o "pending-wait-request-not-answered-after-the-kill"
  ELSE IF c.lingering_before_kill /\ c.gone_after_exit_then_kill_ms = -1 THEN Pfx(c) \o "kill-request-after-the-connection-closed-did-not-reach-the-lingering-process"
  ELSE "ok"
Verdict(c) == IF c.k = "transcript" THEN TVerdict(c) ELSE CVerdict(c)
ASSUME PrintT(<<"verdicts", [i \in 1..Len(Cases) |-> Verdict(Cases[i])]>>)
VARIABLE x
Init == x = 0
Next == UNCHANGED x
=============================================================================
