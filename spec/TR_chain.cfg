SPECIFICATION Spec
CONSTANT Gws <- G3
CONSTANT Via <- V3
CONSTANT Fix_TolerateGoneMaster = TRUE
CONSTANT Fix_JoinWhenEmpty = TRUE
CONSTANT Fix_ProtectPending = TRUE
INVARIANT NeverThroughAClosedMaster
INVARIANT SkippedOnlyWhenTheUserExitedTheMaster
PROPERTY Terminates
CHECK_DEADLOCK FALSE
