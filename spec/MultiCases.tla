------------------------------ MODULE MultiCases ------------------------------
(* Group.remote_exec + MultiChannel on real gateways g0 .. g(n-1): every member echoes (its own id, 2 * item).
   case: [n, err, len, members_match, each, pairs_ok, single, closed, send_each_closed, ids, waitclose, all_closed_at_raise, waitclose_again]
   C02: send_each reaches every member once, receive_each returns one answer per member from the right conversation, an item
        sent to one member is answered by that member only.
   C07: the failure of one member surfaces as a RemoteError from MultiChannel.waitclose(), and only once. *)
EXTENDS Integers, Sequences, FiniteSets, TLC, Json, IOUtils
Cases == JsonDeserialize(IOEnv.CASES)
WorkerIds(n) == {"g" \o ToString(i) \o "-worker" : i \in 0..(n - 1)}
Verdict(c) ==
  IF c.err # "" THEN "C02.multi.group-conversation-failed-" \o c.err
  ELSE IF c.len # c.n \/ ~c.members_match THEN "C02.multi.members-differ-from-the-group"
  ELSE IF Len(c.each) # c.n \/ {c.each[i][1] : i \in 1..Len(c.each)} # WorkerIds(c.n) \/ \E i \in 1..Len(c.each) : c.each[i][2] # 42
       THEN "C02.multi.send_each-receive_each-not-one-answer-per-member"
  ELSE IF ~c.pairs_ok THEN "C02.multi.receive_each-pairs-an-answer-with-the-wrong-channel"
  ELSE IF c.single # <<"g1-worker", 14>> THEN "C02.multi.item-for-one-member-answered-by-another"
  ELSE IF ~c.closed THEN "C03.multi.waitclose-returned-with-open-members"
  ELSE IF c.send_each_closed # "OSError" THEN "C03.multi.send_each-on-closed-members-not-refused"
  ELSE IF {c.ids[i] : i \in 1..Len(c.ids)} # WorkerIds(c.n) THEN "C02.multi.send_each-receive_each-not-one-answer-per-member"
  ELSE IF c.waitclose = "returned" THEN "C07.multi.failing-member-not-reported-by-waitclose"
  ELSE IF c.waitclose # "RemoteError:boom" THEN "C07.multi.waitclose-raised-something-else-than-the-members-RemoteError"
  ELSE IF ~c.all_closed_at_raise THEN "C07.multi.waitclose-raised-before-every-member-was-closed"
  ELSE IF c.waitclose_again # "returned" THEN "C07.multi.remote-error-reported-twice"
  ELSE "ok"
ASSUME PrintT(<<"verdicts", [i \in 1..Len(Cases) |-> Verdict(Cases[i])]>>)
VARIABLE x
Init == x = 0
Next == UNCHANGED x
=============================================================================
