---------------------------- MODULE RemoteExecCases ----------------------------
(* M5 for C06.
   "shape" case:  [shape, res ("sent" | exception name), frames_after (number of channels the remote ever saw growing: 0/1),
                  ran (BOOLEAN: the body ran remotely), kwargs_equal, name_ok, channel_bound]
   "trace" case:  [want_file (BOOLEAN: the traceback names the original file), want_line (BOOLEAN: ... and the raising line), once, closed_after]
   "stdio" case:  [ok (BOOLEAN: traffic after the flood is intact), alive]
   "close" case:  [refused (explicit close inside raised OSError), closed_at_end, open_before_end]
*)
EXTENDS RemoteExec, Json, IOUtils
Cases == JsonDeserialize(IOEnv.CASES)
ShapeVerdict(c) ==
  LET want == Decide(c.shape) IN
  IF want # "sent" THEN
     IF c.res # want THEN "C06.wrong-or-no-local-rejection-expected-" \o want \o "-got-" \o c.res
     ELSE IF c.ran THEN "C06.rejected-but-something-was-sent"
     ELSE "ok"
  ELSE IF c.res # "sent" THEN "C06.valid-source-rejected-" \o c.res
  ELSE IF ~c.ran THEN "C06.code-did-not-run"
  ELSE IF ~c.channel_bound THEN "C06.channel-not-bound"
  ELSE IF ~c.name_ok THEN "C06.__name__-is-not-__channelexec__"
  ELSE IF ~c.kwargs_equal THEN "C06.kwargs-not-equal-by-value"
  ELSE "ok"
Verdict(c) ==
  CASE c.k = "shape" -> ShapeVerdict(c)
    [] c.k = "trace" -> IF ~c.want_file THEN "C06.traceback-does-not-name-the-original-file"
                        ELSE IF ~c.want_line THEN "C06.traceback-does-not-name-the-raising-line"
                        ELSE IF ~c.once THEN "C06.error-not-raised-exactly-once" ELSE IF ~c.closed_after THEN "C06.channel-not-closed-after-error" ELSE "ok"
    [] c.k = "literal" -> IF c.ok THEN "ok"
                          ELSE IF c.form = "function" THEN "C06.function-source-altered-by-dedent"
                          ELSE "C06.module-source-altered-before-it-runs"
    [] c.k = "repeat" -> IF ~c.ok THEN "C06.an-execution-saw-state-of-an-earlier-execution-of-the-same-code" ELSE "ok"
    [] c.k = "stdio" -> IF ~c.alive THEN "C06.stdout-or-stderr-output-broke-the-connection"
                        ELSE IF ~c.ok THEN "C06.stdout-or-stderr-output-entered-the-protocol-stream" ELSE "ok"
    [] c.k = "close" -> IF ~c.refused THEN "C06.explicit-close-inside-remote_exec-not-refused"
                        ELSE IF ~c.open_before_end THEN "C06.channel-closed-before-the-code-finished"
                        ELSE IF ~c.closed_at_end THEN "C06.channel-not-closed-when-the-code-finished" ELSE "ok"
ASSUME PrintT(<<"verdicts", [i \in 1..Len(Cases) |-> Verdict(Cases[i])]>>)
ASSUME PrintT(<<"shapes", Shapes>>) \/ TRUE
=============================================================================
