------------------------------ MODULE SerEnum -------------------------------
(* M3: hand the bounded grammars of MCSerRound / MCSerFuzz to the replay harness. *)
EXTENDS Integers, Sequences, TLC, IOUtils
R == INSTANCE MCSerRound WITH Big <- (IOEnv.BIG = "1"), v <- 0, st <- 0
F == INSTANCE MCSerFuzz WITH MaxLen <- 0, UseTokens <- TRUE, inp0 <- 0, st <- 0
ASSUME PrintT(<<"values", IF IOEnv.WHAT = "values" THEN R!Values ELSE {}>>)
ASSUME PrintT(<<"tokens", F!Tokens>>)
VARIABLE x
Init == x = 0
Next == UNCHANGED x
=============================================================================
