--------------------------------- MODULE XSpec ---------------------------------
(* Execution specifications: key1=value1//key2=value2//...
   Strings are sequences of code points.  '/' = 47, '=' = 61, '_' = 95, "env:" = 101 110 118 58.
   A parsed spec is [attrs |-> seq of <<key, value>>, env |-> seq of <<name, value>>]; a bare key has value TRUE.
*)
EXTENDS Integers, Sequences, FiniteSets, TLC

Slash == 47  Eq == 61  Under == 95
EnvPrefix == <<101, 110, 118, 58>>
T == <<"true">>                      \* the value of a bare key
StartsWith(s, p) == Len(s) >= Len(p) /\ SubSeq(s, 1, Len(p)) = p

\* str.split("//"): leftmost non-overlapping occurrences
RECURSIVE SplitAcc(_, _, _)
SplitAcc(s, cur, acc) ==
  IF s = <<>> THEN Append(acc, cur)
  ELSE IF Len(s) >= 2 /\ s[1] = Slash /\ s[2] = Slash THEN SplitAcc(SubSeq(s, 3, Len(s)), <<>>, Append(acc, cur))
  ELSE SplitAcc(Tail(s), Append(cur, Head(s)), acc)
Split(s) == SplitAcc(s, <<>>, <<>>)

KV(piece) ==
  LET idx == {i \in 1..Len(piece) : piece[i] = Eq} IN
  IF idx = {} THEN <<piece, T>>
  ELSE LET i == CHOOSE j \in idx : \A k \in idx : j <= k IN <<SubSeq(piece, 1, i - 1), <<"str", SubSeq(piece, i + 1, Len(piece))>>>>

Failed(kind) == [err |-> kind, attrs |-> <<>>, env |-> <<>>]
\* the parser, piece by piece; result [err, attrs, env] (err = "" on success)
RECURSIVE ParseAcc(_, _, _, _)
ParseAcc(pieces, attrs, env, seenkeys) ==
  IF pieces = <<>> THEN [err |-> "", attrs |-> attrs, env |-> env]
  ELSE LET kv == KV(Head(pieces)) key == kv[1] IN
       IF key = <<>> THEN Failed("empty-key")
       ELSE IF key[1] = Under THEN Failed("underscore-key")
       ELSE IF key \in seenkeys THEN Failed("ValueError")
       ELSE IF StartsWith(key, EnvPrefix)
            THEN ParseAcc(Tail(pieces), attrs, Append(env, <<SubSeq(key, 5, Len(key)), kv[2]>>), seenkeys \cup {key})
            ELSE ParseAcc(Tail(pieces), Append(attrs, kv), env, seenkeys \cup {key})
Parse(s) == ParseAcc(Split(s), <<>>, <<>>, {})

\* ------------------------------------------------ the statement's reading
\* a specification made of pairs: keys non-empty, no '=', no "//", not starting with '_'; values no "//"
HasSlashSlash(s) == \E i \in 1..(Len(s) - 1) : s[i] = Slash /\ s[i + 1] = Slash
GoodKey(k) == k # <<>> /\ k[1] # Under /\ ~HasSlashSlash(k) /\ \A i \in 1..Len(k) : k[i] # Eq
GoodVal(v) == v = T \/ ~HasSlashSlash(v[2])
Piece(p) == IF p[2] = T THEN p[1] ELSE p[1] \o <<Eq>> \o p[2][2]
RECURSIVE Join(_)
Join(kvs) == IF Len(kvs) = 1 THEN Piece(kvs[1]) ELSE Piece(kvs[1]) \o <<Slash, Slash>> \o Join(Tail(kvs))
InDomain(kvs) == kvs # <<>> /\ \A i \in 1..Len(kvs) : GoodKey(kvs[i][1]) /\ GoodVal(kvs[i][2])
\* pieces that begin or end with '/' next to a separator make the text ambiguous for any parser
Unambiguous(kvs) == Split(Join(kvs)) = [i \in 1..Len(kvs) |-> Piece(kvs[i])]
UniqueKeys(kvs) == \A i, j \in 1..Len(kvs) : i # j => kvs[i][1] # kvs[j][1]
RECURSIVE Sel(_, _)
Sel(kvs, wantenv) ==
  IF kvs = <<>> THEN <<>>
  ELSE LET isenv == StartsWith(Head(kvs)[1], EnvPrefix)
           item == IF isenv THEN <<SubSeq(Head(kvs)[1], 5, Len(Head(kvs)[1])), Head(kvs)[2]>> ELSE Head(kvs)
       IN (IF isenv = wantenv THEN <<item>> ELSE <<>>) \o Sel(Tail(kvs), wantenv)
Expected(kvs) == IF UniqueKeys(kvs) THEN [err |-> "", attrs |-> Sel(kvs, FALSE), env |-> Sel(kvs, TRUE)] ELSE Failed("ValueError")
=============================================================================
