------------------------------ MODULE GatewayAbs ------------------------------
(* Property automaton for the channel protocol: C02 C03 C04 C07 C10 C18.
   Deterministic monitor over observable events of one gateway connection
   (both sides).  A recorded execution violates a property iff the monitor
   ends with bad # "" ; the clause name starts with the property id.

   Event: [ev, side, op, chan, tok, res, thread, flag]
     call / ret   public API call starts / ends (op, chan, tok, res)
     deq          an item left the channel's receive queue (linearisation point of receive)
     cb           a callback was invoked (tok = -1: endmarker; flag: it is going to raise)
     fout / fin   a frame was completely written by `side` / completely read at `side`
                  (op = message code: 4 DATA 5 CLOSE 6 CLOSE_ERROR 7 LAST_MESSAGE, ...)
     cut          the connection towards `side` was cut
     stuck / end / died
   Endpoints are <<side, chan>>; the peer endpoint is <<Other(side), chan>>.
*)
EXTENDS Integers, Sequences, FiniteSets, TLC

Other(s) == IF s = "i" THEN "w" ELSE "i"
Get(f, k, d) == IF k \in DOMAIN f THEN f[k] ELSE d
Put(f, k, v) == (k :> v) @@ f
Empty == [x \in {} |-> 0]
Range(s) == {s[i] : i \in 1..Len(s)}

Init0 ==
  [ sent |-> Empty, arrived |-> Empty, got |-> Empty, returned |-> Empty,
    closeOut |-> {}, closeIn |-> Empty, lclosing |-> {}, lclosed |-> {},
    eofSeen |-> {}, errSeen |-> Empty, observed |-> {}, asked |-> {},
    lastOut |-> {}, bodyEnded |-> {}, bodyErr |-> {}, downSeen |-> {}, pending |-> Empty, lateErr |-> {}, drainFail |-> {}, cbSet |-> {}, wantEnd |-> {}, endCount |-> Empty, cbFailed |-> {},
    cutSide |-> {}, exited |-> {}, joined |-> {}, ids |-> {}, table |-> Empty,
    ctx |-> Empty, bad |-> "" ]

Flag(st, why) == IF st.bad = "" THEN [st EXCEPT !.bad = why] ELSE st
SeqOf(f, k) == Get(f, k, <<>>)
Nat0(f, k) == Get(f, k, 0)

\* once the connection is cut or a side exits, both sides go down (the survivor closes its end)
DownFor(st, s) == st.cutSide # {} \/ st.exited # {}
Closing(st, E) == Get(st.closeIn, E, "") # "" \/ E \in st.lclosing \/ DownFor(st, E[1])

\* the next item that may leave the queue of E
DeliverOK(st, E, tok) ==
  LET a == SeqOf(st.arrived, E) n == Len(SeqOf(st.got, E)) IN n < Len(a) /\ a[n + 1] = tok

\* a callback channel whose object was dropped (CHANNEL_LAST_MESSAGE went out) and whose remote execution has ended, but
\* neither a close frame nor the endmarker ever came (known finding: the peer does not send CHANNEL_CLOSE in "sendonly" state)
DroppedNoClose(st) == {X \in st.lastOut \cap st.cbSet : X[2] \in st.bodyEnded /\ Get(st.closeIn, X, "") = "" /\ Nat0(st.endCount, X) = 0}

Step0(st, e) ==
  LET S == e.side
      E == <<e.side, e.chan>>
      P == <<Other(e.side), e.chan>>
      C == Get(st.ctx, e.thread, [lc |-> FALSE, ob |-> FALSE, cb |-> FALSE, jn |-> FALSE])
  IN
  CASE e.ev = "fout" ->
        IF e.op = "4" THEN
           LET s1 == [st EXCEPT !.sent = Put(@, E, Append(SeqOf(st.sent, E), e.tok))] IN
           IF E \in st.closeOut THEN Flag(s1, "C03.data-frame-after-own-close-frame") ELSE s1
        ELSE IF e.op \in {"5", "6"} THEN
           LET s1 == [st EXCEPT !.closeOut = @ \cup {E}] IN
           \* the remote code ended with an exception: whatever close frame goes out for its channel carries the error
           IF e.op = "5" /\ S = "w" /\ e.chan \in st.bodyErr THEN Flag(s1, "C07.remote-failure-sent-as-plain-close") ELSE s1
        ELSE IF e.op = "7" THEN [st EXCEPT !.lastOut = @ \cup {E}]
        ELSE IF e.op = "2" THEN [st EXCEPT !.exited = @ \cup {S}]
        ELSE st
    [] e.ev = "fin" ->
        IF e.op = "4" THEN
           LET a == SeqOf(st.arrived, E) s == SeqOf(st.sent, P)
               s1 == [st EXCEPT !.arrived = Put(@, E, Append(a, e.tok))] IN
           IF ~(Len(a) < Len(s) /\ s[Len(a) + 1] = e.tok) THEN Flag(s1, "C08.frame-corrupted-lost-or-reordered-on-the-wire")
           ELSE IF Get(st.closeIn, E, "") \in {"close", "error"} THEN Flag(s1, "C03.item-arrived-after-close")
           ELSE s1
        ELSE IF e.op = "5" THEN [st EXCEPT !.closeIn = Put(@, E, "close")]
        ELSE IF e.op = "6" THEN [st EXCEPT !.closeIn = Put(@, E, "error"),
                                           !.lateErr = IF Get(st.closeIn, E, "") = "last" THEN @ \cup {E} ELSE @]
        ELSE IF e.op = "7" THEN [st EXCEPT !.closeIn = Put(@, E, IF Get(st.closeIn, E, "") = "" THEN "last" ELSE Get(st.closeIn, E, ""))]
        ELSE st
    [] e.ev = "cut" -> [st EXCEPT !.cutSide = @ \cup {S}]
    [] e.ev = "down" -> [st EXCEPT !.downSeen = @ \cup {S}]
    [] e.ev = "body_end" -> [st EXCEPT !.bodyEnded = @ \cup {e.chan}, !.bodyErr = IF e.flag THEN @ \cup {e.chan} ELSE @]
    [] e.ev = "deq" ->
        IF e.tok = -1 THEN st
        ELSE LET s1 == [st EXCEPT !.got = Put(@, E, Append(SeqOf(st.got, E), e.tok))] IN
             IF ~DeliverOK(st, E, e.tok) THEN Flag(s1, "C02.item-duplicated-lost-reordered-or-leaked")
             ELSE IF E \in st.eofSeen THEN Flag(s1, "C03.item-dequeued-after-EOF")
             ELSE s1
    [] e.ev = "cb" ->
        IF e.tok = -1 THEN
           LET n == Nat0(st.endCount, E)
               s1 == [st EXCEPT !.endCount = Put(@, E, n + 1)] IN
           IF n >= 1 THEN Flag(s1, "C10.endmarker-delivered-twice")
           ELSE IF E \notin st.wantEnd /\ E \in st.cbSet THEN Flag(s1, "C10.endmarker-not-requested")
           ELSE IF SeqOf(st.got, E) # SeqOf(st.arrived, E) THEN Flag(s1, "C10.endmarker-before-last-item")
           ELSE IF ~Closing(st, E) THEN Flag(s1, "C10.endmarker-without-close")
           ELSE s1
        ELSE LET s1 == [st EXCEPT !.got = Put(@, E, Append(SeqOf(st.got, E), e.tok)),
                                   !.cbFailed = IF e.flag THEN @ \cup {E} ELSE @] IN
             IF E \in st.cbFailed /\ ~e.flag THEN Flag(s1, "C07.callback-invoked-again-after-it-had-raised")
             ELSE IF ~DeliverOK(st, E, e.tok) THEN Flag(s1, "C10.callback-item-duplicated-lost-or-reordered")
             ELSE IF Nat0(st.endCount, E) > 0 THEN Flag(s1, "C10.item-after-endmarker")
             ELSE s1
    [] e.ev = "call" ->
        LET s0 == [st EXCEPT !.ctx = Put(@, e.thread,
                      [lc |-> E \in st.lclosed, ob |-> E \in st.observed, cb |-> E \in st.cbSet, jn |-> S \in st.joined])] IN
        IF e.op = "close" THEN [s0 EXCEPT !.lclosing = @ \cup {E}]
        ELSE IF e.op \in {"receive", "waitclose"} THEN [s0 EXCEPT !.pending = Put(@, E, Nat0(st.pending, E) + 1)]
        ELSE s0
    [] e.ev = "ret" /\ e.op = "receive" ->
        IF e.res = "ok" THEN
           LET s1 == [st EXCEPT !.returned = Put(@, E, Get(st.returned, E, {}) \cup {e.tok})] IN
           IF C.cb THEN Flag(s1, "C10.receive-allowed-after-setcallback")
           ELSE IF e.tok \notin Range(SeqOf(st.got, E)) \/ e.tok \in Get(st.returned, E, {})
                THEN Flag(s1, "C02.receive-returned-unknown-or-duplicate-item")
           ELSE s1
        ELSE IF e.res = "EOF" THEN
           LET s1 == [st EXCEPT !.eofSeen = @ \cup {E}, !.asked = IF Get(st.closeIn, E, "") = "error" THEN @ \cup {E} ELSE @,
                                !.observed = IF Get(st.closeIn, E, "") \in {"close", "error"} THEN @ \cup {E} ELSE @] IN
           IF ~Closing(st, E) THEN Flag(s1, "C03.EOF-without-close")
           ELSE IF Get(st.closeIn, E, "") = "error" /\ Nat0(st.errSeen, E) = 0 /\ Nat0(st.pending, E) <= 1
                   /\ E \notin st.lclosing /\ E \notin st.lateErr
                THEN Flag(s1, "C07.EOFError-instead-of-RemoteError")
           ELSE IF (Get(st.closeIn, E, "") # "" \/ DownFor(st, S)) /\ E \notin st.lclosing
                   /\ SeqOf(st.got, E) # SeqOf(st.arrived, E) THEN Flag(s1, "C03.EOF-before-all-arrived-items-were-delivered")
           ELSE s1
        ELSE IF e.res \in {"RemoteError", "RemoteError:boom", "RemoteError:deadlock"} THEN
           LET n == Nat0(st.errSeen, E)
               s1 == [st EXCEPT !.errSeen = Put(@, E, n + 1), !.eofSeen = @ \cup {E}, !.observed = @ \cup {E}, !.asked = @ \cup {E}] IN
           IF n >= 1 THEN Flag(s1, "C07.remote-error-delivered-twice")
           ELSE IF Get(st.closeIn, E, "") # "error" THEN Flag(s1, "C07.remote-error-without-error-close")
           ELSE IF SeqOf(st.got, E) # SeqOf(st.arrived, E) THEN Flag(s1, "C07.remote-error-before-earlier-items")
           ELSE s1
        ELSE IF e.res = "OSError" THEN
           IF C.cb \/ E \in st.cbSet THEN st ELSE Flag(st, "C02.receive-refused-without-callback")
        ELSE IF e.res = "Timeout" THEN st
        ELSE Flag(st, "GEN.receive-raised-unexpected-exception")
    [] e.ev = "ret" /\ e.op = "send" ->
        IF e.res = "ok" THEN
           IF C.lc THEN Flag(st, "C03.send-succeeded-after-own-close")
           ELSE IF C.ob THEN Flag(st, "C03.send-succeeded-after-observed-close")
           ELSE IF C.jn THEN Flag(st, "C04.send-succeeded-after-connection-down")
           ELSE IF e.tok < 100000 /\ e.tok \notin Range(SeqOf(st.sent, E)) THEN Flag(st, "C02.send-returned-without-frame")
           ELSE st
        ELSE IF e.res = "OSError" THEN
           IF Closing(st, E) \/ DownFor(st, Other(S)) THEN st ELSE Flag(st, "C02.send-refused-on-open-channel")
        ELSE Flag(st, "GEN.send-raised-unexpected-exception")
    [] e.ev = "ret" /\ e.op = "close" ->
        IF e.res = "ok" THEN [st EXCEPT !.lclosed = @ \cup {E}]
        ELSE IF e.res = "OSError" THEN st
        ELSE Flag(st, "C03.close-raised-unexpected-exception")
    [] e.ev = "ret" /\ e.op = "waitclose" ->
        IF e.res = "ok" THEN
           LET s1 == [st EXCEPT !.asked = IF Get(st.closeIn, E, "") = "error" THEN @ \cup {E} ELSE @,
                        !.observed = IF Get(st.closeIn, E, "") \in {"close", "error"} THEN @ \cup {E} ELSE @] IN
           IF ~Closing(st, E) THEN Flag(s1, "C03.waitclose-returned-without-close")
           ELSE IF st.cutSide # {} /\ Get(st.closeIn, E, "") = "" /\ E \notin st.lclosing
                THEN Flag(s1, "C04.waitclose-returned-normally-after-connection-loss")
           ELSE s1
        ELSE IF e.res \in {"RemoteError", "RemoteError:boom", "RemoteError:deadlock"} THEN
           LET n == Nat0(st.errSeen, E)
               s1 == [st EXCEPT !.errSeen = Put(@, E, n + 1), !.observed = @ \cup {E}, !.asked = @ \cup {E}] IN
           IF n >= 1 THEN Flag(s1, "C07.remote-error-delivered-twice")
           ELSE IF Get(st.closeIn, E, "") # "error" /\ E \notin st.cbFailed THEN Flag(s1, "C07.remote-error-without-error-close")
           ELSE s1
        ELSE IF e.res = "EOF" THEN
           IF DownFor(st, S) THEN st ELSE Flag(st, "C04.waitclose-EOFError-without-connection-loss")
        ELSE IF e.res = "Timeout" THEN st
        ELSE Flag(st, "GEN.waitclose-raised-unexpected-exception")
    [] e.ev = "ret" /\ e.op = "isclosed" ->
        IF e.res = "false" /\ C.lc THEN Flag(st, "C03.isclosed-false-after-own-close")
        ELSE IF e.res = "false" /\ C.ob THEN Flag(st, "C03.isclosed-false-after-observed-close")
        ELSE st
    [] e.ev = "ret" /\ e.op = "setcallback" ->
        IF e.res = "ok" THEN [st EXCEPT !.cbSet = @ \cup {E}, !.wantEnd = IF e.flag THEN @ \cup {E} ELSE @]
        ELSE IF e.res = "OSError" THEN st
        ELSE IF e.res = "BoomPropagated" THEN [st EXCEPT !.drainFail = @ \cup {E}]
        ELSE Flag(st, "GEN.setcallback-raised-unexpected-exception")
    [] e.ev = "ret" /\ e.op \in {"newchannel", "remote_exec"} ->
        IF e.res = "ok" THEN
           LET s1 == [st EXCEPT !.ids = @ \cup {e.chan}] IN
           IF e.chan \in st.ids THEN Flag(s1, "C18.channel-id-handed-out-twice")
           ELSE IF (S = "i") # (e.chan % 2 = 1) THEN Flag(s1, "C18.channel-id-has-the-peers-parity")
           ELSE IF C.jn THEN Flag(s1, "C04.channel-created-after-connection-down")
           ELSE s1
        ELSE IF e.res = "OSError" THEN
           IF DownFor(st, S) \/ DownFor(st, Other(S)) THEN st ELSE Flag(st, "C18.channel-creation-refused-on-live-gateway")
        ELSE Flag(st, "GEN.channel-creation-raised-unexpected-exception")
    [] e.ev = "ret" /\ e.op = "join" -> [st EXCEPT !.joined = @ \cup {S}]
    [] e.ev = "ret" /\ e.op = "hasreceiver" ->
        IF e.res = "true" /\ C.jn THEN Flag(st, "C04.hasreceiver-true-after-connection-down") ELSE st
    [] e.ev = "ret" /\ e.op = "tablesize" ->
        IF S \in DOMAIN st.table THEN
           IF e.tok > st.table[S] THEN Flag(st, "C18.channel-table-grew") ELSE st
        ELSE [st EXCEPT !.table = Put(@, S, e.tok)]
    [] e.ev = "ret" -> st
    [] e.ev = "stuck" ->
        IF DroppedNoClose(st) # {} THEN Flag(st, "C10.dropped-callback-channel-never-closed-by-the-peer")
        ELSE IF st.drainFail # {} THEN Flag(st, "C07.callback-error-during-setcallback-drain-not-reported")
        ELSE IF st.cutSide # {} THEN Flag(st, "C04.blocked-forever-after-connection-loss")
        ELSE Flag(st, "GEN.blocked-forever")
    [] e.ev = "died" -> Flag(st, "GEN.thread-died")
    [] e.ev = "end" ->
        LET eps == DOMAIN st.arrived \cup st.cbSet \cup st.asked
            missedErr == {X \in eps : Get(st.closeIn, X, "") = "error" /\ X \in st.asked /\ Nat0(st.errSeen, X) = 0}
            missedEnd == {X \in st.wantEnd : (Get(st.closeIn, X, "") # "" \/ DownFor(st, X[1])) /\ Nat0(st.endCount, X) # 1}
            missedCb  == {X \in st.cbSet \ st.cbFailed : Get(st.closeIn, X, "") # "" /\ SeqOf(st.got, X) # SeqOf(st.arrived, X)}
        IN IF DroppedNoClose(st) # {} THEN Flag(st, "C10.dropped-callback-channel-never-closed-by-the-peer")
           ELSE IF "w" \in st.cutSide /\ "w" \notin st.downSeen THEN Flag(st, "C11.worker-did-not-wind-down-after-its-connection-ended")
           ELSE IF missedErr \ st.lateErr # {} THEN Flag(st, "C07.remote-error-swallowed")
           ELSE IF missedErr # {} THEN Flag(st, "C07.remote-error-swallowed-after-last-message")
           ELSE IF missedEnd # {} THEN Flag(st, "C10.endmarker-missing")
           ELSE IF missedCb # {} THEN Flag(st, "C10.callback-missed-items")
           ELSE st
    [] OTHER -> st

\* (the deadlock error of main_thread_only workers is legitimate only for overlapping remote_execs; the programs judged here
\*  issue them sequentially, so it means an earlier failure disturbed a later execution)
Step(st, e) ==
  LET s1 == IF e.ev = "ret" /\ e.res = "RemoteError:deadlock" THEN Flag(Step0(st, e), "C14.false-deadlock-error-after-an-earlier-execution")
            ELSE Step0(st, e)
      E == <<e.side, e.chan>> IN
  IF e.ev = "ret" /\ e.op \in {"receive", "waitclose"}
  THEN [s1 EXCEPT !.pending = Put(@, E, Nat0(st.pending, E) - 1)] ELSE s1

RECURSIVE Run(_, _, _)
Run(st, evs, i) == IF i > Len(evs) THEN st ELSE Run(Step(st, evs[i]), evs, i + 1)
Verdict(evs) == LET f == Run(Init0, evs, 1) IN IF f.bad = "" THEN "ok" ELSE f.bad
=============================================================================
