SPECIFICATION Spec
CONSTANT MaxPairs = 3
INVARIANT ParseIsFaithful
CHECK_DEADLOCK FALSE
