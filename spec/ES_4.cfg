SPECIFICATION Spec
CONSTANT N = 4
CONSTANT Fix_CompleteOnAllPaths = TRUE
CONSTANT ClearBeforeSpawn = TRUE
INVARIANT InOrder
INVARIANT NoFalseDeadlock
INVARIANT Undisturbed
PROPERTY AllAnswered
PROPERTY DeadlockOnlyWhenBusy
CHECK_DEADLOCK FALSE
