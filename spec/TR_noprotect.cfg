SPECIFICATION Spec
CONSTANT Gws <- G4
CONSTANT Via <- V4
CONSTANT Fix_TolerateGoneMaster = TRUE
CONSTANT Fix_JoinWhenEmpty = TRUE
CONSTANT Fix_ProtectPending = FALSE
INVARIANT NeverThroughAClosedMaster
INVARIANT SkippedOnlyWhenTheUserExitedTheMaster
PROPERTY Terminates
CHECK_DEADLOCK FALSE
