SPECIFICATION Spec
CONSTANT Big = TRUE
INVARIANT RoundTrip
INVARIANT NoDecodeErr
INVARIANT DumpErrIff
INVARIANT WellFormed
INVARIANT PrefixNeverLoads
PROPERTY Terminates
CHECK_DEADLOCK FALSE
