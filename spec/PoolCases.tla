------------------------------ MODULE PoolCases ------------------------------
(* M5 for C09: recorded executions of the real WorkerPool judged by PoolAbs. *)
EXTENDS PoolAbs, Json, IOUtils
Cases == JsonDeserialize(IOEnv.CASES)
ASSUME PrintT(<<"verdicts", [i \in 1..Len(Cases) |-> Verdict(Cases[i].events)]>>)
VARIABLE x
Init == x = 0
Next == UNCHANGED x
=============================================================================
