--------------------------------- MODULE Proxy ---------------------------------
(* A gateway proxied through another gateway (via=): ProxyIO on the master, serve_proxy_io on the forwarder, a sub process.

   master.write(frame)      = iochan.send(frame bytes)                 (one channel item per write)
   forwarder callback       : each item is written to the sub's stdin   (atomic per item)
   forwarder loop           : Message.from_io(sub stdout) -> to_io(channel file) = one item per complete frame
   master.read(n)           : ChannelFileRead over those items (buffer, receive until n bytes)
   control channel          : RIO_KILL / RIO_WAIT / RIO_CLOSE_WRITE requests, one response each

   Refinement claimed: in both directions the composition is a reliable FIFO byte stream (what Wire.tla assumes
   of a transport), and every control request reaches the sub process.
*)
EXTENDS Integers, Sequences, FiniteSets, TLC

CONSTANTS MasterFrames,   \* frames (byte sequences) the master writes, in order
          SubFrames,      \* frames the sub writes, in order
          Requests        \* control requests the master issues, in order

VARIABLES mi, m2f, f2s, subIn,        \* master -> sub direction
          si, s2f, f2m, mbuf, masterGot, want,   \* sub -> master direction
          ri, ctl, subState, responses

vars == <<mi, m2f, f2s, subIn, si, s2f, f2m, mbuf, masterGot, want, ri, ctl, subState, responses>>

RECURSIVE Concat(_)
Concat(fs) == IF fs = <<>> THEN <<>> ELSE Head(fs) \o Concat(Tail(fs))
IsPrefix(s, t) == Len(s) <= Len(t) /\ \A i \in 1..Len(s) : s[i] = t[i]

Init == /\ mi = 1 /\ m2f = <<>> /\ f2s = <<>> /\ subIn = <<>>
        /\ si = 1 /\ s2f = <<>> /\ f2m = <<>> /\ mbuf = <<>> /\ masterGot = <<>> /\ want = 0
        /\ ri = 1 /\ ctl = <<>> /\ subState = "running" /\ responses = <<>>

MasterWrite == /\ mi <= Len(MasterFrames) /\ m2f' = Append(m2f, MasterFrames[mi]) /\ mi' = mi + 1
               /\ UNCHANGED <<f2s, subIn, si, s2f, f2m, mbuf, masterGot, want, ri, ctl, subState, responses>>
FwdCallback == /\ m2f # <<>> /\ f2s' = f2s \o Head(m2f) /\ m2f' = Tail(m2f)      \* sub_io.write(data)
               /\ UNCHANGED <<mi, subIn, si, s2f, f2m, mbuf, masterGot, want, ri, ctl, subState, responses>>
SubRead == /\ f2s # <<>> /\ \E k \in 1..Len(f2s) : subIn' = subIn \o SubSeq(f2s, 1, k) /\ f2s' = SubSeq(f2s, k + 1, Len(f2s))
           /\ UNCHANGED <<mi, m2f, si, s2f, f2m, mbuf, masterGot, want, ri, ctl, subState, responses>>

SubWrite == /\ si <= Len(SubFrames) /\ subState = "running" /\ s2f' = Append(s2f, SubFrames[si]) /\ si' = si + 1
            /\ UNCHANGED <<mi, m2f, f2s, subIn, f2m, mbuf, masterGot, want, ri, ctl, subState, responses>>
FwdLoop == /\ s2f # <<>> /\ f2m' = Append(f2m, Head(s2f)) /\ s2f' = Tail(s2f)     \* from_io(sub) ; to_io(channel file)
           /\ UNCHANGED <<mi, m2f, f2s, subIn, si, mbuf, masterGot, want, ri, ctl, subState, responses>>
\* master.read(n) for some n: receive items until the buffer holds n bytes, then slice
MasterAsk == /\ want = 0 /\ \E n \in 1..3 : want' = n
             /\ UNCHANGED <<mi, m2f, f2s, subIn, si, s2f, f2m, mbuf, masterGot, ri, ctl, subState, responses>>
MasterFill == /\ want > 0 /\ Len(mbuf) < want /\ f2m # <<>> /\ mbuf' = mbuf \o Head(f2m) /\ f2m' = Tail(f2m)
              /\ UNCHANGED <<mi, m2f, f2s, subIn, si, s2f, masterGot, want, ri, ctl, subState, responses>>
MasterTake == /\ want > 0 /\ Len(mbuf) >= want
              /\ masterGot' = masterGot \o SubSeq(mbuf, 1, want) /\ mbuf' = SubSeq(mbuf, want + 1, Len(mbuf)) /\ want' = 0
              /\ UNCHANGED <<mi, m2f, f2s, subIn, si, s2f, f2m, ri, ctl, subState, responses>>

Request == /\ ri <= Len(Requests) /\ Len(responses) = ri - 1      \* _controll(): send, then wait for the answer
           /\ ctl' = Append(ctl, Requests[ri]) /\ ri' = ri + 1
           /\ UNCHANGED <<mi, m2f, f2s, subIn, si, s2f, f2m, mbuf, masterGot, want, subState, responses>>
Control == /\ ctl # <<>>
           /\ subState' = (CASE Head(ctl) = "kill" -> "killed" [] Head(ctl) = "close_write" -> (IF subState = "running" THEN "stdin_closed" ELSE subState)
                             [] OTHER -> subState)
           /\ responses' = Append(responses, Head(ctl)) /\ ctl' = Tail(ctl)
           /\ UNCHANGED <<mi, m2f, f2s, subIn, si, s2f, f2m, mbuf, masterGot, want, ri>>

Next == MasterWrite \/ FwdCallback \/ SubRead \/ SubWrite \/ FwdLoop \/ MasterAsk \/ MasterFill \/ MasterTake \/ Request \/ Control
Spec == Init /\ [][Next]_vars /\ WF_vars(MasterWrite) /\ WF_vars(FwdCallback) /\ WF_vars(SubRead) /\ WF_vars(SubWrite)
             /\ WF_vars(FwdLoop) /\ WF_vars(MasterFill) /\ WF_vars(MasterTake) /\ WF_vars(MasterAsk) /\ WF_vars(Request) /\ WF_vars(Control)

\* the proxy is a FIFO byte stream in both directions
DownstreamFifo == IsPrefix(subIn, Concat(MasterFrames))
UpstreamFifo == IsPrefix(masterGot \o mbuf, Concat(SubFrames))
ControlInOrder == IsPrefix(responses, Requests)
DownstreamDelivers == <>(subIn = Concat(MasterFrames))
ControlReaches == <>(responses = Requests)
KillReaches == ("kill" \in {Requests[i] : i \in 1..Len(Requests)}) => <>(subState = "killed")
=============================================================================
