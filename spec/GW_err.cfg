SPECIFICATION Spec
CONSTANT K = 2
CONSTANT Receivers = {"r1", "r2"}
CONSTANT WithError = TRUE
CONSTANT WithCallback = FALSE
CONSTANT WithLocalClose = FALSE
CONSTANT EndCallbackRaises = FALSE
CONSTANT Fix_GuardEndmarkerCallback = TRUE
CONSTANT Fix_CloseFlagFirst = TRUE
INVARIANT OrderedDelivery
INVARIANT CallbackOrdered
INVARIANT EofMeansComplete
INVARIANT ObserverSeesClosed
INVARIANT ErrorOnce
INVARIANT EndmarkerOnce
INVARIANT ReceiverThreadSurvives
PROPERTY WaitcloseReturns
CHECK_DEADLOCK FALSE
PROPERTY ReceiversFinish
PROPERTY ErrorDelivered
