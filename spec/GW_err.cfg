SPECIFICATION Spec
CONSTANT K = 2
CONSTANT Receivers = {"r1", "r2"}
CONSTANT WithError = TRUE
CONSTANT WithCallback = FALSE
CONSTANT WithLocalClose = FALSE
CONSTANT Fix_CloseFlagFirst = TRUE
INVARIANT OrderedDelivery
INVARIANT CallbackOrdered
INVARIANT EofMeansComplete
INVARIANT ObserverSeesClosed
INVARIANT ErrorOnce
INVARIANT EndmarkerOnce
PROPERTY WaitcloseReturns
CHECK_DEADLOCK FALSE
PROPERTY ReceiversFinish
PROPERTY ErrorDelivered
