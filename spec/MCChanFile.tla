------------------------------ MODULE MCChanFile ------------------------------
(* M1 for C19: the buffer algorithm equals the reference file for every split of every
   short string into items (empty items included) and every short sequence of calls. *)
EXTENDS ChanFile
CONSTANTS MaxLen, MaxItems, MaxOps
VARIABLES items, ops, phase
Alpha == {97, 98, NL}
RECURSIVE Strs(_)
Strs(n) == IF n = 0 THEN {<<>>} ELSE LET S == Strs(n - 1) IN S \cup {Append(s, c) : s \in {t \in S : Len(t) = n - 1}, c \in Alpha}
RECURSIVE Splits(_, _)
\* all ways to cut s into exactly k (possibly empty) pieces
Splits(s, k) == IF k = 1 THEN {<<s>>}
                ELSE UNION {{<<SubSeq(s, 1, i)>> \o rest : rest \in Splits(SubSeq(s, i + 1, Len(s)), k - 1)} : i \in 0..Len(s)}
OpSet == {<<"read", n>> : n \in 0..3} \cup {<<"readline">>}
RECURSIVE OpSeqs(_)
OpSeqs(n) == IF n = 0 THEN {<<>>} ELSE LET S == OpSeqs(n - 1) IN S \cup {Append(s, o) : s \in {t \in S : Len(t) = n - 1}, o \in OpSet}

Init == /\ items \in UNION {UNION {Splits(s, k) : k \in 1..MaxItems} : s \in Strs(MaxLen)} \cup {<<>>}
        /\ ops \in {o \in OpSeqs(MaxOps) : Len(o) = MaxOps}
        /\ phase = 0
Next == phase = 0 /\ phase' = 1 /\ UNCHANGED <<items, ops>>
Spec == Init /\ [][Next]_<<items, ops, phase>>
AlgorithmIsAFile == phase = 1 => Impl(items, ops \o <<<<"read", 2>>, <<"readline">>>>) = Ref(items, ops \o <<<<"read", 2>>, <<"readline">>>>)
\* mutant: the local-accumulation design of read() is not a file (checked on read-only call sequences; TLC must refute this)
ReadsOnly(os) == \A i \in 1..Len(os) : os[i][1] = "read"
LossyAlgorithmIsAFile == (phase = 1 /\ ReadsOnly(ops)) => ImplLossy(items, ops \o <<<<"read", 3>>>>) = Ref(items, ops \o <<<<"read", 3>>>>)
=============================================================================
