----------------------------- MODULE Serializer -----------------------------
(* execnet dump format version 2: reference encoder and total decoder.

   Written from the format description (opcode letters, big-endian 4-byte
   lengths and small ints, decimal text for big ints, IEEE doubles, post-order
   containers, STOP), not transcribed from _Serializer.save_*.

   Values (type-exact, order-exact):
     <<"none">>  <<"bool", b>>  <<"int", neg, digits>>  <<"float", b8>>
     <<"complex", b16>>  <<"bytes", bs>>  <<"str", codepoints>>
     <<"list", seq>>  <<"tuple", seq>>  <<"dict", seq of <<k, v>>>>
     <<"set", seq>>  <<"frozenset", seq>>      (iteration order of the object)
     <<"chan", id>>                            (only with a channel factory)
     <<"bad">>                                 (any unsupported / subclass leaf)
*)
EXTENDS Bytes, FiniteSets, TLC

OpBUILDTUPLE == 64  OpBYTES == 65  OpCHANNEL == 66  OpFALSE == 67  OpFLOAT == 68
OpFROZENSET == 69   OpINT == 70    OpLONG == 71     OpLONGINT == 72 OpLONGLONG == 73
OpNEWDICT == 74     OpNEWLIST == 75 OpNONE == 76    OpPY2STRING == 77
OpPY3STRING == 78   OpSET == 79    OpSETITEM == 80  OpSTOP == 81   OpTRUE == 82
OpUNICODE == 83     OpCOMPLEX == 84
Version == 2

Tag(v) == v[1]
IntV(n) == LET d == DigitsOf(n) IN <<"int", d[1], d[2]>>

\* ------------------------------ encoder ----------------------------------
RECURSIVE Enc(_), EncItems(_, _), EncPairs(_), EncAll(_)

Enc(v) ==
  CASE Tag(v) = "none"    -> <<OpNONE>>
    [] Tag(v) = "bool"    -> IF v[2] THEN <<OpTRUE>> ELSE <<OpFALSE>>
    [] Tag(v) = "int"     -> IF FitsInt4(v[2], v[3])
                             THEN <<OpINT>> \o Int4(Small(v[2], v[3]))
                             ELSE <<OpLONGINT>> \o LenPrefixed(DecimalText(v[2], v[3]))
    [] Tag(v) = "float"   -> <<OpFLOAT>> \o v[2]
    [] Tag(v) = "complex" -> <<OpCOMPLEX>> \o v[2]
    [] Tag(v) = "bytes"   -> <<OpBYTES>> \o LenPrefixed(v[2])
    [] Tag(v) = "str"     -> IF \E i \in 1..Len(v[2]) : IsSurrogate(v[2][i]) THEN Err
                             ELSE <<OpPY3STRING>> \o LenPrefixed(Utf8(v[2]))
    [] Tag(v) = "list"    -> Cat(<<OpNEWLIST>> \o Int4(Len(v[2])), EncItems(v[2], 0))
    [] Tag(v) = "dict"    -> Cat(<<OpNEWDICT>>, EncPairs(v[2]))
    [] Tag(v) = "tuple"   -> Cat(EncAll(v[2]), <<OpBUILDTUPLE>> \o Int4(Len(v[2])))
    [] Tag(v) = "set"     -> Cat(EncAll(v[2]), <<OpSET>> \o Int4(Len(v[2])))
    [] Tag(v) = "frozenset" -> Cat(EncAll(v[2]), <<OpFROZENSET>> \o Int4(Len(v[2])))
    [] Tag(v) = "chan"    -> <<OpCHANNEL>> \o Int4(v[2])
    [] OTHER              -> Err

\* list items i, i+1, ...: index, value, SETITEM
EncItems(s, i) ==
  IF s = <<>> THEN <<>>
  ELSE Cat(Cat(Cat(Enc(IntV(i)), Enc(Head(s))), <<OpSETITEM>>), EncItems(Tail(s), i + 1))

EncPairs(ps) ==
  IF ps = <<>> THEN <<>>
  ELSE Cat(Cat(Cat(Enc(Head(ps)[1]), Enc(Head(ps)[2])), <<OpSETITEM>>), EncPairs(Tail(ps)))

EncAll(s) == IF s = <<>> THEN <<>> ELSE Cat(Enc(Head(s)), EncAll(Tail(s)))

Dumps(v)         == Cat(<<Version>>, Cat(Enc(v), <<OpSTOP>>))     \* dumps / dump
DumpsInternal(v) == Cat(Enc(v), <<OpSTOP>>)                       \* channel payloads

\* ------------------------------ decoder ----------------------------------
(* A stack machine, one step per opcode.  Total: every opcode has its failure
   branches.  status: "run" | "done" | "loaderr" | "eof" | "overcommit"
   (overcommit: a NEWLIST count > 4096 and larger than the remaining input:
   more memory than the input could justify; tracked separately, see C13).
   cfg = [p2as3 |-> BOOLEAN, p3as2 |-> BOOLEAN, factory |-> BOOLEAN]          *)

RECURSIVE Hashable(_)
Hashable(x) == CASE Tag(x) \in {"list", "dict", "set", "bad"} -> FALSE
                 [] Tag(x) \in {"tuple", "frozenset"} -> \A i \in 1..Len(x[2]) : Hashable(x[2][i])
                 [] OTHER -> TRUE

St(inp, stack, status) == [inp |-> inp, stack |-> stack, status |-> status]
Fail(st, why) == [st EXCEPT !.status = why]
Push(st, rest, v) == [st EXCEPT !.inp = rest, !.stack = Append(@, v)]

Take(inp, n) == SubSeq(inp, 1, n)
Drop(inp, n) == SubSeq(inp, n + 1, Len(inp))

\* read a 4-byte length followed by that many bytes; result <<tag, bytes, rest>>
ReadString(inp) ==
  IF Len(inp) < 4 THEN <<"eof">>
  ELSE LET n == FromInt4(Take(inp, 4)) r == Drop(inp, 4) IN
       IF n < 0 THEN <<"loaderr">>
       ELSE IF Len(r) < n THEN <<"eof">>
       ELSE <<"ok", Take(r, n), Drop(r, n)>>

IsDigits(bs) == Len(bs) >= 1 /\ \A i \in 1..Len(bs) : bs[i] >= 48 /\ bs[i] <= 57

RECURSIVE StripZeros(_)
StripZeros(ds) == IF Len(ds) > 1 /\ Head(ds) = 0 THEN StripZeros(Tail(ds)) ELSE ds

\* decimal text -> int value or <<"loaderr">>
ParseDecimal(bs) ==
  LET neg  == Len(bs) >= 1 /\ bs[1] = 45
      body == IF neg THEN Tail(bs) ELSE bs
  IN IF ~IsDigits(body) THEN <<"loaderr">>
     ELSE LET ds == StripZeros([i \in 1..Len(body) |-> body[i] - 48])
          IN <<"int", neg /\ ds # <<0>>, ds>>

Latin1(bs) == bs           \* latin-1: byte k is code point k

\* IEEE-754 double, big-endian: exponent all ones and a non-zero mantissa
IsNaNBytes(b) == Len(b) = 8 /\ b[1] % 128 = 127 /\ b[2] >= 240 /\ (b[2] % 16 # 0 \/ \E i \in 3..8 : b[i] # 0)
RECURSIVE ContainsNaN(_)
ContainsNaN(v) ==
  CASE Tag(v) = "float" -> IsNaNBytes(v[2])
    [] Tag(v) = "complex" -> IsNaNBytes(SubSeq(v[2], 1, 8)) \/ IsNaNBytes(SubSeq(v[2], 9, 16))
    [] Tag(v) \in {"tuple", "frozenset"} -> \E i \in 1..Len(v[2]) : ContainsNaN(v[2][i])
    [] OTHER -> FALSE

StepOp(st, cfg) ==
  LET inp == st.inp IN
  IF inp = <<>> THEN Fail(st, "eof")
  ELSE LET op == Head(inp) r == Tail(inp) stack == st.stack n == Len(st.stack) IN
  CASE op = OpNONE  -> Push(st, r, <<"none">>)
    [] op = OpTRUE  -> Push(st, r, <<"bool", TRUE>>)
    [] op = OpFALSE -> Push(st, r, <<"bool", FALSE>>)
    [] op \in {OpINT, OpLONG} ->
         IF Len(r) < 4 THEN Fail(st, "eof")
         ELSE Push(st, Drop(r, 4), IntV(FromInt4(Take(r, 4))))
    [] op \in {OpLONGINT, OpLONGLONG} ->
         LET s == ReadString(r) IN
         IF s[1] # "ok" THEN Fail(st, s[1])
         ELSE LET v == ParseDecimal(s[2]) IN
              IF v[1] = "loaderr" THEN Fail(st, "loaderr") ELSE Push(st, s[3], v)
    [] op = OpFLOAT ->
         IF Len(r) < 8 THEN Fail(st, "eof") ELSE Push(st, Drop(r, 8), <<"float", Take(r, 8)>>)
    [] op = OpCOMPLEX ->
         IF Len(r) < 16 THEN Fail(st, "eof") ELSE Push(st, Drop(r, 16), <<"complex", Take(r, 16)>>)
    [] op = OpBYTES ->
         LET s == ReadString(r) IN
         IF s[1] # "ok" THEN Fail(st, s[1]) ELSE Push(st, s[3], <<"bytes", s[2]>>)
    [] op = OpPY3STRING ->
         LET s == ReadString(r) IN
         IF s[1] # "ok" THEN Fail(st, s[1])
         ELSE IF cfg.p3as2 THEN Push(st, s[3], <<"bytes", s[2]>>)
         ELSE LET d == Utf8Dec(s[2], <<>>) IN
              IF d = Err THEN Fail(st, "loaderr") ELSE Push(st, s[3], <<"str", d>>)
    [] op = OpUNICODE ->
         LET s == ReadString(r) IN
         IF s[1] # "ok" THEN Fail(st, s[1])
         ELSE LET d == Utf8Dec(s[2], <<>>) IN
              IF d = Err THEN Fail(st, "loaderr") ELSE Push(st, s[3], <<"str", d>>)
    [] op = OpPY2STRING ->
         LET s == ReadString(r) IN
         IF s[1] # "ok" THEN Fail(st, s[1])
         ELSE IF cfg.p2as3 THEN Push(st, s[3], <<"str", Latin1(s[2])>>)
         ELSE Push(st, s[3], <<"bytes", s[2]>>)
    [] op = OpNEWLIST ->
         IF Len(r) < 4 THEN Fail(st, "eof")
         ELSE LET k == FromInt4(Take(r, 4)) IN
              IF k < 0 THEN Fail(st, "loaderr")
              ELSE IF k > 4096 /\ k > Len(r) THEN Fail(st, "overcommit")   \* memory bomb, see C13
              ELSE Push(st, Drop(r, 4), <<"list", [i \in 1..k |-> <<"none">>]>>)
    [] op = OpNEWDICT -> Push(st, r, <<"dict", <<>>>>)
    [] op = OpSETITEM ->
         IF n < 3 THEN Fail(st, "loaderr")
         ELSE LET val == stack[n] key == stack[n - 1] c == stack[n - 2] IN
              IF Tag(c) = "list" THEN
                 IF Tag(key) = "int" /\ ~key[2] /\ FitsInt4(key[2], key[3])
                    /\ Small(key[2], key[3]) < Len(c[2])
                 THEN [st EXCEPT !.inp = r,
                          !.stack = Append(SubSeq(stack, 1, n - 3),
                              <<"list", [c[2] EXCEPT ![Small(key[2], key[3]) + 1] = val]>>)]
                 ELSE Fail(st, "loaderr")
              ELSE IF Tag(c) = "dict" THEN
                 IF ~Hashable(key) THEN Fail(st, "loaderr")
                 \* an equal key is replaced; a key that holds a NaN equals nothing, not even its own re-decoded copy (Python: nan != nan)
                 ELSE LET pos == {i \in 1..Len(c[2]) : Tag(c[2][i][1]) = Tag(key) /\ c[2][i][1] = key /\ ~ContainsNaN(key)} IN
                      [st EXCEPT !.inp = r,
                          !.stack = Append(SubSeq(stack, 1, n - 3),
                              <<"dict", IF pos = {} THEN Append(c[2], <<key, val>>)
                                        ELSE [c[2] EXCEPT ![CHOOSE i \in pos : TRUE] = <<key, val>>]>>)]
              ELSE Fail(st, "loaderr")
    [] op \in {OpBUILDTUPLE, OpSET, OpFROZENSET} ->
         IF Len(r) < 4 THEN Fail(st, "eof")
         ELSE LET k == FromInt4(Take(r, 4))
                  t == IF op = OpBUILDTUPLE THEN "tuple" ELSE IF op = OpSET THEN "set" ELSE "frozenset"
              IN IF k < 0 \/ k > n THEN Fail(st, "loaderr")
                 ELSE LET items == SubSeq(stack, n - k + 1, n) IN
                      IF t # "tuple" /\ \E i \in 1..k : ~Hashable(items[i]) THEN Fail(st, "loaderr")
                      ELSE [st EXCEPT !.inp = Drop(r, 4),
                               !.stack = Append(SubSeq(stack, 1, n - k), <<t, items>>)]
    [] op = OpCHANNEL ->
         IF Len(r) < 4 THEN Fail(st, "eof")
         ELSE IF ~cfg.factory THEN Fail(st, "loaderr")
         ELSE Push(st, Drop(r, 4), <<"chan", FromInt4(Take(r, 4))>>)
    [] op = OpSTOP -> IF n = 1 THEN [st EXCEPT !.inp = r, !.status = "done"] ELSE Fail(st, "loaderr")
    [] OTHER -> Fail(st, "loaderr")

RECURSIVE RunDec(_, _)
RunDec(st, cfg) == IF st.status # "run" THEN st ELSE RunDec(StepOp(st, cfg), cfg)

\* loads(): version byte, then the machine.  Result <<"value", v>> | <<"loaderr">> | <<"eof">>
Loads(bs, cfg) ==
  IF bs = <<>> \/ Head(bs) # Version THEN <<"loaderr">>
  ELSE LET f == RunDec(St(Tail(bs), <<>>, "run"), cfg) IN
       IF f.status = "done" THEN <<"value", f.stack[1], Len(bs) - Len(f.inp)>> ELSE <<f.status>>

LoadsInternal(bs, cfg) ==
  LET f == RunDec(St(bs, <<>>, "run"), cfg) IN
  IF f.status = "done" THEN <<"value", f.stack[1], Len(bs) - Len(f.inp)>> ELSE <<f.status>>

\* some NEWLIST opcode byte is followed by a count larger than 4096 and than the whole input
HasBomb(bs) ==
  \E i \in 1..(Len(bs) - 4) :
     /\ bs[i] = OpNEWLIST
     /\ LET k == FromInt4(SubSeq(bs, i + 1, i + 4)) IN k > 4096 /\ k > Len(bs)

DefaultCfg == [p2as3 |-> FALSE, p3as2 |-> FALSE, factory |-> FALSE]

\* ---------------------- well-formed Python values -------------------------
(* A model value is the image of a Python object only if set members / dict
   keys are hashable and pairwise distinct under Python equality.  Numbers of
   different types may be equal in Python (1 == True == 1.0); such mixtures are
   conservatively treated as "not certainly well-formed".                    *)
NumTag(v) == Tag(v) \in {"bool", "int", "float", "complex"}
MaybePyEq(a, b) == a = b \/ (NumTag(a) /\ NumTag(b) /\ Tag(a) # Tag(b))
              \/ (Tag(a) \in {"float", "complex"} /\ Tag(b) \in {"float", "complex"})
              \/ (Tag(a) \in {"set", "frozenset"} /\ Tag(b) \in {"set", "frozenset"})
              \/ (Tag(a) = "tuple" /\ Tag(b) = "tuple" /\ Len(a[2]) = Len(b[2]))
DistinctKeys(ks) == \A i, j \in 1..Len(ks) : i < j => ~MaybePyEq(ks[i], ks[j])

RECURSIVE WF(_)
WF(v) ==
  CASE Tag(v) \in {"none", "bool", "float", "complex", "bytes"} -> TRUE
    [] Tag(v) = "int" -> CanonicalInt(v[2], v[3])
    [] Tag(v) = "str" -> \A i \in 1..Len(v[2]) : ~IsSurrogate(v[2][i])
    [] Tag(v) \in {"list", "tuple"} -> \A i \in 1..Len(v[2]) : WF(v[2][i])
    [] Tag(v) \in {"set", "frozenset"} ->
          /\ \A i \in 1..Len(v[2]) : WF(v[2][i]) /\ Hashable(v[2][i])
          /\ DistinctKeys(v[2])
    [] Tag(v) = "dict" ->
          /\ \A i \in 1..Len(v[2]) : WF(v[2][i][1]) /\ WF(v[2][i][2]) /\ Hashable(v[2][i][1])
          /\ DistinctKeys([i \in 1..Len(v[2]) |-> v[2][i][1]])
    [] OTHER -> FALSE

\* equality up to iteration order of sets (what Python's == observes), type-exact
RECURSIVE Norm(_)
Norm(v) ==
  CASE Tag(v) \in {"list", "tuple"} -> <<Tag(v), [i \in 1..Len(v[2]) |-> Norm(v[2][i])]>>
    [] Tag(v) \in {"set", "frozenset"} -> <<Tag(v), {Norm(v[2][i]) : i \in 1..Len(v[2])}>>
    [] Tag(v) = "dict" -> <<"dict", [i \in 1..Len(v[2]) |-> <<Norm(v[2][i][1]), Norm(v[2][i][2])>>]>>
    [] OTHER -> v

RECURSIVE OnlySupported(_)
OnlySupported(v) ==
  CASE Tag(v) \in {"none", "bool", "int", "float", "complex", "bytes", "str"} -> TRUE
    [] Tag(v) \in {"list", "tuple", "set", "frozenset"} -> \A i \in 1..Len(v[2]) : OnlySupported(v[2][i])
    [] Tag(v) = "dict" -> \A i \in 1..Len(v[2]) : OnlySupported(v[2][i][1]) /\ OnlySupported(v[2][i][2])
    [] OTHER -> FALSE
=============================================================================
