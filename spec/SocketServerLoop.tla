--------------------------- MODULE SocketServerLoop ---------------------------
(* execnet/script/socketserver.py run stand-alone: one process serves one connection after the other (startserver(loop=TRUE)).
   Each connection executes transmitted code in the server's own process, so what that code does to the process (here: the working
   directory, the one piece of process state the script promises to restore) is what the next connection starts from.
   C16: a socket gateway behaves like a fresh popen gateway - it starts in the directory the server was launched from.

   phase: "accepting" -> "serving" (a client is connected, its code runs) -> "accepting" ...; the served code may change the
   directory any number of times and may end by returning or by raising.
   Fix_RestorePerConnection = FALSE is the design that goes back only when the loop is left. *)
EXTENDS Integers, Sequences, TLC
CONSTANTS Dirs, Launch, MaxConns, Fix_RestorePerConnection
ASSUME Launch \in Dirs

VARIABLES phase, cwd, served, startedIn, looping
vars == <<phase, cwd, served, startedIn, looping>>

Init == phase = "accepting" /\ cwd = Launch /\ served = 0 /\ startedIn = <<>> /\ looping = TRUE

Accept == /\ phase = "accepting" /\ looping /\ served < MaxConns
          /\ phase' = "serving" /\ served' = served + 1
          /\ startedIn' = Append(startedIn, cwd)              \* what the new gateway observes first
          /\ UNCHANGED <<cwd, looping>>
Chdir(d) == phase = "serving" /\ cwd' = d /\ UNCHANGED <<phase, served, startedIn, looping>>
\* the connection's code returns or raises (both paths reach the statement after the try block)
ConnectionEnds == /\ phase = "serving"
                  /\ phase' = "accepting"
                  /\ cwd' = IF Fix_RestorePerConnection THEN Launch ELSE cwd
                  /\ UNCHANGED <<served, startedIn, looping>>
\* KeyboardInterrupt / SystemExit leave the loop: the finally block runs
Leave == /\ looping /\ looping' = FALSE /\ phase' = "left"
         /\ cwd' = IF Fix_RestorePerConnection THEN cwd ELSE Launch
         /\ UNCHANGED <<served, startedIn>>
Next == Accept \/ (\E d \in Dirs : Chdir(d)) \/ ConnectionEnds \/ Leave
Spec == Init /\ [][Next]_vars

TypeOK == phase \in {"accepting", "serving", "left"} /\ cwd \in Dirs /\ served \in 0..MaxConns
\* C16: every connection starts where a fresh popen worker would start
EveryConnectionStartsInLaunchDir == \A i \in 1..Len(startedIn) : startedIn[i] = Launch
=============================================================================
