--------------------------- MODULE SocketServerLoop ---------------------------
(* execnet/script/socketserver.py run stand-alone: one process serves one connection after the other (startserver(loop=TRUE)).
   Each connection executes transmitted code in the server's own process, so what that code does to the process (here: the working
   directory, the one piece of process state the script promises to restore) is what the next connection starts from.
   C16: a socket gateway behaves like a fresh popen gateway - it starts in the directory the server was launched from.

   phase: "accepting" -> "serving" (a client is connected, its code runs) -> "accepting" ...; the served code may change the
   directory any number of times and may end by returning or by raising.
   Fix_RestorePerConnection = FALSE is the design that goes back only when the loop is left.

   OneShot = TRUE is the same script started through socket//installvia=<host gateway>: every socket gateway gets a server of its own
   that runs inside the host gateway's process, serves one connection and ends (startserver(loop=FALSE)); the next one is started in
   the same process and remembers the directory it finds as the one to go back to.  Fix_RestoreOneShot = FALSE leaves that path
   without going back. *)
EXTENDS Integers, Sequences, TLC
CONSTANTS Dirs, Launch, MaxConns, Fix_RestorePerConnection, OneShot, Fix_RestoreOneShot
ASSUME Launch \in Dirs

VARIABLES phase, cwd, served, startedIn, looping, execpath
vars == <<phase, cwd, served, startedIn, looping, execpath>>

Init == phase = "accepting" /\ cwd = Launch /\ served = 0 /\ startedIn = <<>> /\ looping = TRUE /\ execpath = Launch

Accept == /\ phase = "accepting" /\ looping /\ served < MaxConns
          /\ phase' = "serving" /\ served' = served + 1
          /\ startedIn' = Append(startedIn, cwd)              \* what the new gateway observes first
          /\ UNCHANGED <<cwd, looping, execpath>>
Chdir(d) == phase = "serving" /\ cwd' = d /\ UNCHANGED <<phase, served, startedIn, looping, execpath>>
\* the connection's code returns or raises (both paths reach the statement after the try block)
ConnectionEnds == /\ phase = "serving"
                  /\ IF OneShot THEN /\ phase' = "left" /\ looping' = FALSE            \* "if not loop: break", then the finally block
                                      /\ cwd' = IF Fix_RestoreOneShot THEN execpath ELSE cwd
                     ELSE /\ phase' = "accepting" /\ UNCHANGED looping
                          /\ cwd' = IF Fix_RestorePerConnection THEN execpath ELSE cwd
                  /\ UNCHANGED <<served, startedIn, execpath>>
\* installvia: the host gateway starts the next one-connection server in the same process
StartServer == /\ OneShot /\ phase = "left" /\ served < MaxConns
               /\ phase' = "accepting" /\ looping' = TRUE /\ execpath' = cwd
               /\ UNCHANGED <<cwd, served, startedIn>>
\* KeyboardInterrupt / SystemExit leave the loop: the finally block runs
Leave == /\ ~OneShot /\ looping /\ looping' = FALSE /\ phase' = "left"
         /\ cwd' = IF Fix_RestorePerConnection THEN cwd ELSE execpath
         /\ UNCHANGED <<served, startedIn, execpath>>
Next == Accept \/ (\E d \in Dirs : Chdir(d)) \/ ConnectionEnds \/ Leave \/ StartServer
Spec == Init /\ [][Next]_vars

TypeOK == phase \in {"accepting", "serving", "left"} /\ cwd \in Dirs /\ served \in 0..MaxConns
\* C16: every connection starts where a fresh popen worker would start
EveryConnectionStartsInLaunchDir == \A i \in 1..Len(startedIn) : startedIn[i] = Launch
=============================================================================
