------------------------------- MODULE GwCases -------------------------------
(* M5 for the channel protocol: recorded executions of a real gateway pair judged by GatewayAbs. *)
EXTENDS GatewayAbs, Json, IOUtils
Cases == JsonDeserialize(IOEnv.CASES)
ASSUME PrintT(<<"verdicts", [i \in 1..Len(Cases) |-> Verdict(Cases[i].events)]>>)
VARIABLE x
Init == x = 0
Next == UNCHANGED x
=============================================================================
