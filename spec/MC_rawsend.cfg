SPECIFICATION Spec
CONSTANTS
  N = 3
  Fix_WaitForAll = TRUE
  Fix_SendChecksClosed = FALSE
INVARIANT TypeOK
INVARIANT AllClosedWhenOver
INVARIANT RaisesTheFirstFailure
INVARIANT NoFrameAfterClose
PROPERTY WaitcloseEnds
CHECK_DEADLOCK FALSE
