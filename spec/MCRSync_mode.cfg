SPECIFICATION Spec
CONSTANT Fix_FileModeExact = FALSE
CONSTANT Fix_RelLinkAsIs = TRUE
INVARIANT TargetEqualsSource
INVARIANT LimitationsAreExact
INVARIANT Minimal
CHECK_DEADLOCK FALSE
