SPECIFICATION Spec
CONSTANT WithUnkillable = TRUE
CONSTANT Fix_BoundFinalWait = FALSE
CONSTANT Fix_GuardEndmarkerCallbacks = TRUE
CONSTANT WithLinger = FALSE
CONSTANT Fix_HardExit = TRUE
CONSTANT KillOnTimeout = TRUE
INVARIANT WorkerGoneInTime
INVARIANT ExpectedRung
INVARIANT TerminatePrompt
INVARIANT NoChildLeft
PROPERTY WorkerEventuallyGone
PROPERTY TerminateReturns
CHECK_DEADLOCK FALSE
