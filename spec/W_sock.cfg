SPECIFICATION Spec
CONSTANT Writers = {"a", "b"}
CONSTANT Queue <- Q_W_sock
CONSTANT IsSocket = TRUE
CONSTANT Fix_SocketWriteLock = TRUE
CONSTANT MayCut = FALSE
INVARIANT FramesIntact
INVARIANT NoGarbage
PROPERTY AllArrive
CHECK_DEADLOCK FALSE
