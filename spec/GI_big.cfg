SPECIFICATION Spec
CONSTANT Calls <- K4
CONSTANT Fix_RegisterAtomic = TRUE
CONSTANT Fix_ExplicitCheck = TRUE
INVARIANT NoSharedId
INVARIANT AutoIdsUnique
CHECK_DEADLOCK FALSE
