------------------------------- MODULE Bytes -------------------------------
(* Byte-level vocabulary shared by the serializer and wire specifications.
   Bytes are 0..255, byte strings are sequences.  Python ints of any size are
   <<neg, digits>> (digits: most significant first, no leading zero) because
   TLC integers are 32-bit.                                                  *)
EXTENDS Integers, Sequences

Err == <<-1>>                     \* "this encoding does not exist" (DumpError)
Cat(a, b) == IF a = Err \/ b = Err THEN Err ELSE a \o b

MinInt4 == -2147483647 - 1
MaxInt4 == 2147483647

\* 4-byte big-endian two's complement of n \in MinInt4..MaxInt4
Int4(n) ==
  LET m  == IF n >= 0 THEN n ELSE (n + 2147483647) + 1
      b0 == (m \div 16777216) + (IF n < 0 THEN 128 ELSE 0)
  IN  << b0, (m \div 65536) % 256, (m \div 256) % 256, m % 256 >>

FromInt4(b) ==
  LET m == (b[1] % 128) * 16777216 + b[2] * 65536 + b[3] * 256 + b[4]
  IN  IF b[1] >= 128 THEN (m - 2147483647) - 1 ELSE m

RECURSIVE NatDigits(_)
NatDigits(n) == IF n < 10 THEN <<n>> ELSE Append(NatDigits(n \div 10), n % 10)

\* digits of a machine int as <<neg, digits>>
DigitsOf(n) ==
  IF n >= 0 THEN <<FALSE, NatDigits(n)>>
  ELSE IF n = MinInt4 THEN <<TRUE, <<2,1,4,7,4,8,3,6,4,8>>>>
  ELSE <<TRUE, NatDigits(-n)>>

RECURSIVE LexLeq(_, _)            \* equal-length digit strings, a <= b
LexLeq(a, b) ==
  IF a = <<>> THEN TRUE
  ELSE IF Head(a) < Head(b) THEN TRUE
  ELSE IF Head(a) > Head(b) THEN FALSE
  ELSE LexLeq(Tail(a), Tail(b))

FitsInt4(neg, ds) ==
  \/ Len(ds) < 10
  \/ /\ Len(ds) = 10
     /\ LexLeq(ds, IF neg THEN <<2,1,4,7,4,8,3,6,4,8>> ELSE <<2,1,4,7,4,8,3,6,4,7>>)

RECURSIVE AccPos(_, _)
AccPos(ds, acc) == IF ds = <<>> THEN acc ELSE AccPos(Tail(ds), acc * 10 + Head(ds))
RECURSIVE AccNeg(_, _)
AccNeg(ds, acc) == IF ds = <<>> THEN acc ELSE AccNeg(Tail(ds), acc * 10 - Head(ds))
\* machine int of <<neg, ds>>, only when FitsInt4
Small(neg, ds) == IF neg THEN AccNeg(ds, 0) ELSE AccPos(ds, 0)

CanonicalInt(neg, ds) ==
  /\ Len(ds) >= 1
  /\ \A i \in 1..Len(ds) : ds[i] \in 0..9
  /\ (Len(ds) > 1 => ds[1] # 0)
  /\ (neg => ds # <<0>>)

\* ASCII decimal text: '-' = 45, '0' = 48
DecimalText(neg, ds) ==
  (IF neg THEN <<45>> ELSE <<>>) \o [i \in 1..Len(ds) |-> 48 + ds[i]]

LenPrefixed(bs) == Int4(Len(bs)) \o bs

\* ------------------------------ UTF-8 ------------------------------------
IsSurrogate(c) == c >= 55296 /\ c <= 57343

Utf8Char(c) ==
  IF c < 128 THEN <<c>>
  ELSE IF c < 2048 THEN <<192 + (c \div 64), 128 + (c % 64)>>
  ELSE IF c < 65536 THEN <<224 + (c \div 4096), 128 + ((c \div 64) % 64), 128 + (c % 64)>>
  ELSE <<240 + (c \div 262144), 128 + ((c \div 4096) % 64), 128 + ((c \div 64) % 64), 128 + (c % 64)>>

RECURSIVE Utf8(_)
Utf8(cps) == IF cps = <<>> THEN <<>> ELSE Utf8Char(Head(cps)) \o Utf8(Tail(cps))

Cont(b) == b >= 128 /\ b <= 191

\* strict decoder (what Python's 'utf-8' codec accepts); Err on malformed input
RECURSIVE Utf8Dec(_, _)
Utf8Dec(bs, acc) ==
  IF bs = <<>> THEN acc
  ELSE LET b == bs[1] n == Len(bs) IN
    IF b < 128 THEN Utf8Dec(Tail(bs), Append(acc, b))
    ELSE IF b >= 194 /\ b <= 223 THEN
       IF n >= 2 /\ Cont(bs[2])
       THEN Utf8Dec(SubSeq(bs, 3, n), Append(acc, (b - 192) * 64 + (bs[2] - 128)))
       ELSE Err
    ELSE IF b >= 224 /\ b <= 239 THEN
       IF n >= 3 /\ Cont(bs[2]) /\ Cont(bs[3])
          /\ (b = 224 => bs[2] >= 160) /\ (b = 237 => bs[2] <= 159)
       THEN Utf8Dec(SubSeq(bs, 4, n),
                    Append(acc, (b - 224) * 4096 + (bs[2] - 128) * 64 + (bs[3] - 128)))
       ELSE Err
    ELSE IF b >= 240 /\ b <= 244 THEN
       IF n >= 4 /\ Cont(bs[2]) /\ Cont(bs[3]) /\ Cont(bs[4])
          /\ (b = 240 => bs[2] >= 144) /\ (b = 244 => bs[2] <= 143)
       THEN Utf8Dec(SubSeq(bs, 5, n),
                    Append(acc, (b - 240) * 262144 + (bs[2] - 128) * 4096
                                + (bs[3] - 128) * 64 + (bs[4] - 128)))
       ELSE Err
    ELSE Err

=============================================================================
