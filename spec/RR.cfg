SPECIFICATION Spec
CONSTANT Rounds = 4
CONSTANT Fix_NoDigestCache = TRUE
INVARIANT TargetEqualsSourceAfterSend
PROPERTY ContentTravelsOnlyWhenItDiffers
CHECK_DEADLOCK FALSE
