------------------------------- MODULE RemoteExec -------------------------------
(* Gateway.remote_exec: the local front end as a decision table over the shape of what is passed, and
   what the remote side must then do.

   shape = [kind, lambda, first, closure, global, nested, defaults, decorated, kwargs]
     kind      "string" | "function" | "module"
     lambda    the function is a lambda
     first     "channel" | "other" | "none" | "kwonly_channel" (channel is keyword-only) | "star_channel" (a var-positional
               parameter named channel) | "starstar_channel" (a var-keyword parameter named channel): the first positional
               parameter must be `channel`
     closure   the function closes over a variable of an enclosing function
     global    the function body refers to a non-builtin global name
     nested    the function is defined inside another function / class (indented source)
     defaults  it has parameters with defaults
     decorated it carries a decorator (a non-builtin global name in its source)
     shadow    it reads a non-builtin global whose name is also a parameter / local of a helper function nested inside it
     kwargs    "none" | "good" (serialisable) | "bad" (contains an unserialisable value)

   Two phases: validate (local), send (one CHANNEL_EXEC frame).  Outcome: "ValueError" | "TypeError" | "DumpError" | "sent".
*)
EXTENDS Integers, Sequences, FiniteSets, TLC

Decide(s) ==
  IF s.kind = "function" THEN
     IF s.lambda THEN "ValueError"
     ELSE IF s.first # "channel" THEN "ValueError"
     ELSE IF s.closure THEN "ValueError"
     ELSE IF s.global \/ s.decorated \/ s.shadow THEN "ValueError"
     ELSE IF s.kwargs = "bad" THEN "DumpError"
     ELSE "sent"
  ELSE IF s.kwargs # "none" THEN "TypeError"
  ELSE "sent"

\* what the statement says, independently: functions with closures, non-builtin globals, lambdas or a wrong first
\* parameter are rejected locally; everything else that is serialisable runs
Rejected(s) == s.kind = "function" /\ (s.lambda \/ s.first # "channel" \/ s.closure \/ s.global \/ s.decorated \/ s.shadow)

Shapes == { s \in [kind : {"string", "function", "module"}, lambda : BOOLEAN, first : {"channel", "other", "none", "kwonly_channel", "star_channel", "starstar_channel"}, closure : BOOLEAN,
                   global : BOOLEAN, nested : BOOLEAN, defaults : BOOLEAN, decorated : BOOLEAN, shadow : BOOLEAN, kwargs : {"none", "good", "bad"}] :
            /\ (s.kind # "function" => (~s.lambda /\ s.first = "channel" /\ ~s.closure /\ ~s.global /\ ~s.nested /\ ~s.defaults /\ ~s.decorated /\ ~s.shadow))
            /\ (s.closure => s.nested)
            /\ (s.lambda => (~s.defaults /\ ~s.decorated /\ ~s.global /\ ~s.shadow))
            /\ (s.shadow => (~s.global /\ s.first = "channel"))
            /\ (s.first \in {"none", "kwonly_channel", "star_channel", "starstar_channel"} => (~s.defaults /\ s.kwargs = "none" /\ ~s.lambda)) }

VARIABLES shape, phase, frames, outcome
vars == <<shape, phase, frames, outcome>>
Init == shape \in Shapes /\ phase = "validate" /\ frames = 0 /\ outcome = "none"
Validate == /\ phase = "validate"
            /\ IF Decide(shape) = "sent" THEN phase' = "send" /\ UNCHANGED outcome
               ELSE phase' = "done" /\ outcome' = Decide(shape)
            /\ UNCHANGED <<shape, frames>>
Send == /\ phase = "send" /\ frames' = frames + 1 /\ outcome' = "sent" /\ phase' = "done" /\ UNCHANGED shape
Next == Validate \/ Send
Spec == Init /\ [][Next]_vars /\ WF_vars(Next)

RejectedMeansNothingSent == (phase = "done" /\ outcome # "sent") => frames = 0
StatementAgrees == phase = "done" => ((outcome = "ValueError") <=> Rejected(shape))
Answered == <>(phase = "done")
=============================================================================
