SPECIFICATION Spec
CONSTANT Writers = {"a", "b"}
CONSTANT Queue <- Q_W_pipe
CONSTANT IsSocket = FALSE
CONSTANT Fix_SocketWriteLock = TRUE
CONSTANT MayCut = FALSE
INVARIANT FramesIntact
INVARIANT NoGarbage
PROPERTY AllArrive
CHECK_DEADLOCK FALSE
