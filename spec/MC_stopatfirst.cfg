SPECIFICATION Spec
CONSTANTS
  N = 3
  Fix_WaitForAll = FALSE
  Fix_SendChecksClosed = TRUE
INVARIANT TypeOK
INVARIANT AllClosedWhenOver
INVARIANT RaisesTheFirstFailure
INVARIANT NoFrameAfterClose
PROPERTY WaitcloseEnds
CHECK_DEADLOCK FALSE
