------------------------------ MODULE MCSerFuzz ------------------------------
(* M1 for C13: the decoder machine is total on every opcode soup of bounded
   length over an alphabet containing every opcode, one unknown opcode and
   adversarial length / payload bytes.                                       *)
EXTENDS Serializer
CONSTANTS MaxLen, UseTokens
VARIABLES inp0, st
vars == <<inp0, st>>

Alphabet == (64..84) \cup {90, 0, 1, 2, 255, 128, 48, 45}
RECURSIVE Soups(_)
Soups(n) == IF n = 0 THEN {<<>>} ELSE LET S == Soups(n - 1) IN S \cup {Append(s, a) : s \in {t \in S : Len(t) = n - 1}, a \in Alphabet}

\* structured soups: opcodes with plausible / adversarial operands
L4(n) == Int4(n)
Tokens == {
  <<OpNONE>>, <<OpTRUE>>, <<OpINT>> \o L4(0), <<OpINT>> \o L4(1), <<OpINT>> \o L4(-1), <<OpLONG>> \o L4(7),
  <<OpINT, 0, 0>>,                                         \* short read
  <<OpLONGINT>> \o L4(2) \o <<49, 50>>, <<OpLONGINT>> \o L4(1) \o <<120>>, <<OpLONGINT>> \o L4(1) \o <<45>>,
  <<OpLONGLONG>> \o L4(0), <<OpLONGINT>> \o L4(-1), <<OpLONGINT>> \o L4(3) \o <<32, 49, 32>>,
  <<OpFLOAT, 63, 240, 0, 0, 0, 0, 0, 0>>, <<OpFLOAT, 1, 2>>,
  <<OpBYTES>> \o L4(0), <<OpBYTES>> \o L4(1) \o <<97>>, <<OpBYTES>> \o L4(5) \o <<97>>, <<OpBYTES>> \o L4(-2),
  <<OpPY3STRING>> \o L4(1) \o <<97>>, <<OpPY3STRING>> \o L4(1) \o <<255>>, <<OpPY3STRING>> \o L4(2) \o <<195, 169>>,
  <<OpPY2STRING>> \o L4(1) \o <<233>>, <<OpUNICODE>> \o L4(3) \o <<237, 160, 128>>,
  <<OpNEWLIST>> \o L4(0), <<OpNEWLIST>> \o L4(2), <<OpNEWLIST>> \o L4(-1), <<OpNEWLIST>> \o L4(2147483647),
  <<OpNEWDICT>>, <<OpSETITEM>>,
  <<OpBUILDTUPLE>> \o L4(0), <<OpBUILDTUPLE>> \o L4(1), <<OpBUILDTUPLE>> \o L4(2), <<OpBUILDTUPLE>> \o L4(5), <<OpBUILDTUPLE>> \o L4(-1),
  <<OpSET>> \o L4(1), <<OpFROZENSET>> \o L4(1), <<OpSET>> \o L4(2),
  <<OpCHANNEL>> \o L4(1), <<OpSTOP>>, <<90>> }
RECURSIVE TokSoups(_)
TokSoups(n) == IF n = 0 THEN {<<>>} ELSE LET S == TokSoups(n - 1) IN S \cup {s \o t : s \in S, t \in Tokens}

Init == inp0 \in (IF UseTokens THEN TokSoups(MaxLen) ELSE Soups(MaxLen)) /\ st = St(inp0, <<>>, "run")

IsOp(ops) == st.status = "run" /\ st.inp # <<>> /\ Head(st.inp) \in ops
Go == st' = StepOp(st, DefaultCfg) /\ UNCHANGED inp0
LoadConst   == IsOp({OpNONE, OpTRUE, OpFALSE}) /\ Go
LoadInt     == IsOp({OpINT, OpLONG}) /\ Go
LoadLongInt == IsOp({OpLONGINT, OpLONGLONG}) /\ Go
LoadFloat   == IsOp({OpFLOAT, OpCOMPLEX}) /\ Go
LoadBytes   == IsOp({OpBYTES}) /\ Go
LoadStr     == IsOp({OpPY3STRING, OpPY2STRING, OpUNICODE}) /\ Go
NewList     == IsOp({OpNEWLIST}) /\ Go
NewDict     == IsOp({OpNEWDICT}) /\ Go
SetItem     == IsOp({OpSETITEM}) /\ Go
BuildColl   == IsOp({OpBUILDTUPLE, OpSET, OpFROZENSET}) /\ Go
LoadChannel == IsOp({OpCHANNEL}) /\ Go
Stop        == IsOp({OpSTOP}) /\ Go
Unknown     == st.status = "run" /\ st.inp # <<>> /\ Head(st.inp) \notin 64..84 /\ Go
Exhausted   == st.status = "run" /\ st.inp = <<>> /\ Go
Next == LoadConst \/ LoadInt \/ LoadLongInt \/ LoadFloat \/ LoadBytes \/ LoadStr \/ NewList
        \/ NewDict \/ SetItem \/ BuildColl \/ LoadChannel \/ Stop \/ Unknown \/ Exhausted
Spec == Init /\ [][Next]_vars /\ WF_vars(Next)

Typed == st.status \in {"run", "done", "loaderr", "eof", "overcommit"}
ValueSupported == st.status = "done" => (Len(st.stack) = 1 /\ OnlySupported(st.stack[1]))
NoChannelWithoutFactory == \A i \in 1..Len(st.stack) : Tag(st.stack[i]) # "chan"
Progress == [][st.status = "run" => (Len(st'.inp) < Len(st.inp) \/ st'.status # "run")]_vars
Terminates == <>(st.status # "run")
\* a soup that decodes to a well-formed value re-encodes to exactly the bytes consumed
CanonicalWhenEncodable ==
  (st.status = "done" /\ WF(st.stack[1]) /\ Enc(st.stack[1]) # Err)
     => LoadsInternal(DumpsInternal(st.stack[1]), DefaultCfg)[2] = st.stack[1]
=============================================================================
