------------------------- MODULE ChanFileDeliveryCases -------------------------
(* C02 / C03 through a channel file on a real gateway: the remote code sends text items and its channel closes at the end of the
   code; the initiator reads through makefile("r") with generated read(n)/readline() calls that go on until the file is exhausted.
   case: [items (seq of seq of code points), ops, results (seq of seq), exc]
   Everything that was sent before the close comes out of the file, once and in order (the reference file of ChanFile gives the
   exact pieces). *)
EXTENDS ChanFile, Json, IOUtils
Cases == JsonDeserialize(IOEnv.CASES)
RECURSIVE Flat(_, _)
Flat(ss, i) == IF i > Len(ss) THEN <<>> ELSE ss[i] \o Flat(ss, i + 1)
IsPrefixOf(s, t) == Len(s) <= Len(t) /\ \A i \in 1..Len(s) : s[i] = t[i]
Verdict(c) ==
  LET got == Flat(c.results, 1)  want == Flat(c.items, 1) IN
  IF c.exc # "" THEN "C02.file.read-raised-" \o c.exc
  ELSE IF got = want THEN (IF c.results = Ref(c.items, c.ops) THEN "ok" ELSE "C02.file.pieces-differ-from-a-file-over-the-items")
  ELSE IF IsPrefixOf(got, want) THEN "C03.file.data-sent-before-the-close-never-came-out-of-the-file"
  ELSE "C02.file.items-lost-duplicated-or-reordered-in-the-file"
ASSUME PrintT(<<"verdicts", [i \in 1..Len(Cases) |-> Verdict(Cases[i])]>>)
VARIABLE x
Init == x = 0
Next == UNCHANGED x
=============================================================================
