---------------------------- MODULE FdTableCases ----------------------------
(* WHAT = "enum": all sequences of <= DEPTH operations of FdTable.tla (raw1, raw2, rebind_out, rebind_in, open, closefile).
   otherwise: judge replays on real popen workers.  A case is [ops, obs, table]: obs[k] = what operation k observed
   ("harmless" | "EBADF" for raw writes, the descriptor number for open, "" otherwise), table = kinds of descriptors 0..N
   at the end ("null" | "pipe" | "file" | "free" | "other"; descriptor 2 is whatever stderr the check runs with and is not compared).
   The model is stepped along the same operations. *)
EXTENDS Integers, Sequences, FiniteSets, TLC, Json, IOUtils
Fix_ClosefdFalse == TRUE
VARIABLE st
F == INSTANCE FdTable

Ops == {"raw1", "raw2", "rebind_out", "rebind_in", "open", "closefile"}
Can(s, op) == CASE op = "open" -> F!CanOpen(s) /\ Len(s.files) < 3 [] op = "closefile" -> F!CanCloseFile(s) [] OTHER -> TRUE
Apply(s, op) == CASE op = "rebind_out" -> F!RebindStdout(s) [] op = "rebind_in" -> F!RebindStdin(s)
                  [] op = "open" -> F!OpenFile(s) [] op = "closefile" -> F!CloseFile(s) [] OTHER -> s
RECURSIVE Words(_, _, _)
Words(s, w, n) == {w} \cup (IF n = 0 THEN {} ELSE UNION {Words(Apply(s, op), Append(w, op), n - 1) : op \in {o \in Ops : Can(s, o)}})
Depth == IF IOEnv.DEPTH = "5" THEN 5 ELSE IF IOEnv.DEPTH = "3" THEN 3 ELSE 4
ASSUME PrintT(<<"words", IF IOEnv.WHAT = "enum" THEN Words(F!AfterInit, <<>>, Depth) ELSE {}>>)

Kind(d) == CASE d \in {"pin", "pout"} -> "pipe" [] d = "null" -> "null" [] d = "file" -> "file" [] d = "free" -> "free" [] OTHER -> "other"
RECURSIVE Judge(_, _, _, _)
Judge(s, ops, obs, k) ==
  IF k > Len(ops) THEN s
  ELSE LET op == ops[k] IN
       IF ~Can(s, op) THEN [s EXCEPT !.files = <<-1>>]
       ELSE IF op \in {"raw1", "raw2"} /\ obs[k] # F!RawWrite(s, IF op = "raw1" THEN 1 ELSE 2) THEN [s EXCEPT !.files = <<-2>>]
       ELSE IF op = "open" /\ obs[k] # F!LowestFree(s.t) THEN [s EXCEPT !.files = <<-3>>]
       ELSE Judge(Apply(s, op), ops, obs, k + 1)
Cases == IF IOEnv.WHAT = "enum" THEN <<>> ELSE JsonDeserialize(IOEnv.CASES)
Verdict(c) ==
  LET f == Judge(F!AfterInit, c.ops, c.obs, 1) IN
  IF f.files = <<-1>> THEN "MODEL.operation-not-enabled"
  ELSE IF f.files = <<-2>> THEN "C06.raw-write-to-a-standard-descriptor-differs-from-the-model"
  ELSE IF f.files = <<-3>> THEN "C06.a-file-opened-by-remote-code-landed-on-another-descriptor-than-the-model-says"
  ELSE IF \E n \in 0..F!N : n # 2 /\ c.table[n + 1] # Kind(f.t[n]) THEN "C06.descriptor-table-of-the-worker-differs-from-the-model"
  ELSE "ok"
ASSUME PrintT(<<"verdicts", [i \in 1..Len(Cases) |-> Verdict(Cases[i])]>>)
Init == st = 0
Next == UNCHANGED st
=============================================================================
