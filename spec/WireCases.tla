------------------------------ MODULE WireCases ------------------------------
(* M5 for C08: recorded executions of the real Message.to_io / from_io over the real
   Popen2IO / SocketIO (scripted files and sockets), and of real gateways under
   concurrent senders, judged by the property automaton WireAbs.

   sim events:  [ev |-> "wcall", w, code, chan (decimal text: ids use the full signed 32-bit range, TLC integers are 32-bit), len, fill]
                [ev |-> "rdec", code, chan, len, fill]        the reader decoded a frame (fill = -1: payload not uniform)
                [ev |-> "rerr", res]                          from_io raised something that is not EOFError
                [ev |-> "end", cut]                           reader saw EOF; cut = the stream was cut
   real cases:  [sent |-> seq of seq, got |-> seq of seq, alive |-> BOOLEAN]  per channel tokens sent / echoed back
*)
EXTENDS Integers, Sequences, FiniteSets, TLC, Json, IOUtils

Cases == JsonDeserialize(IOEnv.CASES)

Frame(e) == <<e.code, e.chan, e.len, e.fill>>
Init0 == [q |-> [x \in {} |-> <<>>], bad |-> ""]
Flag(st, why) == IF st.bad = "" THEN [st EXCEPT !.bad = why] ELSE st

Step(st, e) ==
  CASE e.ev = "wcall" ->
         [st EXCEPT !.q = (e.w :> Append(IF e.w \in DOMAIN st.q THEN st.q[e.w] ELSE <<>>, Frame(e))) @@ @]
    [] e.ev = "rdec" ->
         LET owners == {w \in DOMAIN st.q : st.q[w] # <<>> /\ Head(st.q[w]) = Frame(e)} IN
         IF owners = {} THEN
            IF \E w \in DOMAIN st.q : \E i \in 1..Len(st.q[w]) : st.q[w][i] = Frame(e)
            THEN Flag(st, "C08.frames-of-one-sender-reordered")
            ELSE Flag(st, "C08.decoded-frame-differs-from-every-frame-sent")
         ELSE LET w == CHOOSE x \in owners : TRUE IN [st EXCEPT !.q = (w :> Tail(st.q[w])) @@ @]
    [] e.ev = "rerr" -> Flag(st, "C08.reader-raised-" \o e.res)
    [] e.ev = "end" ->
         IF ~e.cut /\ \E w \in DOMAIN st.q : st.q[w] # <<>> THEN Flag(st, "C08.frame-lost") ELSE st
    [] e.ev = "stuck" -> Flag(st, "C08.reader-or-writer-blocked-forever")
    [] OTHER -> Flag(st, "TRACE.unknown-event")

RECURSIVE Run(_, _, _)
Run(st, evs, i) == IF i > Len(evs) THEN st ELSE Run(Step(st, evs[i]), evs, i + 1)

SimVerdict(c) == LET f == Run(Init0, c.events, 1) IN IF f.bad = "" THEN "ok" ELSE f.bad
RealVerdict(c) ==
  IF ~c.alive THEN "C08.connection-died-under-concurrent-senders"
  ELSE IF c.sent # c.got THEN "C08.items-corrupted-lost-or-reordered-on-real-transport"
  ELSE "ok"
Verdict(c) == IF c.kind = "sim" THEN SimVerdict(c) ELSE RealVerdict(c)

ASSUME PrintT(<<"verdicts", [i \in 1..Len(Cases) |-> Verdict(Cases[i])]>>)
VARIABLE x
Init == x = 0
Next == UNCHANGED x
=============================================================================
