--------------------------- MODULE MultiChanCases ---------------------------
(* Behaviours of spec/MultiChan.tla replayed on a real Group of three popen gateways (real/multiwords_real.py).
   case: [order (a permutation of 1..3: the order in which the members' code ends), outcomes (per member "ok" | "fail"),
          raised (0: waitclose returned; k: it raised member k's error), over_all_closed, send_each, again, err]
   The model's answer for every interleaving of such a word: waitclose() is over only when all members are closed, raises the error of
   the first failing member in member order (RaisesTheFirstFailure), send_each on the closed members is refused
   (NoFrameAfterClose), and the error is not raised a second time. *)
EXTENDS Integers, Sequences, FiniteSets, TLC, Json, IOUtils
Cases == JsonDeserialize(IOEnv.CASES)
Failing(c) == {i \in 1..3 : c.outcomes[i] = "fail"}
ExpectedRaised(c) == IF Failing(c) = {} THEN 0 ELSE CHOOSE i \in Failing(c) : \A j \in Failing(c) : i <= j
Verdict(c) ==
  IF c.err = "waitclose-never-ended" THEN "C03.multi.waitclose-never-ended-although-every-member-had-ended"
  ELSE IF c.err # "" THEN "HARNESS." \o c.err
  ELSE IF ~c.over_all_closed THEN "C03.multi.waitclose-over-while-a-member-was-still-open"
  ELSE IF c.raised # ExpectedRaised(c) THEN "C07.multi.waitclose-did-not-raise-the-first-failing-members-error"
  ELSE IF c.send_each # "OSError" THEN "C03.multi.send_each-on-closed-members-not-refused"
  ELSE IF c.again # "returned" THEN "C07.multi.remote-error-reported-twice"
  ELSE "ok"
ASSUME PrintT(<<"verdicts", [i \in 1..Len(Cases) |-> Verdict(Cases[i])]>>)
VARIABLE x
Init == x = 0
Next == UNCHANGED x
=============================================================================
