------------------------ MODULE SocketServerLoopCases ------------------------
(* Behaviours of spec/SocketServerLoop.tla replayed on the real stand-alone socket server: a word is a sequence of connections
   <<chdirs, "return" | "raise">>; starts[i] is the directory connection i found itself in.  The model's run of the word (the fixed
   design: Fix_RestorePerConnection) gives the expected observations.
   case: [word, starts, err] *)
EXTENDS Integers, Sequences, TLC, Json, IOUtils
Cases == JsonDeserialize(IOEnv.CASES)
Launch == "launch"
\* the model, functionally: cwd after a connection's code and its end
RECURSIVE After(_, _, _)
After(cwd, chdirs, i) == IF i > Len(chdirs) THEN cwd ELSE After(chdirs[i], chdirs, i + 1)
ConnectionEnds(cwd) == Launch                                   \* Fix_RestorePerConnection = TRUE
RECURSIVE Expected(_, _, _)
Expected(word, i, cwd) == IF i > Len(word) THEN <<>> ELSE <<cwd>> \o Expected(word, i + 1, ConnectionEnds(After(cwd, word[i][1], 1)))
Verdict(c) ==
  IF c.err # "" THEN "HARNESS." \o c.err
  ELSE IF Len(c.starts) # Len(c.word) THEN "HARNESS.observations-missing"
  ELSE IF \E i \in 1..Len(c.starts) : c.starts[i] \notin {"launch", "a", "b"}
       THEN "C16.socketserver-stopped-serving-after-a-connection-whose-code-failed-or-left-the-known-directories"
  ELSE IF c.starts # Expected(c.word, 1, Launch) THEN "C16.socketserver-connection-starts-in-the-directory-an-earlier-one-left"
  ELSE "ok"
ASSUME PrintT(<<"verdicts", [i \in 1..Len(Cases) |-> Verdict(Cases[i])]>>)
VARIABLE x
Init == x = 0
Next == UNCHANGED x
=============================================================================
