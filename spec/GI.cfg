SPECIFICATION Spec
CONSTANT Calls <- K3
CONSTANT Failing <- NoFail
CONSTANT GiveBackOnFailure = FALSE
CONSTANT Fix_SnapshotLookup = TRUE
CONSTANT Fix_RegisterAtomic = TRUE
CONSTANT Fix_ExplicitCheck = TRUE
INVARIANT NoSharedId
INVARIANT AutoIdsUnique
INVARIANT RefusedUpFront
CHECK_DEADLOCK FALSE
