------------------------------- MODULE ChanLife -------------------------------
(* The life cycle of one channel on both sides of a connection: the states of the channel documentation
   (opened, sendonly, closed, deleted) as they are encoded in the code - Channel._closed, Channel._receiveclosed,
   the weak entry in ChannelFactory._channels, the strong entry in ChannelFactory._callbacks, the item queue -
   and the four channel frames (DATA, CLOSE / CLOSE_ERROR, LAST_MESSAGE).

   Side "L" holds a user channel (it may send, receive, set a callback, close, or drop its last reference);
   side "R" is the channel of a remote_exec body (it may send, receive, set a callback; the body's end closes
   it - executetask's channel.close() - and then the object goes away).

   Every handler is one step here (the write-by-write interleavings inside a handler are Gateway.tla's subject);
   the operators are functions state -> state so that the same definitions serve the exhaustive check (Next) and
   the replay of operation sequences on the real gateway pair (ChanLifeCases: Apply / Settle).

   Fix_CloseFromSendonly = FALSE is the pinned tree: a channel whose peer sent LAST_MESSAGE ("sendonly") never
   announces its own close, so the peer's callback entry stays and its endmarker is never delivered. *)
EXTENDS Integers, Sequences, FiniteSets, TLC

CONSTANTS K, Fix_CloseFromSendonly

Side == {"L", "R"}
Other(s) == IF s = "L" THEN "R" ELSE "L"

Init0 ==
  [obj |-> [s \in Side |-> "alive"], closed |-> [s \in Side |-> FALSE], rc |-> [s \in Side |-> FALSE],
   reg |-> [s \in Side |-> TRUE], hasq |-> [s \in Side |-> TRUE], queue |-> [s \in Side |-> <<>>],
   cb |-> [s \in Side |-> "none"], wantEnd |-> [s \in Side |-> FALSE], ends |-> [s \in Side |-> 0],
   cbgot |-> [s \in Side |-> 0], rgot |-> [s \in Side |-> 0], eof |-> [s \in Side |-> FALSE], dropped |-> [s \in Side |-> 0],
   awaits |-> [s \in Side |-> FALSE], errs |-> [s \in Side |-> 0], rerr |-> [s \in Side |-> 0], wire |-> [s \in Side |-> <<>>], sent |-> [s \in Side |-> 0], lateData |-> [s \in Side |-> 0]]

\* ---------------------------------------------------------------- helpers
\* ChannelFactory._no_longer_opened(id)
Nlo(st, s) ==
  [st EXCEPT !.reg[s] = FALSE, !.cb[s] = "none", !.ends[s] = IF st.cb[s] = "end" THEN @ + 1 ELSE @]
Put(st, s, m) == [st EXCEPT !.wire[s] = Append(@, m)]

\* ---------------------------------------------------------------- user operations (enabled-ness: Can*)
CanSend(st, s) == st.obj[s] = "alive" /\ ~st.closed[s] /\ st.sent[s] < K
Send(st, s) == [Put(st, s, "data") EXCEPT !.sent[s] = @ + 1]

CanSetCb(st, s) == st.obj[s] = "alive" /\ st.hasq[s]
SetCb(st, s, kind) ==      \* kind: "plain" | "end"
  LET q == st.queue[s]
      nd == Cardinality({i \in 1..Len(q) : q[i] = "d"})
      hasE == \E i \in 1..Len(q) : q[i] = "E"
      s1 == [st EXCEPT !.hasq[s] = FALSE, !.cbgot[s] = @ + nd, !.wantEnd[s] = (kind = "end"),
                       !.queue[s] = IF hasE THEN <<"E">> ELSE <<>>]
  IN IF hasE THEN [s1 EXCEPT !.ends[s] = IF kind = "end" THEN @ + 1 ELSE @]
     ELSE IF ~(st.closed[s] \/ st.rc[s]) THEN [s1 EXCEPT !.cb[s] = kind]
     ELSE s1

CanReceive(st, s) == st.obj[s] = "alive" /\ st.hasq[s] /\ st.queue[s] # <<>>
Receive(st, s) ==
  IF Head(st.queue[s]) = "d" THEN [st EXCEPT !.queue[s] = Tail(@), !.rgot[s] = @ + 1]
  ELSE IF st.errs[s] > 0 THEN [st EXCEPT !.errs[s] = @ - 1, !.rerr[s] = @ + 1]      \* the pending RemoteError is raised, once
  ELSE [st EXCEPT !.eof[s] = TRUE]        \* EOFError; the ENDMARKER is put back for other receivers

\* Channel.close() - explicit on L, executetask's at the end of the body on R
CanClose(st, s) == st.obj[s] = "alive"
CloseWith(st, s, frame) ==          \* frame: "close" | "error" (close(errortext): the remote code failed)
  IF st.closed[s] THEN st
  ELSE LET announce == ~st.rc[s] \/ (Fix_CloseFromSendonly /\ st.awaits[s])
           s1 == IF announce THEN Put(st, s, frame) ELSE st
           s2 == [s1 EXCEPT !.closed[s] = TRUE, !.rc[s] = TRUE, !.queue[s] = IF st.hasq[s] THEN Append(@, "E") ELSE @]
       IN Nlo(s2, s)
Close(st, s) == CloseWith(st, s, "close")

\* the last reference goes away: Channel.__del__, and the weak _channels entry disappears
CanDrop(st, s) == st.obj[s] = "alive"
Drop(st, s) ==
  LET s1 == [st EXCEPT !.obj[s] = "dead", !.reg[s] = FALSE] IN
  IF st.closed[s] THEN s1
  ELSE IF st.rc[s] THEN (IF Fix_CloseFromSendonly /\ st.awaits[s] THEN Put(s1, s, "close") ELSE s1)
  ELSE Put(s1, s, IF st.hasq[s] THEN "close" ELSE "last")

\* ---------------------------------------------------------------- the receiver thread of side s handles one frame
CanDeliver(st, s) == st.wire[Other(s)] # <<>>
Deliver(st, s) ==
  LET m == Head(st.wire[Other(s)])
      s0 == [st EXCEPT !.wire[Other(s)] = Tail(@)] IN
  CASE m = "data" ->       \* _local_receive
         IF s0.cb[s] # "none" THEN [s0 EXCEPT !.cbgot[s] = @ + 1, !.lateData[s] = IF s0.ends[s] > 0 THEN @ + 1 ELSE @]
         ELSE IF s0.reg[s] /\ s0.hasq[s] THEN [s0 EXCEPT !.queue[s] = Append(@, "d")]
         ELSE [s0 EXCEPT !.dropped[s] = @ + 1]
    [] m \in {"close", "error", "last"} ->   \* _local_close(id, remoteerror if m = "error", sendonly = (m = "last"))
         IF ~s0.reg[s] THEN Nlo(s0, s)          \* the error of a channel in "deleted" state is only warned about
         ELSE LET s1 == [s0 EXCEPT !.closed[s] = IF m # "last" THEN TRUE ELSE @,
                                    !.errs[s] = IF m = "error" THEN @ + 1 ELSE @,
                                    !.queue[s] = IF s0.hasq[s] THEN Append(@, "E") ELSE @,
                                    !.awaits[s] = IF m = "last" THEN TRUE ELSE @]
              IN [Nlo(s1, s) EXCEPT !.rc[s] = TRUE]

\* ---------------------------------------------------------------- as a transition system
VARIABLE st
Init == st = Init0
Next ==
  \/ \E s \in Side : \/ CanSend(st, s) /\ st' = Send(st, s)
                     \/ CanSetCb(st, s) /\ \E k \in {"plain", "end"} : st' = SetCb(st, s, k)
                     \/ CanReceive(st, s) /\ st' = Receive(st, s)
                     \/ CanDeliver(st, s) /\ st' = Deliver(st, s)
  \/ CanClose(st, "L") /\ st' = Close(st, "L")
  \/ CanDrop(st, "L") /\ st' = Drop(st, "L")
  \/ CanClose(st, "R") /\ ~st.closed["R"] /\ st' = Drop(Close(st, "R"), "R")     \* the body ends
  \/ CanClose(st, "R") /\ ~st.closed["R"] /\ st' = Drop(CloseWith(st, "R", "error"), "R")     \* the body raises
Spec == Init /\ [][Next]_st

\* ---------------------------------------------------------------- properties
\* both sides are through with the channel and nothing is in flight
Done == /\ \A s \in Side : st.wire[s] = <<>>
        /\ \A s \in Side : st.obj[s] = "dead" \/ st.closed[s]
\* C18: nothing about the channel stays in the factory tables
NoLeak == Done => \A s \in Side : ~st.reg[s] /\ st.cb[s] = "none"
\* C10: a requested endmarker is delivered exactly once, and nothing after it
EndAtMostOnce == \A s \in Side : st.ends[s] <= 1
EndDelivered == Done => \A s \in Side : st.wantEnd[s] => st.ends[s] = 1
NothingAfterEnd == \A s \in Side : st.lateData[s] = 0
\* C03: whoever saw EOF sees the channel closed or sendonly-ended: nothing is queued behind the ENDMARKER
NothingBehindEndmarker == \A s \in Side : \A i, j \in 1..Len(st.queue[s]) : (i < j /\ st.queue[s][i] = "E") => st.queue[s][j] = "E"
=============================================================================
