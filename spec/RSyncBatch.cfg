INIT Init
NEXT Next
CHECK_DEADLOCK FALSE
CONSTANT Fix_FileModeExact = TRUE
CONSTANT Fix_RelLinkAsIs = TRUE
