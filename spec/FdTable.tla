-------------------------------- MODULE FdTable --------------------------------
(* The file-descriptor table of a popen worker: init_popen_io and what remote code can do to it afterwards.

   init_popen_io:  a = dup(0) (the protocol's input);  n = open(devnull);  dup2(n, 0);  close(n);
                   b = dup(1) (the protocol's output); n = open(devnull);  dup2(n, 1);  close(n);
                   sys.stdin = fdopen(0, closefd=False); sys.stdout = fdopen(1, closefd=False)
   open()/dup() return the lowest free descriptor.  Descriptors hold a description: "pin" / "pout" (the pipes to the initiator),
   "null", "err" (inherited stderr), "file" (opened by remote code), "free".

   Remote code may write raw bytes to fd 1 / 2, rebind sys.stdout / sys.stdin (the old object is finalised: it closes its
   descriptor iff it owns it), open and close files.

   Fix_ClosefdFalse = FALSE: the sys.stdin / sys.stdout objects own descriptors 0 / 1 (the gevent fdopen of a seeded change).
   The operators are functions state -> state (FdTableCases enumerates operation sequences and judges their replays). *)
EXTENDS Integers, Sequences, FiniteSets, TLC

CONSTANT Fix_ClosefdFalse
N == 9                                   \* descriptors 0..N
Fds == 0..N
LowestFree(t) == CHOOSE n \in Fds : t[n] = "free" /\ \A m \in Fds : m < n => t[m] # "free"

\* the table right after the interpreter started: 0 / 1 are the pipes, 2 is stderr
Boot == [n \in Fds |-> CASE n = 0 -> "pin" [] n = 1 -> "pout" [] n = 2 -> "err" [] OTHER -> "free"]
Dup(t, n) == [t EXCEPT ![LowestFree(t)] = t[n]]
OpenAs(t, what) == [t EXCEPT ![LowestFree(t)] = what]
Dup2(t, from, to) == [t EXCEPT ![to] = t[from]]
Close(t, n) == [t EXCEPT ![n] = "free"]

AfterInit ==
  LET t1 == Dup(Boot, 0)                a == LowestFree(Boot)
      n1 == LowestFree(t1)              t2 == Close(Dup2(OpenAs(t1, "null"), n1, 0), n1)
      b  == LowestFree(t2)              t3 == Dup(t2, 1)
      n2 == LowestFree(t3)              t4 == Close(Dup2(OpenAs(t3, "null"), n2, 1), n2)
  IN [t |-> t4, protoIn |-> a, protoOut |-> b,
      stdoutOwned |-> TRUE, stdinOwned |-> TRUE,      \* the sys.stdout / sys.stdin objects of init_popen_io are still referenced
      files |-> <<>>]                                  \* descriptors of files opened by remote code, most recent last

\* ---------------------------------------------------------------- what remote code does
\* os.write(n, ...): where the bytes go
RawWrite(st, n) == CASE st.t[n] = "free" -> "EBADF" [] st.t[n] = "pout" -> "PROTOCOL" [] st.t[n] = "pin" -> "PROTOCOL" [] OTHER -> "harmless"
\* sys.stdout = something else; the old object is collected
RebindStdout(st) == IF ~st.stdoutOwned THEN st
                    ELSE [st EXCEPT !.stdoutOwned = FALSE, !.t = IF Fix_ClosefdFalse THEN @ ELSE Close(@, 1)]
RebindStdin(st) == IF ~st.stdinOwned THEN st
                   ELSE [st EXCEPT !.stdinOwned = FALSE, !.t = IF Fix_ClosefdFalse THEN @ ELSE Close(@, 0)]
CanOpen(st) == \E n \in Fds : st.t[n] = "free"
OpenFile(st) == [st EXCEPT !.files = Append(@, LowestFree(st.t)), !.t = OpenAs(@, "file")]
CanCloseFile(st) == st.files # <<>>
CloseFile(st) == [st EXCEPT !.t = Close(@, st.files[Len(st.files)]), !.files = SubSeq(@, 1, Len(@) - 1)]

\* ---------------------------------------------------------------- as a transition system
VARIABLE st
Init == st = AfterInit
Next == \/ st' = RebindStdout(st) \/ st' = RebindStdin(st)
        \/ CanOpen(st) /\ Len(st.files) < 3 /\ st' = OpenFile(st)
        \/ CanCloseFile(st) /\ st' = CloseFile(st)
Spec == Init /\ [][Next]_st

\* C06: nothing remote code prints or writes to its standard descriptors can enter the protocol stream, and no file it opens
\* lands on a standard descriptor or on a protocol descriptor
StdIsNotProtocol == \A n \in 0..2 : st.t[n] \notin {"pin", "pout"}
RawWritesHarmless == RawWrite(st, 1) = "harmless" /\ RawWrite(st, 2) = "harmless"
FilesAboveStd == \A i \in 1..Len(st.files) : st.files[i] > 2 /\ st.files[i] \notin {st.protoIn, st.protoOut}
ProtocolOpen == st.t[st.protoIn] = "pin" /\ st.t[st.protoOut] = "pout"
=============================================================================
