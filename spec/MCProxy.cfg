SPECIFICATION Spec
CONSTANT MasterFrames <- MF
CONSTANT SubFrames <- SF
CONSTANT Requests <- RQ
INVARIANT DownstreamFifo
INVARIANT UpstreamFifo
INVARIANT ControlInOrder
PROPERTY DownstreamDelivers
PROPERTY ControlReaches
PROPERTY KillReaches
CHECK_DEADLOCK FALSE
