SPECIFICATION Spec
INVARIANT RejectedMeansNothingSent
INVARIANT StatementAgrees
PROPERTY Answered
CHECK_DEADLOCK FALSE
