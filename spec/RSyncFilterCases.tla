---------------------------- MODULE RSyncFilterCases ----------------------------
(* RSync with an overridden filter(path) (rsync.py: _send_directory asks the filter for every entry of a directory, with the path of
   the entry; a rejected entry is neither listed nor descended into).
   case: [src (seq of <<path, kind>>, path = seq of components), reject (seq of paths), prior (entries at the target before),
          delete, got (entries at the target afterwards), asked_outside_source, err]
   Reference: the source as far as the sync is concerned is Kept = the entries with no rejected ancestor-or-self.  Afterwards the
   target holds Kept; with delete nothing else (a rejected name is "not in the list" of its directory: it goes, with everything
   below it); without delete every prior entry is still there (the generator never lets a prior entry collide in kind with a source
   entry of the same path). *)
EXTENDS Integers, Sequences, FiniteSets, TLC, Json, IOUtils
Cases == JsonDeserialize(IOEnv.CASES)
ToSet(s) == {s[i] : i \in 1..Len(s)}
IsPrefixPath(q, p) == Len(q) <= Len(p) /\ \A i \in 1..Len(q) : q[i] = p[i]
Kept(c) == {e \in ToSet(c.src) : \A q \in ToSet(c.reject) : ~IsPrefixPath(q, e[1])}
Expected(c) == Kept(c) \cup (IF c.delete THEN {} ELSE ToSet(c.prior))
Verdict(c) ==
  LET got == ToSet(c.got) IN
  IF c.err # "" THEN "C17.filter.send-raised-" \o c.err
  ELSE IF c.asked_outside_source THEN "C17.filter.asked-with-a-path-that-is-not-below-the-source-directory"
  ELSE IF \E e \in Kept(c) : e \notin got THEN "C17.filter.accepted-source-entry-missing-at-the-target"
  ELSE IF \E e \in got : e \in ToSet(c.src) /\ e \notin Kept(c) /\ e \notin ToSet(c.prior) THEN "C17.filter.rejected-entry-was-transferred"
  ELSE IF c.delete /\ got # Expected(c) THEN "C17.filter.delete-left-or-removed-the-wrong-entries"
  ELSE IF ~c.delete /\ got # Expected(c) THEN "C17.filter.prior-entries-touched-without-delete"
  ELSE "ok"
ASSUME PrintT(<<"verdicts", [i \in 1..Len(Cases) |-> Verdict(Cases[i])]>>)
VARIABLE x
Init == x = 0
Next == UNCHANGED x
=============================================================================
