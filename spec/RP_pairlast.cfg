SPECIFICATION Spec
CONSTANTS
  NT = 2
  NFiles = 2
  NLinks = 1
  MayCrash = FALSE
  Fix_LinksToAll = TRUE
  Fix_ServeAll = TRUE
  Fix_PairByRequest = FALSE
  Fix_NoPayloadCache = TRUE
INVARIANT Pairing
INVARIANT CompleteAtReturn
INVARIANT CallbackAtMostOnce
INVARIANT RaisedOnlyAfterFailure
INVARIANT InsideLanguage
PROPERTY SendEnds
PROPERTY SendReturns
CHECK_DEADLOCK FALSE
