--------------------------- MODULE RSyncProtoCases ---------------------------
(* Verdicts for recorded sender-side traces of real RSync.send() runs: fold the sender-observable automaton
   (RSyncProtoAbs, the language RSyncProto.tla is checked to stay inside) over each trace. *)
EXTENDS Integers, Sequences, FiniteSets, TLC, Json, IOUtils, RSyncProtoAbs

Cases == JsonDeserialize(IOEnv.CASES)
ToSet(s) == {s[i] : i \in 1..Len(s)}
Verdict(c) == LET v == Finish(Run(c.nt, ToSet(c.mayfail), c.trace)) IN
              IF v # "ok" THEN v
              ELSE IF ~c.covered THEN "C17.a-target-lacks-or-differs-in-a-source-entry-after-a-multi-target-send"
              ELSE "ok"
ASSUME PrintT(<<"verdicts", [i \in 1..Len(Cases) |-> Verdict(Cases[i])]>>)
VARIABLE x
Init == x = 0
Next == UNCHANGED x
=============================================================================
