----------------------------- MODULE WorkerPool -----------------------------
(* gateway_base.WorkerPool / Reply at critical-section granularity.

   Threads: spawners (each submits its tasks one after the other), the
   integrated primary thread (optional), one trigger_shutdown caller
   (optional), waitall callers, and one worker thread per task that was not
   routed to the primary thread.

   One action per critical section / blocking point of the code:
     spawn():                SpLock (take _running_lock, check _shuttingdown, add to
                             _running, route: mailbox / wait for previous (main_thread_only)
                             / start thread), SpWaitPrev (Reply.waitfinish under the lock)
     integrate_as_primary:   PrWake (ready.wait returns), PrRead (read mailbox, unlocked),
                             PrStart/PrEnd (Reply.run), PrRemove (_perform_spawn's locked part),
                             PrPost (the locked epilogue of the loop)
     _perform_spawn thread:  WkStart, WkEnd, WkRemove
     trigger_shutdown():     ShDo
     waitall():              WaCheck, WaWake, WaTimeout

   Fix_KeepPendingTask = FALSE is the design of the pinned tree: trigger_shutdown
   clears the mailbox unconditionally and the primary loop leaves as soon as it
   sees _shuttingdown.  TRUE is the repaired design.
*)
EXTENDS Integers, Sequences, FiniteSets, TLC

CONSTANTS Spawners,            \* set of spawner thread names
          TasksPer,            \* tasks per spawner (1..TasksPer)
          Waiters,             \* set of waitall caller names
          HasPrimary,          \* BOOLEAN
          MainThreadOnly,      \* BOOLEAN: execmodel backend
          HasShutter,          \* BOOLEAN: somebody calls trigger_shutdown
          TimedWaiters,        \* subset of Waiters that pass a timeout
          Fix_KeepPendingTask  \* BOOLEAN

NONE == "none"            \* no lock owner
TNONE == <<"none", 0>>    \* no task (tasks are <<spawner, k>>)
Tasks == Spawners \X (1..TasksPer)

VARIABLES
  lock,        \* owner of _running_lock or NONE
  running,     \* _running
  shutting,    \* _shuttingdown
  mbox,        \* _primary_thread_task
  ready,       \* _primary_thread_task_ready (event flag)
  resReady,    \* [Tasks -> BOOLEAN]  Reply._result_ready
  waitEvs,     \* _waitall_events: set of waiters whose event is registered
  evSet,       \* [Waiters -> BOOLEAN]
  spc, snext,  \* spawner pc and index of the task being / next submitted
  ppc, preply, \* primary thread pc and its local 'reply'
  wkpc,        \* [Tasks -> {"none","start","run","remove","done"}] worker threads
  shpc,        \* shutter pc
  wapc,        \* waiter pc
  \* ghosts (observable history)
  accepted, refused, started, finished, waitRes, sawEmpty

vars == <<lock, running, shutting, mbox, ready, resReady, waitEvs, evSet, spc, snext,
          ppc, preply, wkpc, shpc, wapc, accepted, refused, started, finished, waitRes, sawEmpty>>

Init ==
  /\ lock = NONE /\ running = {} /\ shutting = FALSE /\ mbox = TNONE /\ ready = FALSE
  /\ resReady = [t \in Tasks |-> FALSE]
  /\ waitEvs = {} /\ evSet = [w \in Waiters |-> FALSE]
  /\ spc = [s \in Spawners |-> "idle"] /\ snext = [s \in Spawners |-> 1]
  /\ ppc = (IF HasPrimary THEN "wait" ELSE "absent") /\ preply = TNONE
  /\ wkpc = [t \in Tasks |-> "none"]
  /\ shpc = (IF HasShutter THEN "idle" ELSE "absent")
  /\ wapc = [w \in Waiters |-> "idle"]
  /\ accepted = {} /\ refused = {} /\ started = [t \in Tasks |-> 0] /\ finished = {}
  /\ waitRes = [w \in Waiters |-> "none"] /\ sawEmpty = [w \in Waiters |-> FALSE]

\* ghost: a waitall call in progress has seen the moment "no accepted task unfinished"
NoteEmpty(acc, fin) ==
  sawEmpty' = [w \in Waiters |-> sawEmpty[w] \/ (wapc[w] \in {"checking", "waiting"} /\ acc \subseteq fin)]

Cur(s) == <<s, snext[s]>>
Advance(s) ==
  IF snext[s] < TasksPer THEN spc' = [spc EXCEPT ![s] = "idle"] /\ snext' = [snext EXCEPT ![s] = @ + 1]
  ELSE spc' = [spc EXCEPT ![s] = "done"] /\ UNCHANGED snext

\* main_thread_only pools with a primary thread: the gateway submits the next task only after
\* the previous task's function has returned (property text); other pools: no gating
Gate(s) == (MainThreadOnly /\ HasPrimary) => (\A t \in accepted : t \in finished)

\* ----------------------------------------------------------------- spawn()
SpLock(s) ==
  /\ spc[s] = "idle" /\ lock = NONE /\ Gate(s)
  /\ LET t == Cur(s) IN
     IF shutting THEN
        /\ refused' = refused \cup {t} /\ Advance(s)
        /\ UNCHANGED <<lock, running, mbox, ready, wkpc, accepted, sawEmpty>>
     ELSE
        /\ running' = running \cup {t} /\ accepted' = accepted \cup {t}
        /\ NoteEmpty(accepted \cup {t}, finished)
        /\ UNCHANGED refused
        /\ IF HasPrimary /\ ~ready THEN
              mbox' = t /\ ready' = TRUE /\ Advance(s) /\ UNCHANGED <<lock, wkpc>>
           ELSE IF HasPrimary /\ MainThreadOnly /\ mbox # TNONE THEN
              lock' = s /\ spc' = [spc EXCEPT ![s] = "waitprev"] /\ UNCHANGED <<mbox, ready, wkpc, snext>>
           ELSE
              wkpc' = [wkpc EXCEPT ![t] = "start"] /\ Advance(s) /\ UNCHANGED <<lock, mbox, ready>>
  /\ UNCHANGED <<shutting, resReady, waitEvs, evSet, ppc, preply, shpc, wapc, started, finished, waitRes>>

SpWaitPrev(s) ==     \* self._primary_thread_task.waitfinish() while holding the lock
  /\ spc[s] = "waitprev" /\ resReady[mbox]
  /\ mbox' = Cur(s) /\ ready' = TRUE /\ lock' = NONE /\ Advance(s)
  /\ UNCHANGED <<running, shutting, resReady, waitEvs, evSet, ppc, preply, wkpc, shpc, wapc,
                 accepted, refused, started, finished, waitRes, sawEmpty>>

\* ------------------------------------------- integrate_as_primary_thread()
PrWake ==
  /\ ppc = "wait" /\ ready
  /\ ppc' = "read"
  /\ UNCHANGED <<lock, running, shutting, mbox, ready, resReady, waitEvs, evSet, spc, snext, preply,
                 wkpc, shpc, wapc, accepted, refused, started, finished, waitRes, sawEmpty>>

PrRead ==
  /\ ppc = "read"
  /\ preply' = mbox
  /\ ppc' = IF mbox = TNONE THEN "exit" ELSE "start"
  /\ UNCHANGED <<lock, running, shutting, mbox, ready, resReady, waitEvs, evSet, spc, snext,
                 wkpc, shpc, wapc, accepted, refused, started, finished, waitRes, sawEmpty>>

PrStart ==
  /\ ppc = "start"
  /\ started' = [started EXCEPT ![preply] = @ + 1]
  /\ ppc' = "run"
  /\ UNCHANGED <<lock, running, shutting, mbox, ready, resReady, waitEvs, evSet, spc, snext, preply,
                 wkpc, shpc, wapc, accepted, refused, finished, waitRes, sawEmpty>>

PrEnd ==       \* function returned; Reply.run sets _result_ready
  /\ ppc = "run"
  /\ finished' = finished \cup {preply}
  /\ resReady' = [resReady EXCEPT ![preply] = TRUE]
  /\ NoteEmpty(accepted, finished \cup {preply})
  /\ ppc' = "remove"
  /\ UNCHANGED <<lock, running, shutting, mbox, ready, waitEvs, evSet, spc, snext, preply,
                 wkpc, shpc, wapc, accepted, refused, started, waitRes>>

Remove(t) ==   \* locked part of _perform_spawn
  /\ running' = running \ {t}
  /\ IF running \ {t} = {} THEN
        /\ evSet' = [w \in Waiters |-> evSet[w] \/ w \in waitEvs]
        /\ waitEvs' = {}
     ELSE UNCHANGED <<evSet, waitEvs>>

PrRemove ==
  /\ ppc = "remove" /\ lock = NONE
  /\ Remove(preply)
  /\ ppc' = "post"
  /\ UNCHANGED <<lock, shutting, mbox, ready, resReady, spc, snext, preply, wkpc, shpc, wapc,
                 accepted, refused, started, finished, waitRes, sawEmpty>>

PrPost ==
  /\ ppc = "post" /\ lock = NONE
  /\ IF Fix_KeepPendingTask THEN
        IF preply = mbox THEN
           IF shutting THEN ppc' = "exit" /\ UNCHANGED ready
           ELSE ready' = FALSE /\ ppc' = "wait"
        ELSE ppc' = "wait" /\ UNCHANGED ready       \* a newer task was handed over: run it
     ELSE
        IF shutting THEN ppc' = "exit" /\ UNCHANGED ready
        ELSE IF preply = mbox THEN ready' = FALSE /\ ppc' = "wait"
        ELSE ppc' = "wait" /\ UNCHANGED ready
  /\ UNCHANGED <<lock, running, shutting, mbox, resReady, waitEvs, evSet, spc, snext, preply,
                 wkpc, shpc, wapc, accepted, refused, started, finished, waitRes, sawEmpty>>

\* --------------------------------------------------- _perform_spawn thread
WkStart(t) ==
  /\ wkpc[t] = "start"
  /\ started' = [started EXCEPT ![t] = @ + 1]
  /\ wkpc' = [wkpc EXCEPT ![t] = "run"]
  /\ UNCHANGED <<lock, running, shutting, mbox, ready, resReady, waitEvs, evSet, spc, snext, ppc, preply,
                 shpc, wapc, accepted, refused, finished, waitRes, sawEmpty>>

WkEnd(t) ==
  /\ wkpc[t] = "run"
  /\ finished' = finished \cup {t}
  /\ resReady' = [resReady EXCEPT ![t] = TRUE]
  /\ NoteEmpty(accepted, finished \cup {t})
  /\ wkpc' = [wkpc EXCEPT ![t] = "remove"]
  /\ UNCHANGED <<lock, running, shutting, mbox, ready, waitEvs, evSet, spc, snext, ppc, preply,
                 shpc, wapc, accepted, refused, started, waitRes>>

WkRemove(t) ==
  /\ wkpc[t] = "remove" /\ lock = NONE
  /\ Remove(t)
  /\ wkpc' = [wkpc EXCEPT ![t] = "done"]
  /\ UNCHANGED <<lock, shutting, mbox, ready, resReady, spc, snext, ppc, preply, shpc, wapc,
                 accepted, refused, started, finished, waitRes, sawEmpty>>

\* -------------------------------------------------------- trigger_shutdown
ShDo ==
  /\ shpc = "idle" /\ lock = NONE
  /\ shutting' = TRUE
  /\ IF HasPrimary THEN
        /\ ready' = TRUE
        /\ mbox' = IF Fix_KeepPendingTask /\ mbox # TNONE /\ mbox \in running THEN mbox ELSE TNONE
     ELSE UNCHANGED <<ready, mbox>>
  /\ shpc' = "done"
  /\ UNCHANGED <<lock, running, resReady, waitEvs, evSet, spc, snext, ppc, preply, wkpc, wapc,
                 accepted, refused, started, finished, waitRes, sawEmpty>>

\* ----------------------------------------------------------------- waitall
WaCall(w) ==
  /\ wapc[w] = "idle"
  /\ wapc' = [wapc EXCEPT ![w] = "checking"]
  /\ sawEmpty' = [sawEmpty EXCEPT ![w] = accepted \subseteq finished]
  /\ UNCHANGED <<lock, running, shutting, mbox, ready, resReady, waitEvs, evSet, spc, snext, ppc, preply,
                 wkpc, shpc, accepted, refused, started, finished, waitRes>>

WaCheck(w) ==
  /\ wapc[w] = "checking" /\ lock = NONE
  /\ IF running = {} THEN
        wapc' = [wapc EXCEPT ![w] = "done"] /\ waitRes' = [waitRes EXCEPT ![w] = "true"] /\ UNCHANGED waitEvs
     ELSE
        wapc' = [wapc EXCEPT ![w] = "waiting"] /\ waitEvs' = waitEvs \cup {w} /\ UNCHANGED waitRes
  /\ UNCHANGED <<lock, running, shutting, mbox, ready, resReady, evSet, spc, snext, ppc, preply,
                 wkpc, shpc, accepted, refused, started, finished, sawEmpty>>

WaWake(w) ==
  /\ wapc[w] = "waiting" /\ evSet[w]
  /\ wapc' = [wapc EXCEPT ![w] = "done"] /\ waitRes' = [waitRes EXCEPT ![w] = "true"]
  /\ UNCHANGED <<lock, running, shutting, mbox, ready, resReady, waitEvs, evSet, spc, snext, ppc, preply,
                 wkpc, shpc, accepted, refused, started, finished, sawEmpty>>

\* a timed waitall gives up (time-outs are long: only when nothing else can move)
Quiescent ==
  /\ \A s \in Spawners : spc[s] = "done" \/ (spc[s] = "idle" /\ (lock # NONE \/ ~Gate(s))) \/ (spc[s] = "waitprev" /\ ~resReady[mbox])
  /\ ppc \in {"absent", "exit"} \/ (ppc = "wait" /\ ~ready)
  /\ \A t \in Tasks : wkpc[t] \in {"none", "done"}
  /\ shpc \in {"absent", "done"}
  /\ \A w \in Waiters : wapc[w] = "done" \/ (wapc[w] = "waiting" /\ ~evSet[w]) \/ wapc[w] = "idle"

WaTimeout(w) ==
  /\ w \in TimedWaiters /\ wapc[w] = "waiting" /\ ~evSet[w] /\ Quiescent
  /\ wapc' = [wapc EXCEPT ![w] = "done"] /\ waitRes' = [waitRes EXCEPT ![w] = "false"]
  /\ UNCHANGED <<lock, running, shutting, mbox, ready, resReady, waitEvs, evSet, spc, snext, ppc, preply,
                 wkpc, shpc, accepted, refused, started, finished, sawEmpty>>

Next ==
  \/ \E s \in Spawners : SpLock(s) \/ SpWaitPrev(s)
  \/ PrWake \/ PrRead \/ PrStart \/ PrEnd \/ PrRemove \/ PrPost
  \/ \E t \in Tasks : WkStart(t) \/ WkEnd(t) \/ WkRemove(t)
  \/ ShDo
  \/ \E w \in Waiters : WaCall(w) \/ WaCheck(w) \/ WaWake(w) \/ WaTimeout(w)

Fairness ==
  /\ \A s \in Spawners : WF_vars(SpLock(s)) /\ WF_vars(SpWaitPrev(s))
  /\ WF_vars(PrWake) /\ WF_vars(PrRead) /\ WF_vars(PrStart) /\ WF_vars(PrEnd) /\ WF_vars(PrRemove) /\ WF_vars(PrPost)
  /\ \A t \in Tasks : WF_vars(WkStart(t)) /\ WF_vars(WkEnd(t)) /\ WF_vars(WkRemove(t))
  /\ WF_vars(ShDo)
  /\ \A w \in Waiters : WF_vars(WaCall(w)) /\ WF_vars(WaCheck(w)) /\ WF_vars(WaWake(w)) /\ WF_vars(WaTimeout(w))

Spec == Init /\ [][Next]_vars /\ Fairness

\* ------------------------------------------------------------- properties
TypeOK ==
  /\ lock \in Spawners \cup {NONE} /\ running \subseteq Tasks /\ mbox \in Tasks \cup {TNONE}
  /\ \A t \in Tasks : started[t] \in 0..2

AtMostOnce == \A t \in Tasks : started[t] <= 1
OnlyAccepted == \A t \in Tasks : started[t] > 0 => t \in accepted
RunningIsAcceptedUnremoved == finished \subseteq accepted /\ (accepted \ finished) \subseteq running
WaitallTruthful == \A w \in Waiters : waitRes[w] = "true" => sawEmpty[w]
RefusedOnlyAfterShutdown == refused # {} => shutting

\* liveness
EveryAcceptedTaskRuns == \A t \in Tasks : (t \in accepted) ~> (t \in finished)
WaitallReturns == \A w \in Waiters : (wapc[w] = "checking") ~> (wapc[w] = "done")
PrimaryLeaves == HasPrimary => ((shutting) ~> (ppc = "exit"))
AllSpawnsAnswered == \A s \in Spawners : <>(spc[s] = "done")
=============================================================================
