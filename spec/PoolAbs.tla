------------------------------- MODULE PoolAbs -------------------------------
(* Property automaton of C09 over observable WorkerPool events.  It is the
   oracle: a recorded execution is a violation iff the automaton reaches a
   state with bad # "".  Deterministic, so validating a trace is linear.

   Event record: [ev, op, task, who, res, flag]
     call/ret spawn (task, who; res = "ok" | "ValueError" | other exception name)
     task_start / task_end (task; flag = the function raises)
     call/ret shutdown
     call/ret waitall (who; call.flag = timed; ret.res = "true" | "false" | exc)
     call/ret get (task; call.flag = timed; ret.res = "value" | "raised" | "OSError" | exc;
                   ret.flag = the value / exception is exactly the function's)
     call/ret integrate
     end     all threads finished
     stuck   no thread can move (res = names of blocked threads)
     died    a thread died with an unexpected exception (who, res)
*)
EXTENDS Integers, Sequences, FiniteSets, TLC

Init0 == [ acc |-> {}, spawning |-> {}, late |-> {}, started |-> {}, ended |-> {}, raisers |-> {},
           shCalled |-> FALSE, shDone |-> FALSE,
           waitAct |-> {}, sawEmpty |-> {}, getTimedOut |-> {},
           intAct |-> FALSE, bad |-> "" ]

Unfinished(st) == st.acc \ st.ended
Idle(st) == Unfinished(st) = {} /\ st.spawning = {}

Flag(st, why) == IF st.bad = "" THEN [st EXCEPT !.bad = why] ELSE st

\* every active waitall notes a moment at which no accepted task was unfinished
Note(st) == IF Unfinished(st) = {} THEN [st EXCEPT !.sawEmpty = @ \cup st.waitAct] ELSE st

Step(st, e) ==
  LET t == e.task IN
  Note(
  CASE e.ev = "call" /\ e.op = "spawn" ->
         [st EXCEPT !.spawning = @ \cup {t}, !.late = IF st.shDone THEN @ \cup {t} ELSE @]
    [] e.ev = "ret" /\ e.op = "spawn" ->
         LET s1 == [st EXCEPT !.spawning = @ \ {t}] IN
         IF e.res = "ok" THEN
            IF t \in st.late THEN Flag(s1, "C09.spawn-accepted-after-shutdown")
            ELSE [s1 EXCEPT !.acc = @ \cup {t}]
         ELSE IF e.res = "ValueError" THEN
            IF st.shCalled THEN s1 ELSE Flag(s1, "C09.spawn-refused-without-shutdown")
         ELSE Flag(s1, "C09.spawn-raised-unexpected-exception")
    [] e.ev = "task_start" ->
         IF t \in st.started THEN Flag(st, "C09.task-executed-twice")
         ELSE IF t \notin (st.acc \cup st.spawning) THEN Flag(st, "C09.unaccepted-task-executed")
         ELSE [st EXCEPT !.started = @ \cup {t}]
    [] e.ev = "task_end" ->
         [st EXCEPT !.ended = @ \cup {t}, !.raisers = IF e.flag THEN @ \cup {t} ELSE @]
    [] e.ev = "call" /\ e.op = "shutdown" -> [st EXCEPT !.shCalled = TRUE]
    [] e.ev = "ret" /\ e.op = "shutdown" -> [st EXCEPT !.shDone = TRUE]
    [] e.ev = "call" /\ e.op = "waitall" ->
         [st EXCEPT !.waitAct = @ \cup {e.who}, !.sawEmpty = @ \ {e.who}]
    [] e.ev = "ret" /\ e.op = "waitall" ->
         LET s1 == [st EXCEPT !.waitAct = @ \ {e.who}] IN
         IF e.res = "true" THEN
            IF e.who \in Note(st).sawEmpty THEN s1 ELSE Flag(s1, "C09.waitall-true-with-unfinished-task")
         ELSE IF e.res = "false" THEN
            IF Idle(st) THEN Flag(s1, "C09.lost-wakeup-waitall-timed-out-while-idle") ELSE s1
         ELSE Flag(s1, "C09.waitall-raised")
    [] e.ev = "call" /\ e.op = "get" -> st
    [] e.ev = "ret" /\ e.op = "get" ->
         IF e.res = "value" THEN
            IF t \in st.ended /\ t \notin st.raisers /\ e.flag THEN st ELSE Flag(st, "C09.reply-value-not-the-functions")
         ELSE IF e.res = "raised" THEN
            IF t \in st.ended /\ t \in st.raisers /\ e.flag THEN st ELSE Flag(st, "C09.reply-exception-not-the-functions")
         ELSE IF e.res = "OSError" THEN
            IF t \in st.ended THEN Flag(st, "C09.get-timed-out-on-finished-task")
            ELSE [st EXCEPT !.getTimedOut = @ \cup {t}]
         ELSE Flag(st, "C09.get-raised-unexpected-exception")
    [] e.ev = "call" /\ e.op = "integrate" -> [st EXCEPT !.intAct = TRUE]
    [] e.ev = "ret" /\ e.op = "integrate" ->
         IF st.shCalled THEN [st EXCEPT !.intAct = FALSE]
         ELSE Flag(st, "C09.primary-left-without-shutdown")
    [] e.ev = "end" ->
         IF st.acc \ st.started # {} THEN Flag(st, "C09.accepted-task-never-executed")
         ELSE IF Unfinished(st) # {} THEN Flag(st, "C09.accepted-task-unfinished-at-end")
         ELSE st
    [] e.ev = "stuck" ->
         IF st.acc \ st.started # {} THEN Flag(st, "C09.accepted-task-never-executed")
         ELSE IF st.waitAct # {} /\ Idle(st) THEN Flag(st, "C09.lost-wakeup-waitall-never-returns")
         ELSE IF st.intAct /\ st.shDone THEN Flag(st, "C09.primary-never-leaves-after-shutdown")
         ELSE Flag(st, "C09.stuck")
    [] e.ev = "died" -> Flag(st, "C09.thread-died")
    [] OTHER -> Flag(st, "TRACE.unknown-event"))

RECURSIVE Run(_, _, _)
Run(st, evs, i) == IF i > Len(evs) THEN st ELSE Run(Step(st, evs[i]), evs, i + 1)

Verdict(evs) == LET f == Run(Init0, evs, 1) IN IF f.bad = "" THEN "ok" ELSE f.bad
=============================================================================
