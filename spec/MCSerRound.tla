----------------------------- MODULE MCSerRound -----------------------------
(* M1 for C01/C12/C13: every value of a bounded grammar is encoded by the
   reference encoder and fed to the decoder machine, one action per opcode.  *)
EXTENDS Serializer
CONSTANT Big            \* FALSE: quick alphabet; TRUE: thorough alphabet
VARIABLES v, st
vars == <<v, st>>

I(neg, ds) == <<"int", neg, ds>>
Ints == { I(FALSE, <<0>>), I(TRUE, <<1>>), I(FALSE, <<1>>),
          I(FALSE, <<2,1,4,7,4,8,3,6,4,7>>), I(FALSE, <<2,1,4,7,4,8,3,6,4,8>>),
          I(TRUE, <<2,1,4,7,4,8,3,6,4,8>>), I(TRUE, <<2,1,4,7,4,8,3,6,4,9>>),
          I(FALSE, <<1,0,0,0,0,0,0,0,0,0,0,0,0,0,0,0,0,0,0,0,0>>),
          I(TRUE,  <<1,0,0,0,0,0,0,0,0,0,0,0,0,0,0,0,0,0,0,0,0>>) }
Floats == { <<"float", <<0,0,0,0,0,0,0,0>>>>,        \* 0.0
            <<"float", <<128,0,0,0,0,0,0,0>>>>,      \* -0.0
            <<"float", <<127,248,0,0,0,0,0,0>>>>,    \* nan
            <<"float", <<127,240,0,0,0,0,0,0>>>>,    \* inf
            <<"float", <<63,240,0,0,0,0,0,0>>>> }    \* 1.0
Others == { <<"none">>, <<"bool", TRUE>>, <<"bool", FALSE>>,
            <<"complex", <<63,240,0,0,0,0,0,0, 192,0,0,0,0,0,0,0>>>>,
            <<"bytes", <<>>>>, <<"bytes", <<81>>>>,
            <<"str", <<>>>>, <<"str", <<97>>>>, <<"str", <<233>>>>, <<"str", <<1114111>>>>,
            <<"str", <<8364, 65>>>>, <<"str", <<65279, 97>>>>, <<"str", <<55296>>>>, <<"str", <<97, 56448>>>>,    \* lone surrogates (U+D800, U+DC80)
            <<"bad">> }
Leaves == Ints \cup Floats \cup Others

Seqs2(S) == {<<>>} \cup {<<a>> : a \in S} \cup {<<a, b>> : a \in S, b \in S}
DSeqs2(S) == {<<>>} \cup {<<a>> : a \in S} \cup {p \in S \X S : ~MaybePyEq(p[1], p[2])}
HS(S) == {x \in S : Hashable(x)}

Containers(S, D) ==
       {<<"list", s>> : s \in Seqs2(S)} \cup {<<"tuple", s>> : s \in Seqs2(S)}
  \cup {<<"set", s>> : s \in DSeqs2(HS(S))} \cup {<<"frozenset", s>> : s \in DSeqs2(HS(S))}
  \cup {<<"dict", <<>>>>} \cup {<<"dict", <<<<k, x>>>>>> : k \in HS(S), x \in S}
  \cup {<<"dict", <<<<kk[1], x1>>, <<kk[2], x2>>>>>> : kk \in {q \in HS(D) \X HS(D) : ~MaybePyEq(q[1], q[2])}, x1 \in D, x2 \in D}

Small1 == { <<"none">>, <<"bool", TRUE>>, I(FALSE, <<1>>), I(TRUE, <<2,1,4,7,4,8,3,6,4,9>>),
            <<"str", <<233>>>>, <<"bytes", <<81>>>>, <<"float", <<127,248,0,0,0,0,0,0>>>> }
Level1 == Leaves \cup Containers(Leaves, Small1)
Rep2 == Small1 \cup { <<"bad">>, <<"str", <<55296>>>>,
          <<"list", <<>>>>, <<"list", << <<"none">>, I(FALSE, <<0>>) >>>>, <<"list", << <<"bad">> >>>>,
          <<"tuple", <<>>>>, <<"tuple", << <<"bool", FALSE>> >>>>, <<"tuple", << <<"list", <<>>>> >>>>,
          <<"dict", <<>>>>, <<"dict", << << <<"str", <<97>>>>, <<"tuple", <<>>>> >> >>>>,
          <<"set", <<>>>>, <<"frozenset", << I(FALSE, <<1>>) >>>>,
          <<"frozenset", << <<"tuple", << <<"str", <<97>>>> >>>> >>>> }
Rep2Big == Rep2 \cup Leaves
Level2 == Containers(IF Big THEN Rep2Big ELSE Rep2, Small1)
Level3 == {<<"list", <<a>>>> : a \in Level2} \cup {<<"tuple", <<a, <<"none">>>>>> : a \in Level2}
Values == Level1 \cup Level2 \cup (IF Big THEN Level3 ELSE {})

RECURSIVE HasBad(_)
HasBad(x) ==
  CASE Tag(x) = "bad" -> TRUE
    [] Tag(x) = "str" -> \E i \in 1..Len(x[2]) : IsSurrogate(x[2][i])
    [] Tag(x) \in {"list", "tuple", "set", "frozenset"} -> \E i \in 1..Len(x[2]) : HasBad(x[2][i])
    [] Tag(x) = "dict" -> \E i \in 1..Len(x[2]) : HasBad(x[2][i][1]) \/ HasBad(x[2][i][2])
    [] OTHER -> FALSE

Init == /\ v \in Values
        /\ st = IF Enc(v) = Err THEN St(<<>>, <<>>, "dumperr") ELSE St(DumpsInternal(v), <<>>, "run")

IsOp(ops) == st.status = "run" /\ st.inp # <<>> /\ Head(st.inp) \in ops
LoadConst   == IsOp({OpNONE, OpTRUE, OpFALSE}) /\ st' = StepOp(st, DefaultCfg) /\ UNCHANGED v
LoadInt     == IsOp({OpINT}) /\ st' = StepOp(st, DefaultCfg) /\ UNCHANGED v
LoadLongInt == IsOp({OpLONGINT}) /\ st' = StepOp(st, DefaultCfg) /\ UNCHANGED v
LoadFloat   == IsOp({OpFLOAT, OpCOMPLEX}) /\ st' = StepOp(st, DefaultCfg) /\ UNCHANGED v
LoadBytes   == IsOp({OpBYTES}) /\ st' = StepOp(st, DefaultCfg) /\ UNCHANGED v
LoadStr     == IsOp({OpPY3STRING}) /\ st' = StepOp(st, DefaultCfg) /\ UNCHANGED v
NewList     == IsOp({OpNEWLIST}) /\ st' = StepOp(st, DefaultCfg) /\ UNCHANGED v
NewDict     == IsOp({OpNEWDICT}) /\ st' = StepOp(st, DefaultCfg) /\ UNCHANGED v
SetItem     == IsOp({OpSETITEM}) /\ st' = StepOp(st, DefaultCfg) /\ UNCHANGED v
BuildTuple  == IsOp({OpBUILDTUPLE}) /\ st' = StepOp(st, DefaultCfg) /\ UNCHANGED v
BuildSet    == IsOp({OpSET, OpFROZENSET}) /\ st' = StepOp(st, DefaultCfg) /\ UNCHANGED v
Stop        == IsOp({OpSTOP}) /\ st' = StepOp(st, DefaultCfg) /\ UNCHANGED v
Next == LoadConst \/ LoadInt \/ LoadLongInt \/ LoadFloat \/ LoadBytes \/ LoadStr \/ NewList
        \/ NewDict \/ SetItem \/ BuildTuple \/ BuildSet \/ Stop
Spec == Init /\ [][Next]_vars /\ WF_vars(Next)

RoundTrip    == st.status = "done" => (st.stack = <<v>> /\ st.inp = <<>>)
NoDecodeErr  == st.status \notin {"loaderr", "eof"}
DumpErrIff   == (Enc(v) = Err) <=> HasBad(v)
WellFormed   == ~HasBad(v) => WF(v)
PrefixNeverLoads ==
  st.status = "dumperr" \/
  LET e == DumpsInternal(v) IN
    \A k \in 0..(Len(e) - 1) : LoadsInternal(SubSeq(e, 1, k), DefaultCfg)[1] # "value"
Terminates == <>(st.status # "run")
=============================================================================
