----------------------------- MODULE ChanFileCases -----------------------------
(* M5 for C19: recorded results of the real ChannelFileRead / ChannelFileWrite judged by the reference.
   read case:  [k |-> "read", items (seq of seq of code points / bytes), ops, results (seq of seq), exc (string, "" if none)]
   write case: [k |-> "write", writes (seq of seq), flushes, got (items the peer received), after_close (result of write after close),
                proxyclose (BOOLEAN), closed_after_close (BOOLEAN: channel.isclosed() after file.close())]
*)
EXTENDS ChanFile, Json, IOUtils
Cases == JsonDeserialize(IOEnv.CASES)

ReadVerdict(c) ==
  IF c.exc # "" THEN "C19.read-raised-" \o c.exc
  ELSE IF c.results # Ref(c.items, c.ops) THEN "C19.result-differs-from-file-over-concatenation"
  ELSE IF "rtypes" \in DOMAIN c /\ \E i \in 1..Len(c.rtypes) : c.rtypes[i] # c.want_type THEN "C19.read-returned-another-string-type-than-the-items-have"
  ELSE "ok"
WriteVerdict(c) ==
  IF c.got # c.writes THEN "C19.write-is-not-one-item-per-call"
  ELSE IF c.after_close # "OSError" THEN "C19.write-after-close-not-refused"
  ELSE IF c.closed_after_close # c.proxyclose THEN "C19.close-ignores-proxyclose"
  ELSE "ok"
Verdict(c) == IF c.k = "read" THEN ReadVerdict(c) ELSE WriteVerdict(c)
ASSUME PrintT(<<"verdicts", [i \in 1..Len(Cases) |-> Verdict(Cases[i])]>>)
VARIABLE x
Init == x = 0
Next == UNCHANGED x
=============================================================================
