------------------------------ MODULE LossCases ------------------------------
(* C04 on real transports: what the surviving initiator observed after the worker process of a popen / socket / via
   gateway was killed in the middle of a conversation, judged clause by clause against the statement:
   blocked and later receive / waitclose yield the items that had arrived, in order, then raise EOFError; callbacks get their
   endmarker; nothing blocks forever; afterwards send, remote_exec and newchannel raise OSError and the gateway reports that it
   is no longer receiving. *)
EXTENDS Integers, Sequences, FiniteSets, TLC, Json, IOUtils

Cases == JsonDeserialize(IOEnv.CASES)
Verdict(c) ==
  IF c.err # "" THEN "C04.real.conversation-could-not-be-set-up-or-broke-the-harness"
  ELSE IF ~c.blocked_done THEN "C04.real.blocked-operation-never-returned"
  ELSE IF c.blocked_receive # "EOFError" THEN "C04.real.blocked-receive-did-not-raise-EOFError"
  ELSE IF c.blocked_waitclose # "EOFError" THEN "C04.real.blocked-waitclose-did-not-raise-EOFError"
  ELSE IF c.blocked_fileread # "returned" \/ c.file # <<"xyz\n", "">> THEN "C04.real.channel-file-did-not-return-the-arrived-items-and-then-end"
  ELSE IF c.items # <<"a", "b">> THEN "C04.real.arrived-items-not-delivered-in-order"
  ELSE IF c.later_receive # "EOFError" \/ c.receive_again # "EOFError" THEN "C04.real.later-receive-did-not-raise-EOFError"
  ELSE IF c.later_waitclose # "EOFError" THEN "C04.real.later-waitclose-did-not-raise-EOFError"
  ELSE IF c.callback # <<"1", "END">> THEN "C04.real.callback-did-not-get-its-items-and-one-endmarker"
  ELSE IF ~c.joined THEN "C04.real.receiver-thread-did-not-finish"
  ELSE IF c.send # "OSError" THEN "C04.real.send-after-loss-did-not-raise-OSError"
  ELSE IF c.remote_exec # "OSError" THEN "C04.real.remote_exec-after-loss-did-not-raise-OSError"
  ELSE IF c.newchannel # "OSError" THEN "C04.real.send-on-a-new-channel-after-loss-did-not-raise-OSError"
  ELSE IF c.hasreceiver THEN "C04.real.gateway-still-reports-a-receiver"
  ELSE "ok"
ASSUME PrintT(<<"verdicts", [i \in 1..Len(Cases) |-> Verdict(Cases[i])]>>)
VARIABLE x
Init == x = 0
Next == UNCHANGED x
=============================================================================
