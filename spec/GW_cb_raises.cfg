SPECIFICATION Spec
CONSTANT K = 2
CONSTANT Receivers = {}
CONSTANT WithError = FALSE
CONSTANT WithCallback = TRUE
CONSTANT WithLocalClose = FALSE
CONSTANT EndCallbackRaises = TRUE
CONSTANT Fix_GuardEndmarkerCallback = TRUE
CONSTANT Fix_CloseFlagFirst = TRUE
INVARIANT OrderedDelivery
INVARIANT CallbackOrdered
INVARIANT EofMeansComplete
INVARIANT ObserverSeesClosed
INVARIANT ErrorOnce
INVARIANT EndmarkerOnce
INVARIANT ReceiverThreadSurvives
PROPERTY WaitcloseReturns
CHECK_DEADLOCK FALSE
PROPERTY CallbackGetsAllWhenAlone
