SPECIFICATION Spec
CONSTANT WithUnkillable = FALSE
CONSTANT Fix_BoundFinalWait = TRUE
CONSTANT Fix_GuardEndmarkerCallbacks = FALSE
CONSTANT WithLinger = FALSE
CONSTANT Fix_HardExit = TRUE
CONSTANT KillOnTimeout = TRUE
INVARIANT WorkerGoneInTime
INVARIANT ExpectedRung
INVARIANT TerminatePrompt
INVARIANT NoChildLeft
PROPERTY WorkerEventuallyGone
PROPERTY TerminateReturns
CHECK_DEADLOCK FALSE
