SPECIFICATION Spec
CONSTANT Calls <- K3
CONSTANT Failing <- F3
CONSTANT GiveBackOnFailure = FALSE
CONSTANT Fix_RegisterAtomic = TRUE
CONSTANT Fix_ExplicitCheck = TRUE
INVARIANT NoSharedId
INVARIANT AutoIdsUnique
CHECK_DEADLOCK FALSE
