------------------------------ MODULE RSyncCases ------------------------------
(* M5 for C17: recorded runs of the real RSync judged against spec/RSync.tla.
   case: src, dst (prior target entry), del, cwd, sibling (BOOLEAN: an unrelated file exists on the target),
         got (target entry afterwards), got_sibling, sent (depths whose content was transferred),
         resent (the same for a second send()), rechanged (BOOLEAN: the second send changed the target), err
*)
EXTENDS RSync, Json, IOUtils
Cases == JsonDeserialize(IOEnv.CASES)
AsSet(s) == {s[i] : i \in 1..Len(s)}
Verdict(c) ==
  LET want == Want(c.src, c.dst, c.del)
      model == Sync(c.src, c.dst, c.del, 0, c.cwd)
  IN IF c.err # "" THEN "C17.send-raised-" \o c.err
     ELSE IF c.got # want THEN
        IF QuickCheckMiss(c.src, c.dst) /\ c.got = model.e THEN "C17.same-size-same-mtime-content-not-synced"
        ELSE IF Relax(want, c.got) = c.got THEN "C17.directory-mode-forced-to-u+rwx"
        ELSE "C17.target-differs-from-source"
     ELSE IF c.sibling /\ (c.got_sibling = c.del) THEN
        (IF c.del THEN "C17.delete-left-an-unrelated-entry" ELSE "C17.unrelated-entry-touched-without-delete")
     ELSE IF AsSet(c.sent) # model.sent THEN
        (IF model.sent \subseteq AsSet(c.sent) THEN "C17.more-content-transferred-than-necessary" ELSE "MODEL-DRIFT.transfer-set")
     ELSE IF c.resent # <<>> THEN "C17.resync-transferred-content"
     ELSE IF c.rechanged THEN "C17.resync-changed-the-target"
     ELSE "ok"
ASSUME PrintT(<<"verdicts", [i \in 1..Len(Cases) |-> Verdict(Cases[i])]>>)
VARIABLE x
Init == x = 0
Next == UNCHANGED x
=============================================================================
