SPECIFICATION Spec
CONSTANT Threads <- T2
CONSTANT PerThread = 2
CONSTANT Fix_AllocUnderLock = TRUE
INVARIANT IdsDistinct
INVARIANT Parity
INVARIANT TransferredKeepsIdentity
CHECK_DEADLOCK FALSE
