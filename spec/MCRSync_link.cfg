SPECIFICATION Spec
CONSTANT Fix_FileModeExact = TRUE
CONSTANT Fix_RelLinkAsIs = FALSE
INVARIANT TargetEqualsSource
INVARIANT LimitationsAreExact
INVARIANT Minimal
CHECK_DEADLOCK FALSE
