SPECIFICATION Spec
CONSTANT MaxPairs = 2
INVARIANT ParseIsFaithful
CHECK_DEADLOCK FALSE
