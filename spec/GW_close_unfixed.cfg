SPECIFICATION Spec
CONSTANT K = 1
CONSTANT Receivers = {"r1"}
CONSTANT WithError = FALSE
CONSTANT WithCallback = FALSE
CONSTANT WithLocalClose = FALSE
CONSTANT Fix_CloseFlagFirst = FALSE
INVARIANT OrderedDelivery
INVARIANT CallbackOrdered
INVARIANT EofMeansComplete
INVARIANT ObserverSeesClosed
INVARIANT ErrorOnce
INVARIANT EndmarkerOnce
PROPERTY WaitcloseReturns
CHECK_DEADLOCK FALSE
PROPERTY ReceiversFinish
