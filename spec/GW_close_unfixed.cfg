SPECIFICATION Spec
CONSTANT K = 1
CONSTANT Receivers = {"r1"}
CONSTANT WithError = FALSE
CONSTANT WithCallback = FALSE
CONSTANT WithLocalClose = FALSE
CONSTANT EndCallbackRaises = FALSE
CONSTANT Fix_GuardEndmarkerCallback = TRUE
CONSTANT Fix_CloseFlagFirst = FALSE
INVARIANT OrderedDelivery
INVARIANT CallbackOrdered
INVARIANT EofMeansComplete
INVARIANT ObserverSeesClosed
INVARIANT ErrorOnce
INVARIANT EndmarkerOnce
INVARIANT ReceiverThreadSurvives
PROPERTY WaitcloseReturns
CHECK_DEADLOCK FALSE
PROPERTY ReceiversFinish
