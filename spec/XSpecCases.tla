------------------------------ MODULE XSpecCases ------------------------------
(* M5 for C20.  Two kinds of recorded cases:
   "xspec": kvs (the key/value list the text was joined from), text, real = <<"ok", attrs, env, flags>> | <<"exc", name>>
            flags = [str_same, eq_same, hash_same, absent_none, neq_other] (BOOLEANs)
   "group": events of a Group under (simulated or real) makegateway/exit calls:
            [ev |-> "call"|"ret", op |-> "makegateway"|"exit", thread, id, res, live (ids in iteration order),
             agree (BOOLEAN: lookup by id / index / membership agree with iteration), mine (this call started a process)]
*)
EXTENDS XSpec, Json, IOUtils
Cases == JsonDeserialize(IOEnv.CASES)

XVerdict(c) ==
  IF ~InDomain(c.kvs) \/ ~Unambiguous(c.kvs) THEN "ok"            \* outside the statement's domain
  ELSE LET exp == Expected(c.kvs) IN
       IF exp.err = "ValueError" THEN
          IF c.real = <<"exc", "ValueError">> THEN "ok" ELSE "C20.repeated-key-not-rejected-with-ValueError"
       ELSE IF c.real[1] # "ok" THEN
          IF \E i \in 1..Len(c.kvs) : c.kvs[i][1] = <<101, 110, 118>> THEN "C20.key-named-env-rejected"
          ELSE "C20.valid-spec-rejected-" \o c.real[2]
       ELSE IF c.real[2] # exp.attrs THEN "C20.attributes-differ-from-the-pairs"
       ELSE IF c.real[3] # exp.env THEN "C20.env-differs-from-the-env-pairs"
       ELSE IF \E i \in 1..Len(c.real[4]) : ~c.real[4][i] THEN "C20.str-eq-hash-or-absent-attribute-wrong"
       ELSE "ok"

\* ---- group ids
RECURSIVE GRun(_, _, _)
Dup(s) == \E i, j \in 1..Len(s) : i < j /\ s[i] = s[j]
\* which makegateway calls ran concurrently with another one
Track(st, e) ==
  IF e.op # "makegateway" THEN st
  ELSE IF e.ev = "call" THEN
     [st EXCEPT !.inflight = @ \cup {e.thread},
                !.overlapped = IF st.inflight \ {e.thread} # {} THEN (@ \cup st.inflight \cup {e.thread}) ELSE @ \ {e.thread}]
  ELSE [st EXCEPT !.inflight = @ \ {e.thread}]

GStep0(st, e) ==
  IF st.bad # "" THEN st
  ELSE IF Dup(e.live) THEN [st EXCEPT !.bad = "C20.two-live-gateways-share-an-id"]
  ELSE IF ~e.agree THEN [st EXCEPT !.bad = "C20.lookup-by-id-index-membership-disagree-with-iteration"]
  ELSE IF e.ev = "ret" /\ e.op = "allocate" THEN      \* allocate_id() on its own: the id it reserves is as unique as any other automatic id
     IF e.res = "ok" /\ e.id \in st.autos THEN [st EXCEPT !.bad = "C20.automatic-id-allocated-twice"]
     ELSE IF e.res = "ok" THEN [st EXCEPT !.autos = @ \cup {e.id}]
     ELSE IF e.res = "ValueError" /\ st.explicits # {} THEN st
     ELSE [st EXCEPT !.bad = "C20.allocate-id-raised-" \o e.res]
  ELSE IF e.ev = "ret" /\ e.op = "terminate" /\ e.res # "ok" THEN [st EXCEPT !.bad = "C05.terminate-raised-" \o e.res]
  ELSE IF e.ev = "ret" /\ e.op = "exit" /\ e.res # "ok" THEN [st EXCEPT !.bad = "C20.exit-of-a-gateway-raised-" \o e.res]
  ELSE IF e.ev = "call" /\ e.op = "makegateway" THEN [st EXCEPT !.explicits = IF e.flag THEN @ ELSE @ \cup {e.id}]
  ELSE IF e.ev = "ret" /\ e.op = "makegateway" THEN
     IF e.res = "ok" THEN
        IF e.id \in st.autos /\ e.flag THEN [st EXCEPT !.bad = "C20.automatic-id-allocated-twice"]
        ELSE [st EXCEPT !.autos = IF e.flag THEN @ \cup {e.id} ELSE @, !.made = @ + 1]
     ELSE IF e.flag /\ e.id \in st.autos THEN [st EXCEPT !.bad = "C20.automatic-id-allocated-twice"]
     \* an automatic id that nobody asked for explicitly is live already: another automatic allocation got the same one
     ELSE IF e.flag /\ e.res # "Injected" /\ e.id \notin st.explicits /\ (\E i \in 1..Len(e.live) : e.live[i] = e.id)
          THEN [st EXCEPT !.bad = "C20.automatic-id-allocated-twice"]
     \* ... or nobody ever asked for any explicit id, and an automatic allocation is refused all the same
     ELSE IF e.flag /\ e.res \in {"AssertionError", "ValueError"} /\ st.explicits = {}
          THEN [st EXCEPT !.bad = "C20.automatic-id-allocated-twice"]
     ELSE IF e.mine THEN
        IF e.res = "AssertionError" /\ e.thread \in st.overlapped THEN [st EXCEPT !.bad = "C05.concurrent-id-collision-leaves-a-process-behind"]
        ELSE [st EXCEPT !.bad = "C05.failed-makegateway-left-a-process-behind"]
     ELSE IF e.res \in {"ValueError", "Injected"} THEN st      \* refused id / the process could not be started (fault injected by the harness)
     ELSE [st EXCEPT !.bad = "C20.makegateway-raised-" \o e.res]
  ELSE st
GStep(st, e) == IF e.ev = "call" THEN GStep0(Track(st, e), e) ELSE Track(GStep0(st, e), e)
GRun(st, evs, i) == IF i > Len(evs) THEN st ELSE GRun(GStep(st, evs[i]), evs, i + 1)
GVerdict(c) == LET f == GRun([bad |-> "", autos |-> {}, explicits |-> {}, made |-> 0, failedStarted |-> 0, inflight |-> {}, overlapped |-> {}], c.events, 1) IN IF f.bad = "" THEN "ok" ELSE f.bad

Verdict(c) == IF c.k = "xspec" THEN XVerdict(c) ELSE GVerdict(c)
ASSUME PrintT(<<"verdicts", [i \in 1..Len(Cases) |-> Verdict(Cases[i])]>>)
VARIABLE x
Init == x = 0
Next == UNCHANGED x
=============================================================================
