#!/bin/sh
# Offline setup: verify the tools the checks need; nothing is downloaded or built.
set -e
cd "$(dirname "$0")"
command -v java >/dev/null
test -f /opt/veriftools/tla/tla2tools.jar
test -x /venv/bin/python
PYTHONPATH=/repo/src /venv/bin/python -c "import execnet,sys; assert execnet.__file__.startswith('/repo/src'), execnet.__file__"
chmod +x check
mkdir -p evidence replays
# every specification must parse
for m in spec/*.tla; do
  (cd spec && java -cp /opt/veriftools/tla/tla2tools.jar:/opt/veriftools/tla/CommunityModules-deps.jar tla2sany.SANY "$(basename "$m")" >/tmp/sany.$$ 2>&1) || { cat /tmp/sany.$$; rm -f /tmp/sany.$$; exit 1; }
done
rm -f /tmp/sany.$$
echo setup ok
