"""RSync with an overridden filter(path): what is rejected (with everything below it) is not part of the source as far as the sync is
concerned.  Cases for spec/RSyncFilterCases.tla: a fixed small universe of entries, a rejected subset (the filter is asked with the
paths RSync hands to it and answers by membership of the absolute path), a prior target state, the delete flag."""

from __future__ import annotations

import os
import shutil

from execnet import RSync

UNIVERSE = [("a", "dir"), ("a/x", "file"), ("a/y", "file"), ("a/d", "dir"), ("a/d/z", "file"), ("b", "dir"), ("b/x", "file"), ("f", "file"), ("l", "link")]
EXTRAS = [("extra", "file"), ("a/extra", "file"), ("b/extra", "file")]


def _make(root, entries):
    os.makedirs(root, exist_ok=True)
    for rel, kind in sorted(entries):
        p = os.path.join(root, rel)
        if kind == "dir":
            os.makedirs(p, exist_ok=True)
        elif kind == "file":
            os.makedirs(os.path.dirname(p), exist_ok=True)
            with open(p, "wb") as f:
                f.write(rel.encode())
        else:
            os.symlink("f", p)


def _listing(root):
    out = []
    for dp, dns, fns in os.walk(root):
        for n in dns + fns:
            p = os.path.join(dp, n)
            kind = "link" if os.path.islink(p) else ("dir" if os.path.isdir(p) else "file")
            out.append([os.path.relpath(p, root).split("/"), kind])
    return sorted(out)


def run_case(gw, base, rng, tag):
    root = os.path.join(base, f"c{tag}")
    shutil.rmtree(root, ignore_errors=True)
    src, dst = os.path.join(root, "src"), os.path.join(root, "dst")
    _make(src, UNIVERSE)
    reject = [rel for rel, _k in UNIVERSE if rng.random() < 0.25]
    prior = [e for e in UNIVERSE if rng.random() < 0.4 and all(e[0] == d or not e[0].startswith(d + "/") or (d, "dir") in UNIVERSE for d in [e[0]])]
    # a prior entry needs its parent directories
    prior = sorted(set(prior) | {(rel.rsplit("/", k)[0], "dir") for rel, _k in prior for k in range(1, rel.count("/") + 1)})
    extras = [e for e in EXTRAS if rng.random() < 0.5 and ("/" not in e[0] or (e[0].split("/")[0], "dir") in prior)]
    if prior or extras:
        _make(dst, prior + extras)
    delete = rng.random() < 0.5
    rejected_abs = {os.path.join(src, rel) for rel in reject}
    asked = []

    class R(RSync):
        def filter(self, path):
            asked.append(path)
            return path not in rejected_abs

    out = {"src": [[rel.split("/"), k] for rel, k in UNIVERSE], "reject": [rel.split("/") for rel in reject],
           "prior": [[rel.split("/"), k] for rel, k in prior + extras], "delete": delete, "got": [], "err": "", "asked_outside_source": False}
    try:
        r = R(src, verbose=False)
        r.add_target(gw, dst, delete=delete)
        r.send()
        out["got"] = _listing(dst)
        out["asked_outside_source"] = any(not p.startswith(src + os.sep) for p in asked)
    except Exception as e:  # noqa: BLE001
        out["err"] = type(e).__name__ + ":" + str(e)[:80]
    shutil.rmtree(root, ignore_errors=True)
    return out
