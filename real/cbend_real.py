"""C07 on a real gateway: a channel callback that raises when it is handed its endmarker (on the initiator's side and on the worker's
side).  The channel is closed by then; what must hold is the rest of the statement: no other channel is disturbed and the gateway
connection itself stays up."""

from __future__ import annotations

import time

import execnet


def run(kind="popen"):
    group = execnet.Group()
    out = {"kind": kind, "err": "", "got": [], "sibling": "", "later": "", "hasreceiver": False, "worker_sibling": "", "worker_later": ""}
    try:
        from real import matrix

        gw = matrix.make_gateway(group, kind, "thread", tag="cbend")
        got = []

        def cb(x):
            got.append(x)
            return x.upper()          # AttributeError for the endmarker None

        sib = gw.remote_exec("for x in channel: channel.send(x + 1)")
        sib.send(1)
        first = sib.receive(10)
        # (the remote code waits for a token: the callback is registered before anything arrives, so its exception is raised in the
        #  receiver thread and not in this thread inside setcallback())
        ch = gw.remote_exec("channel.receive()\nchannel.send('a')")
        ch.setcallback(cb, endmarker=None)
        ch.send("go")
        for _ in range(300):
            if None in got:
                break
            time.sleep(0.01)
        time.sleep(0.2)
        out["got"] = ["END" if x is None else str(x) for x in got]
        try:
            sib.send(10)
            out["sibling"] = "ok" if (first, sib.receive(10)) == (2, 11) else "wrong answer"
        except Exception as e:  # noqa: BLE001
            out["sibling"] = type(e).__name__
        try:
            out["later"] = "ok" if gw.remote_exec("channel.send(7)").receive(10) == 7 else "wrong answer"
        except Exception as e:  # noqa: BLE001
            out["later"] = type(e).__name__
        out["hasreceiver"] = bool(gw.hasreceiver())
        # the same on the worker's side: its callback raises when the initiator closes the channel
        try:
            w = gw.remote_exec("c = channel.gateway.newchannel()\nc.setcallback(lambda x: x.upper(), endmarker=None)\nchannel.send(c)\n"
                               "for x in channel: channel.send(x + 1)")
            c = w.receive(10)
            c.send("a")
            c.close()
            time.sleep(0.3)
            w.send(4)
            out["worker_sibling"] = "ok" if w.receive(10) == 5 else "wrong answer"
            out["worker_later"] = "ok" if gw.remote_exec("channel.send(8)").receive(10) == 8 else "wrong answer"
        except Exception as e:  # noqa: BLE001
            out["worker_sibling"] = out["worker_sibling"] or type(e).__name__
            out["worker_later"] = out["worker_later"] or type(e).__name__
    except Exception as e:  # noqa: BLE001
        out["err"] = type(e).__name__ + ":" + str(e)[:80]
    finally:
        try:
            group.terminate(timeout=3)
        except Exception:  # noqa: BLE001
            pass
    return out
