"""Replay of FdTable.tla operation sequences on real popen workers (C06): each word runs as one remote_exec on a fresh worker
and reports what every operation observed plus the kinds of descriptors 0..9 at the end."""

from __future__ import annotations

import execnet

REMOTE = r'''
import gc, io, os, sys
ops = channel.receive()
obs, files = [], []
def kind(n):
    try:
        t = os.readlink("/proc/self/fd/%d" % n)
    except OSError:
        return "free"
    if t == "/dev/null":
        return "null"
    if t.startswith("pipe:"):
        return "pipe"
    if t.endswith("fdtable-probe"):
        return "file"
    return "other"
for op in ops:
    if op in ("raw1", "raw2"):
        try:
            os.write(1 if op == "raw1" else 2, b"")
            os.write(1 if op == "raw1" else 2, b"x" if op == "raw1" else b"")
            obs.append("harmless")
        except OSError:
            obs.append("EBADF")
    elif op == "rebind_out":
        sys.stdout = io.StringIO()
        gc.collect()
        obs.append("")
    elif op == "rebind_in":
        sys.stdin = io.StringIO()
        gc.collect()
        obs.append("")
    elif op == "open":
        fd = os.open(PROBE, os.O_WRONLY | os.O_CREAT)
        files.append(fd)
        obs.append(fd)
    elif op == "closefile":
        os.close(files.pop())
        obs.append("")
channel.send((obs, [kind(n) for n in range(10)]))
'''


def replay(ops, probe_path, execmodel="thread"):
    group = execnet.Group()
    try:
        gw = group.makegateway(f"popen//execmodel={execmodel}")
        ch = gw.remote_exec("PROBE = %r\n" % probe_path + REMOTE)
        ch.send(list(ops))
        obs, table = ch.receive(30)
        # the worker is still usable afterwards
        alive = gw.remote_exec("channel.send(channel.receive() + 1)")
        alive.send(1)
        ok = alive.receive(10) == 2
        return {"ops": list(ops), "obs": list(obs), "table": list(table), "usable": ok, "err": ""}
    except Exception as e:  # noqa: BLE001
        return {"ops": list(ops), "obs": [], "table": [], "usable": False, "err": type(e).__name__}
    finally:
        group.terminate(timeout=2)
