"""Group.remote_exec + MultiChannel on real popen gateways: send_each, receive_each (with and without channels), iteration, waitclose
(C02: each member's items reach the right conversation; C07: a failing member surfaces as RemoteError from waitclose)."""

from __future__ import annotations

import execnet

ECHO = "for x in channel:\n    if x is None:\n        break\n    channel.send((channel.gateway.id, x * 2))\n"


def run(n=3):
    group = execnet.Group()
    out = {"n": n, "err": ""}
    try:
        for i in range(n):
            group.makegateway(f"popen//id=g{i}")
        mch = group.remote_exec(ECHO)
        out["len"] = len(mch)
        out["members_match"] = [ch.gateway.id for ch in mch] == [gw.id for gw in group]
        mch.send_each(21)
        out["each"] = sorted([list(x) for x in mch.receive_each()])
        mch.send_each(5)
        pairs = mch.receive_each(withchannel=True)
        out["pairs_ok"] = sorted([ch.gateway.id, list(v)] for ch, v in pairs) == sorted([f"g{i}", [f"g{i}-worker", 10]] for i in range(n))
        # one member only: nobody else hears of it
        mch[1].send(7)
        out["single"] = list(mch[1].receive(10))
        mch.send_each(None)
        mch.waitclose()
        out["closed"] = all(ch.isclosed() for ch in mch)
        try:  # the members are closed now: send_each refuses like Channel.send does
            mch.send_each(1)
            out["send_each_closed"] = "accepted"
        except OSError:
            out["send_each_closed"] = "OSError"
        except Exception as e:  # noqa: BLE001
            out["send_each_closed"] = type(e).__name__
        # a failing member
        bad = group.remote_exec("channel.send(channel.gateway.id)\nif channel.gateway.id == 'g0-worker':\n    raise ValueError('boom')\nimport time\ntime.sleep(0.7)\n")
        out["ids"] = sorted(bad.receive_each())
        out["all_closed_at_raise"] = True
        try:
            bad.waitclose()
            out["waitclose"] = "returned"
        except bad[0].RemoteError as e:
            out["waitclose"] = "RemoteError:boom" if "boom" in str(e) else "RemoteError"
            # waitclose() waits for every member, also after one of them has reported a failure
            out["all_closed_at_raise"] = all(ch.isclosed() for ch in bad)
        except Exception as e:  # noqa: BLE001
            out["waitclose"] = type(e).__name__
        try:
            bad.waitclose()
            out["waitclose_again"] = "returned"
        except Exception as e:  # noqa: BLE001
            out["waitclose_again"] = type(e).__name__
    except Exception as e:  # noqa: BLE001
        out["err"] = type(e).__name__ + ":" + str(e)[:80]
    finally:
        group.terminate(timeout=3)
    return out
