"""Process observation through /proc."""

from __future__ import annotations

import os
import time


def state(pid):
    try:
        with open(f"/proc/{pid}/stat") as f:
            return f.read().rsplit(")", 1)[1].split()[0]
    except OSError:
        return None


def alive(pid):
    st = state(pid)
    return st is not None and st != "Z"


def ppid(pid):
    try:
        with open(f"/proc/{pid}/stat") as f:
            return int(f.read().rsplit(")", 1)[1].split()[1])
    except OSError:
        return None


def children(parent):
    out = set()
    for p in os.listdir("/proc"):
        if p.isdigit() and ppid(int(p)) == parent and alive(int(p)):
            out.add(int(p))
    return out


def descendants(parent):
    out, todo = set(), [parent]
    while todo:
        for c in children(todo.pop()):
            if c not in out:
                out.add(c)
                todo.append(c)
    return out


def wait_gone(pids, deadline_s, poll=0.05):
    """returns {pid: ms after now at which it was first seen gone, or -1}"""
    t0 = time.monotonic()
    gone = {}
    left = set(pids)
    while left and time.monotonic() - t0 < deadline_s:
        for p in list(left):
            if not alive(p):
                gone[p] = int((time.monotonic() - t0) * 1000)
                left.discard(p)
        time.sleep(poll)
    for p in left:
        gone[p] = -1
    return gone


def reap(pids):
    import signal

    for p in pids:
        try:
            os.kill(p, signal.SIGKILL)
        except OSError:
            pass
