"""An initiator process for C11: creates workers running generated activities, reports their pids on stdout,
then disappears the way it is told to.  Run with PYTHONPATH=/repo/src."""

import json
import os
import sys
import time

import execnet

def _sleeping_function(channel, n=3, opt=None, items=()):
    import time

    time.sleep(1000)


BODIES = {
    # remote_exec of a function with keyword arguments of several types (sleeping: ended by the SIGINT rung)
    "func_kwargs": ("function", _sleeping_function, {"n": 3, "opt": None, "items": [1, 2.5, "x"]}),
    "idle": None,
    "receive": "channel.receive()",
    "busy": "while True: pass",
    "sleep": "import time\ntime.sleep(1000)",
    "swallow": "import time\nwhile True:\n    try:\n        time.sleep(1000)\n    except KeyboardInterrupt:\n        pass",
    "sigign": "import signal, time\nsignal.signal(signal.SIGINT, signal.SIG_IGN)\nwhile True:\n    time.sleep(1000)",
    "thread": "import threading, time\nthreading.Thread(target=lambda: time.sleep(1000), daemon=True).start()\nchannel.receive()",
    "sending": "while True: channel.send(b'x' * 1000000)",
    "cbdropped": "c = channel.gateway.newchannel()\nc.setcallback(lambda x: None)\nchannel.send(c)\ndel c\nchannel.receive()",
    # a worker-side callback that cannot cope with its endmarker (None): it raises when the connection ends
    "cbraises": "c = channel.gateway.newchannel()\nc.setcallback(lambda x: x.upper(), endmarker=None)\nchannel.send(c)\nchannel.receive()",
    "cbraises_dropped": "c = channel.gateway.newchannel()\nc.setcallback(lambda x: x.upper(), endmarker=None)\nchannel.send(c)\ndel c\nchannel.receive()",
    "nondaemon": "import threading, time\nthreading.Thread(target=lambda: time.sleep(1000)).start()",
    "atexit_hang": "import atexit, time\natexit.register(time.sleep, 1000)",
    # the body does not read; the initiator floods its channel with unconsumed items before it goes away
    "flooded": "import time\ntime.sleep(1000)",
    # two bodies at once (the first one owns the main thread): see EXTRA_BODIES
    "sleep_and_sending": "import time\ntime.sleep(1000)",
    "sleep_and_short": "import time\ntime.sleep(1000)",
}


def main():
    job = json.loads(sys.argv[1])
    assert execnet.__file__.startswith((os.environ.get("VERIF_REPO") or "/repo") + "/src"), execnet.__file__
    group = execnet.Group()
    import atexit

    atexit.unregister(group._cleanup_atexit)
    out = []
    keep = []
    for i, sc in enumerate(job["scenarios"]):
        topo, em = sc["topo"], sc["execmodel"]
        if topo == "popen":
            spec = f"popen//execmodel={em}"
        elif topo == "python":
            spec = f"popen//python={sys.executable}//execmodel={em}"
        elif topo == "via":
            group.makegateway(f"popen//id=m{i}")
            spec = f"popen//via=m{i}//execmodel={em}"
        elif topo == "socket":
            group.makegateway(f"popen//id=m{i}")
            spec = f"socket//installvia=m{i}//execmodel={em}"
        gw = group.makegateway(spec + f"//id=g{i}")
        pid = gw.remote_exec("import os\nchannel.send(os.getpid())").receive(30)
        body = BODIES[sc["env"]]
        if isinstance(body, tuple):
            keep.append(gw.remote_exec(body[1], **body[2]))
        elif body is not None:
            keep.append(gw.remote_exec(body))
            extra = {"sleep_and_sending": "while True: channel.send(b'x' * 1000000)",
                     "sleep_and_short": "import time\ntime.sleep(2.5)"}.get(sc["env"])
            if extra:
                time.sleep(0.2)
                keep.append(gw.remote_exec(extra))
            if sc["env"] == "flooded":
                for k in range(6000):
                    keep[-1].send(k)
        out.append({"scenario": sc, "pid": pid})
        if topo == "via":
            # the forwarding worker is a worker of this initiator as well
            mpid = group[f"m{i}"].remote_exec("import os\nchannel.send(os.getpid())").receive(30)
            out.append({"scenario": dict(sc, topo="via-forwarder", execmodel="thread"), "pid": mpid})
    time.sleep(0.3)  # let the bodies get going
    print(json.dumps({"me": os.getpid(), "workers": out, "all": sorted(p for p in _desc(os.getpid()))}), flush=True)
    how = job["death"]
    if how == "close":
        for gw in group:
            try:
                gw._io.close_write()
            except Exception:
                pass
        time.sleep(60)
    elif how == "exit":
        os._exit(0)
    elif how == "midframe":
        # die in the middle of a message: header announcing 100000 payload bytes, then only a few of them
        import struct

        for gw in group:
            try:
                gw._io._write(struct.pack("!bii", 4, 1, 100000) + b"x" * 17)
                gw._io.outfile.flush()
            except Exception:
                pass
        os._exit(0)
    else:
        time.sleep(60)  # the harness SIGKILLs us


def _desc(pid):
    sys.path.insert(0, "/verif")
    from real import procs

    return procs.descendants(pid)


if __name__ == "__main__":
    main()
