"""Channel programs with deterministic transcripts, run on real gateways of every transport (C15, C16, C06).

A transcript is a list of [program name, observation ...] entries made only of strings, ints and booleans,
normalised so that it does not depend on pids, paths or the transport."""

from __future__ import annotations

import hashlib
import os
import sys

import execnet

from mbt import pyval


def digest(obj) -> str:
    import json

    return hashlib.sha1(json.dumps(pyval.to_model(obj)).encode()).hexdigest()[:12]


def payloads(rng, big):
    vals = [None, True, 0, -1, 2**31, -(2**31) - 1, 10**40, 1.5, float("inf"), -0.0, 1 + 2j, b"", b"\x00\xff" * 10, "", "é€\U0001f600",
            [], [1, [2, (3, {"k": {4, 5}})]], {"a": {"b": frozenset([1, 2])}}, (1, (2, (3,))), b"x" * 70000, "y" * 66000]
    if big:
        vals += [b"z" * 1500000, list(range(20000)), "w" * 4000000]
    for _ in range(6):
        vals.append([rng.randint(-10**12, 10**12) for _ in range(rng.randint(0, 50))])
    return vals


def make_gateway(group, kind, execmodel, python=None, tag="g"):
    """kind: popen | python (source bootstrap over pipe) | socket (installvia a master) | via (proxied through a master)
    python: command line of the child interpreter (list of words) for kinds that take one"""
    py = " ".join(python) if python else sys.executable
    if kind == "popen":
        return group.makegateway(f"popen//execmodel={execmodel}//id={tag}")
    if kind == "python":
        return group.makegateway(f"popen//python={py}//execmodel={execmodel}//id={tag}")
    if kind == "socket":
        m = group.makegateway(f"popen//python={py}//id={tag}m" if python else f"popen//id={tag}m")
        return group.makegateway(f"socket//installvia={m.id}//execmodel={execmodel}//id={tag}")
    if kind == "via":
        m = group.makegateway(f"popen//python={py}//id={tag}m" if python else f"popen//id={tag}m")
        return group.makegateway(f"popen//via={m.id}//execmodel={execmodel}//id={tag}" + (f"//python={py}" if python else ""))
    if kind == "socket_gevent_host":  # a socket server hosted by a gevent gateway: the worker's reads and writes are cooperative
        m = group.makegateway(f"popen//execmodel=gevent//id={tag}m")
        return group.makegateway(f"socket//installvia={m.id}//execmodel=gevent//id={tag}")
    if kind == "socket_installvia_second":
        # socket//installvia=<host>: every socket gateway gets a one-connection server inside the host's process; an earlier socket
        # gateway changed the directory and went away, the gateway under test is the next one through the same host
        import tempfile

        d = tempfile.mkdtemp(prefix="verif-iv-")
        group._verif_cleanup = getattr(group, "_verif_cleanup", []) + [(None, d)]
        m = group.makegateway(f"popen//id={tag}m")
        first = group.makegateway(f"socket//installvia={m.id}//chdir={d}/elsewhere//id={tag}first")
        assert first.remote_exec("import os\nchannel.send(os.getcwd())").receive(20).endswith("elsewhere")
        first.exit()
        first.join(10)
        return group.makegateway(f"socket//installvia={m.id}//execmodel={execmodel}//id={tag}")
    if kind == "socket_standalone_second":
        # the stand-alone server script (python socketserver.py host:port, serving one connection after the other): an earlier gateway
        # changed the directory and went away; the gateway under test is the next connection to the same server
        import re
        import subprocess
        import tempfile
        import time

        import execnet.script.socketserver as ss

        logdir = tempfile.mkdtemp(prefix="verif-ss-")
        log = open(os.path.join(logdir, "server.log"), "wb")
        proc = subprocess.Popen([sys.executable, "-u", ss.__file__, "127.0.0.1:0"], stdout=log, stderr=subprocess.STDOUT,
                                env={**os.environ, "PYTHONPATH": os.path.dirname(os.path.dirname(os.path.dirname(ss.__file__)))})
        group._verif_cleanup = getattr(group, "_verif_cleanup", []) + [(proc, logdir)]
        port = None
        for _ in range(400):
            m = re.search(r"\('127\.0\.0\.1', (\d+)\)", open(log.name).read())
            if m:
                port = int(m.group(1))
                break
            time.sleep(0.025)
        first = group.makegateway(f"socket=127.0.0.1:{port}//chdir={logdir}/elsewhere//id={tag}first")
        assert first.remote_exec("import os\nchannel.send(os.getcwd())").receive(20).endswith("elsewhere")
        first.exit()
        first.join(10)
        return group.makegateway(f"socket=127.0.0.1:{port}//execmodel={execmodel}//id={tag}")
    if kind == "ssh":  # needs an `ssh` on PATH (the checks put a stand-in there that hands the command line to /bin/sh, as sshd does)
        return group.makegateway(f"ssh=fakehost//python={py}//execmodel={execmodel}//id={tag}")
    if kind == "vagrant":
        return group.makegateway(f"vagrant_ssh=default//python={py}//execmodel={execmodel}//id={tag}")
    raise ValueError(kind)


def make_remote_shell_standins(directory):
    """`ssh` and `vagrant` executables for a sandbox without an ssh server: like sshd they pass the last argument (the remote command
    line) to the login shell, so quoting and word splitting of `python=...` behave as on a real remote host"""
    os.makedirs(directory, exist_ok=True)
    for name in ("ssh", "vagrant"):
        path = os.path.join(directory, name)
        with open(path, "w") as f:
            f.write("#!/bin/sh\nfor last; do :; done\nexec /bin/sh -c \"$last\"\n")
        os.chmod(path, 0o755)
    return directory


def remote_function(channel, a, b=None, c=()):
    channel.send((a, b, c, __name__))


def run_programs(gw, rng, big=False):
    T = []
    # 0. the worker starts where its process was launched from (here: the initiator's directory), whatever happened there before
    T.append(["cwd", gw.remote_exec("import os\nchannel.send(os.getcwd())").receive(20) == os.getcwd()])
    # 1. echo of every payload type and size
    ch = gw.remote_exec("for x in channel: channel.send(x)")
    for v in payloads(rng, big):
        ch.send(v)
        r = ch.receive(60)
        T.append(["echo", digest(v), digest(r), digest(v) == digest(r)])
    ch.close()
    ch.waitclose(10)
    # 2. sub-channels: created remotely, sent over, used in both directions, closed
    ch = gw.remote_exec("c = channel.gateway.newchannel()\nchannel.send(c)\nc.send(channel.receive() + 1)\nfor x in c: channel.send(('got', x))\n")
    ch.send(41)
    sub = ch.receive(10)
    T.append(["sub", type(sub).__name__, sub.receive(10)])
    sub.send("to-sub")
    T.append(["sub2", list(ch.receive(10))])
    sub.close()
    ch.waitclose(10)
    T.append(["sub3", ch.isclosed(), sub.isclosed()])
    # 3. callback with endmarker
    got = []
    ch = gw.remote_exec("for i in range(5): channel.send(i)")
    ch.setcallback(got.append, endmarker="END")
    ch.waitclose(10)
    for _ in range(200):
        if got and got[-1] == "END":
            break
        import time

        time.sleep(0.01)
    T.append(["callback", [str(x) for x in got]])
    # 4. remote error: exactly once, after the items
    ch = gw.remote_exec("channel.send(1)\nchannel.send(2)\nraise ValueError('boom-%d' % 7)")
    items = []
    try:
        while True:
            items.append(ch.receive(10))
    except ch.RemoteError as e:
        last = str(e).strip().splitlines()[-1]
        T.append(["error", items, type(e).__name__, last])
    try:
        ch.receive(10)
        T.append(["error2", "no exception"])
    except EOFError:
        T.append(["error2", "EOFError"])
    except Exception as e:  # noqa: BLE001
        T.append(["error2", type(e).__name__])
    # 5. explicit close from inside is refused; the channel closes when the code ends
    ch = gw.remote_exec("try:\n    channel.close()\n    channel.send('closed?!')\nexcept OSError as e:\n    channel.send('refused')\nchannel.send(__name__)")
    T.append(["close", ch.receive(10), ch.receive(10)])
    ch.waitclose(10)
    T.append(["close2", ch.isclosed()])
    # 6. a pure function with keyword arguments
    ch = gw.remote_exec(remote_function, a=[1, {"x": (2.5, None)}], b=b"bytes", c=(True, "s"))
    r = ch.receive(10)
    T.append(["function", digest(r[:3]), r[3]])
    # 7. stdout / stderr floods and raw fd writes must not enter the protocol stream
    ch = gw.remote_exec("import os, sys\nprint('x' * 100000)\nsys.stderr.write('')\nos.write(1, b'raw' * 50000)\nsys.stdout.flush()\nchannel.send('after-print')")
    T.append(["stdio", ch.receive(20)])
    ch.waitclose(10)
    ch = gw.remote_exec("channel.send(channel.receive() * 2)")
    ch.send(21)
    T.append(["after-stdio", ch.receive(10)])
    # 7b. remote code that rebinds sys.stdout / sys.stdin: the worker's own descriptors 0 and 1 stay open and are not handed out again
    ch = gw.remote_exec("import gc, io, os, sys\nsys.stdout = io.StringIO()\nsys.stdin = io.StringIO()\ngc.collect()\n"
                        "try:\n    os.write(1, b'raw')\n    r = 'fd1-open'\nexcept OSError:\n    r = 'fd1-closed'\n"
                        "f = open(os.devnull)\nfresh = f.fileno() > 2\nf.close()\nchannel.send((r, fresh))")
    T.append(["stdio-rebound", list(ch.receive(20))])
    ch.waitclose(10)
    ch = gw.remote_exec("channel.send(channel.receive() + 1)")
    ch.send(1)
    T.append(["after-rebind", ch.receive(10)])
    # 8. status
    st = gw.remote_status()
    T.append(["status", type(st.numchannels).__name__, type(st.numexecuting).__name__, st.execmodel == gw.spec.execmodel])
    ri = gw._rinfo()
    T.append(["rinfo", sorted(k for k in vars(ri))])
    # ... and what it says is what the worker says about itself; it is cached until an update is asked for
    obs = gw.remote_exec("import os, sys\nchannel.send([sys.executable, list(sys.version_info[:5]), sys.platform, os.getcwd(), os.getpid()])").receive(20)
    same = [ri.executable == obs[0], list(ri.version_info) == obs[1], ri.platform == obs[2], ri.cwd == obs[3], ri.pid == obs[4]]
    T.append(["rinfo-truthful", ["yes" if x else "no" for x in same]])
    moved = gw.remote_exec("import os\nold = os.getcwd()\nos.chdir(os.path.dirname(old) or '/')\nchannel.send([old, os.getcwd()])").receive(20)
    cached, fresh = gw._rinfo().cwd, gw._rinfo(update=True).cwd
    chb = gw.remote_exec("import os\nos.chdir(channel.receive())")
    chb.send(moved[0])
    chb.waitclose(20)
    T.append(["rinfo-cache", "cached" if cached == moved[0] else "not cached", "updated" if fresh == moved[1] else "stale after update"])
    back = gw._rinfo(update=True).cwd
    T.append(["rinfo-back", "restored" if back == moved[0] else "elsewhere"])
    # 9. two sender threads at once on two channels of one remote body (valid under every execmodel), per-channel order preserved
    import threading

    ch = gw.remote_exec("c1 = channel.gateway.newchannel()\nc2 = channel.gateway.newchannel()\nchannel.send(c1)\nchannel.send(c2)\n"
                        "c1.setcallback(c1.send)\nc2.setcallback(c2.send)\nchannel.receive()\n")
    chans = [ch.receive(10), ch.receive(10)]
    ths = [threading.Thread(target=lambda c=c, k=k: [c.send((k, i, bytes([65 + k]) * 150000)) for i in range(5)]) for k, c in enumerate(chans)]
    for t in ths:
        t.start()
    for t in ths:
        t.join(30)
    for k, c in enumerate(chans):
        got = [c.receive(20) for _ in range(5)]
        T.append(["concurrent", k, [g[1] for g in got], all(g[2] == bytes([65 + k]) * 150000 for g in got)])
    ch.send(None)
    ch.waitclose(10)
    # 9b. one thread with multi-megabyte items, another with tiny ones, at the same time: neither stream disturbs the other
    ch = gw.remote_exec("c1 = channel.gateway.newchannel()\nc2 = channel.gateway.newchannel()\nchannel.send(c1)\nchannel.send(c2)\n"
                        "import hashlib\nc1.setcallback(lambda x: c1.send((len(x), hashlib.sha1(x).hexdigest())))\nc2.setcallback(c2.send)\nchannel.receive()\n")
    big_c, tiny_c = ch.receive(10), ch.receive(10)
    blob = bytes(range(256)) * 8192  # 2 MiB
    ths = [threading.Thread(target=lambda: [big_c.send(blob) for _ in range(4)]), threading.Thread(target=lambda: [tiny_c.send(i) for i in range(400)])]
    for t in ths:
        t.start()
    for t in ths:
        t.join(60)
    bigs = [big_c.receive(30) for _ in range(4)]
    tinies = [tiny_c.receive(30) for _ in range(400)]
    T.append(["big-and-tiny", all(b == (len(blob), hashlib.sha1(blob).hexdigest()) for b in map(tuple, bigs)), tinies == list(range(400))])
    ch.send(None)
    ch.waitclose(10)
    # 9c. rsync to this gateway (the receiving side is shipped source too): first sync, an edit that keeps the size (the receiver answers
    # with a checksum), a mode-only change, a deletion
    import shutil
    import tempfile

    base = tempfile.mkdtemp(prefix="verif-rs-")
    try:
        src, dest = os.path.join(base, "src"), os.path.join(base, "dest")
        os.makedirs(os.path.join(src, "d"))
        for name, data in (("a.txt", b"hello"), ("d/b.bin", bytes(range(256)) * 3), ("d/c", b"")):
            with open(os.path.join(src, name), "wb") as f:
                f.write(data)
        os.symlink("a.txt", os.path.join(src, "l"))

        def snap(root):
            out = []
            for dp, dns, fns in os.walk(root):
                for n in sorted(dns + fns):
                    p = os.path.join(dp, n)
                    st = os.lstat(p)
                    rel = os.path.relpath(p, root)
                    if os.path.islink(p):
                        out.append([rel, "link", os.readlink(p)])
                    elif os.path.isdir(p):
                        out.append([rel, "dir"])
                    else:
                        out.append([rel, "file", digest(open(p, "rb").read()), st.st_mode & 0o777, int(st.st_mtime)])
            return sorted(out)

        def sync(step):
            try:
                r = execnet.RSync(src, verbose=False)
                r.add_target(gw, dest, delete=True)
                r.send()
                T.append(["rsync-" + step, "target equals source" if snap(dest) == snap(src) else "target differs"])
            except Exception as e:  # noqa: BLE001
                T.append(["rsync-" + step, type(e).__name__])

        sync("first")
        with open(os.path.join(src, "a.txt"), "wb") as f:
            f.write(b"HELLO")
        t = int(os.lstat(os.path.join(src, "a.txt")).st_mtime) + 100
        os.utime(os.path.join(src, "a.txt"), (t, t))
        sync("same-size-edit")
        t = int(os.lstat(os.path.join(src, "d/b.bin")).st_mtime) + 50
        os.utime(os.path.join(src, "d/b.bin"), (t, t))
        sync("touched-only")
        os.chmod(os.path.join(src, "d/b.bin"), 0o600)
        sync("mode-only")
        os.remove(os.path.join(src, "d/c"))
        sync("deletion")
    finally:
        shutil.rmtree(base, ignore_errors=True)
    # 10. items still in flight when the gateway is told to exit are delivered (the remote code keeps running for a moment)
    ch = gw.remote_exec("import time\nchannel.send('before')\nchannel.receive()\ntime.sleep(0.4)\nchannel.send('after-exit-1')\nchannel.send(b'q' * 200000)\nchannel.send('after-exit-2')")
    first = ch.receive(10)
    ch.send("go")
    gw.exit()
    late = []
    try:
        while True:
            x = ch.receive(10)
            late.append(x if isinstance(x, str) else len(x))
    except EOFError:
        late.append("EOF")
    except Exception as e:  # noqa: BLE001
        late.append(type(e).__name__)
    T.append(["after-exit", first, late])
    return T


def control_requests(group, execmodel="thread", python=None):
    """wait / kill / close_write on a proxied gateway reach the proxied process"""
    from real import procs

    py = " ".join(python) if python else None
    m = group.makegateway(f"popen//python={py}//id=ctlm" if py else "popen//id=ctlm")
    gw = group.makegateway(f"popen//via=ctlm//execmodel={execmodel}//id=ctl" + (f"//python={py}" if py else ""))
    pid = gw.remote_exec("import os\nchannel.send(os.getpid())").receive(10)
    gw.remote_exec("import time\ntime.sleep(1000)")
    out = {"alive_before": procs.alive(pid)}
    gw._io.kill()
    out["gone_after_kill_ms"] = procs.wait_gone([pid], 5.0)[pid]
    rc = gw._io.wait()
    out["wait_returned"] = rc is not None
    # a wait request that is still pending must not keep a later kill request from reaching the process
    # (Group.terminate: io.wait() in one thread, after the time-out io.kill() in another)
    import threading

    gw2 = group.makegateway(f"popen//via=ctlm//execmodel={execmodel}//id=ctl2" + (f"//python={py}" if py else ""))
    pid2 = gw2.remote_exec("import os\nchannel.send(os.getpid())").receive(10)
    gw2.remote_exec("import time\ntime.sleep(1000)")
    box = {}
    th = threading.Thread(target=lambda: box.update(rc=gw2._io.wait()), daemon=True)
    th.start()
    import time

    time.sleep(0.5)
    killer = threading.Thread(target=gw2._io.kill, daemon=True)
    killer.start()
    out["gone_after_wait_then_kill_ms"] = procs.wait_gone([pid2], 5.0)[pid2]
    th.join(5)
    killer.join(5)
    out["pending_wait_returned"] = not th.is_alive()
    if out["gone_after_wait_then_kill_ms"] == -1:
        procs.reap([pid2])
    # the worker has closed its connection but its process lingers (a non-daemon thread of the remote code): kill still reaches it
    gw3 = group.makegateway(f"popen//via=ctlm//execmodel={execmodel}//id=ctl3" + (f"//python={py}" if py else ""))
    pid3 = gw3.remote_exec("import os, threading, time\nthreading.Thread(target=lambda: time.sleep(1000)).start()\nchannel.send(os.getpid())").receive(10)
    gw3.exit()
    gw3.join(10)
    time.sleep(0.3)
    out["lingering_before_kill"] = procs.alive(pid3)
    killer = threading.Thread(target=gw3._io.kill, daemon=True)
    killer.start()
    out["gone_after_exit_then_kill_ms"] = procs.wait_gone([pid3], 5.0)[pid3]
    killer.join(5)
    if out["gone_after_exit_then_kill_ms"] == -1:
        procs.reap([pid3])
    return out
