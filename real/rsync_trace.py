"""Sender-side event traces of real RSync.send() runs with 1-3 targets (C17, spec/RSyncProtoAbs.tla).

Every event is logged on the thread that runs send() (the serve loop), at the call that performs the step:
walk (one per _send_directory_structure call), get (one per _receivequeue.get), item (_send_item returned),
links (_process_link returned), cb (the finishedcallback), return / raise.  Paths are projected to their
position in the walk."""

from __future__ import annotations

import os
import shutil
import stat
from queue import Queue

from execnet.rsync import RSync


class _LoggingQueue(Queue):
    def __init__(self, owner):
        super().__init__()
        self._owner = owner

    def get(self, *a, **kw):
        item = super().get(*a, **kw)
        self._owner._log_get(item)
        return item


def ev(e, t=0, k="", p=0, n=0):
    return {"e": e, "t": t, "k": k, "p": p, "n": n}


class TracingRSync(RSync):
    def __init__(self, sourcedir):
        super().__init__(sourcedir, verbose=False)
        self._receivequeue = _LoggingQueue(self)
        self.events: list = []
        self._tix: dict = {}
        self._walkpos = 0
        self._index: dict = {}
        self.reported: list = []

    # ---- projection helpers
    def _p(self, rel):
        return self._index.get(rel, -1)

    def add_traced_target(self, gateway, destdir, **options):
        t = len(self._tix) + 1
        self.add_target(gateway, destdir, finishedcallback=lambda t=t: self.events.append(ev("cb", t)), **options)
        channel = list(self._channels)[-1]
        self._tix[channel] = t
        return t

    # ---- logged steps
    def _send_directory_structure(self, path):
        self._walkpos += 1
        pos = self._walkpos
        try:
            st = os.lstat(path)
            kind = "file" if stat.S_ISREG(st.st_mode) else "dir" if stat.S_ISDIR(st.st_mode) else "link" if stat.S_ISLNK(st.st_mode) else "other"
        except OSError:
            kind = "other"
        rel = path[len(self._sourcedir) + 1:]
        self._index[rel] = pos
        self.events.append(ev("walk", 0, kind, pos))
        super()._send_directory_structure(path)

    def _log_get(self, item):
        channel, req = item
        t = self._tix.get(channel, 0)
        if req is None:
            self.events.append(ev("get", t, "eof"))
        elif req[0] == "send":  # n = 1: the target sent a checksum along (same size, other mtime), 0: it has nothing usable
            self.events.append(ev("get", t, "send", self._p("/".join(req[1][0])), 1 if req[1][1] is not None else 0))
        elif req[0] == "ack":
            self.events.append(ev("get", t, "ack", self._p(req[1])))
        else:
            self.events.append(ev("get", t, str(req[0])))

    def _send_item(self, channel, modified_rel_path_components, checksum):
        n0 = len(self.reported)
        super()._send_item(channel, modified_rel_path_components, checksum)
        # n = 1: the file's data went out (_report_send_file was called), 0: None went out ("not really modified")
        self.events.append(ev("item", self._tix.get(channel, 0), "", self._p("/".join(modified_rel_path_components)), 1 if len(self.reported) > n0 else 0))

    def _process_link(self, channel):
        n = len(self._links)
        super()._process_link(channel)
        self.events.append(ev("links", self._tix.get(channel, 0), "", 0, n))

    def _report_send_file(self, gateway, modified_rel_path):
        self.reported.append(modified_rel_path)

    def traced_send(self):
        try:
            self.send()
        except BaseException as e:  # noqa: BLE001
            self.events.append(ev("raise", 0, type(e).__name__))
            return type(e).__name__
        self.events.append(ev("return"))
        return ""


def make_tree(root, rng, names):
    os.makedirs(root)

    def fill(d, depth):
        for nm in rng.sample(names, rng.randint(1, 4)):
            p = os.path.join(d, nm)
            k = rng.random()
            if k < 0.25 and depth < 3:
                os.mkdir(p)
                fill(p, depth + 1)
            elif k < 0.4:
                os.symlink(rng.choice(["x.txt", "../a b", "/etc/hostname", "nowhere", os.path.join(root, "x.txt")]), p)
            else:
                with open(p, "wb") as f:
                    f.write(bytes(rng.getrandbits(8) for _ in range(rng.choice([0, 1, 10, 3000]))))
                os.chmod(p, rng.choice([0o644, 0o600, 0o755]))
                t = rng.randint(10**9, 1700000000)
                os.utime(p, (t, t))

    fill(root, 0)


def perturb(root, rng):
    """turn a copy of the source into a plausible prior target state"""
    for dp, dn, fn in os.walk(root):
        for n in fn:
            p = os.path.join(dp, n)
            if os.path.islink(p):
                continue
            k = rng.random()
            if k < 0.25:
                os.unlink(p)
            elif k < 0.45:
                with open(p, "ab") as f:
                    f.write(b"changed")
            elif k < 0.6:
                os.utime(p, (5, 5))
            elif k < 0.7:
                os.chmod(p, 0o640)
    if rng.random() < 0.5:
        with open(os.path.join(root, "extra-on-target"), "w") as f:
            f.write("x")


_count = [0]


def run_one(gw, base, rng):
    # a fresh directory per run: after a send() that raised, the other targets' remote code may still be writing
    _count[0] += 1
    base = os.path.join(base, str(_count[0]))
    shutil.rmtree(base, ignore_errors=True)
    src = os.path.join(base, "src")
    make_tree(src, rng, ["a b", "ü中", "x.txt", "empty", "deep", "l1", "l2", ".hidden"])
    nt = rng.randint(1, 3)
    failing = set()
    r = TracingRSync(src + ("/" if rng.random() < 0.3 else ""))
    dests = []
    for t in range(1, nt + 1):
        d = os.path.join(base, f"dst{t}")
        kind = rng.choice(["empty", "copy", "perturbed", "perturbed", "fail"] if nt > 1 else ["empty", "perturbed", "copy"])
        if kind == "fail":
            with open(os.path.join(base, f"file{t}"), "w") as f:
                f.write("in the way")
            d = os.path.join(base, f"file{t}", "sub")
            failing.add(t)
        elif kind != "empty":
            shutil.copytree(src, d, symlinks=True)
            if kind == "perturbed":
                perturb(d, rng)
        dests.append(d)
        r.add_traced_target(gw, d, delete=rng.random() < 0.5)
    # send() must end by itself (return or raise): a send that blocks (e.g. a failed target that is never noticed) is reported as "Hang"
    import threading

    box = {}
    th = threading.Thread(target=lambda: box.update(err=r.traced_send()), daemon=True)
    th.start()
    th.join(60)
    if th.is_alive():
        r.events.append(ev("raise", 0, "Hang"))
        return {"nt": nt, "mayfail": [], "trace": r.events, "err": "Hang", "covered": True}
    err = box.get("err", "")
    covered = True
    if not err:
        want = _tree(src)
        for t, d in enumerate(dests, 1):
            if t not in failing:
                got = _tree(d)
                if any(got.get(k) != v for k, v in want.items()):
                    covered = False
    shutil.rmtree(base, ignore_errors=True)
    return {"nt": nt, "mayfail": sorted(failing), "trace": r.events, "err": err, "covered": covered}


def _tree(root):
    out = {}
    for dp, dn, fn in os.walk(root):
        for nme in dn + fn:
            p = os.path.join(dp, nme)
            st = os.lstat(p)
            rel = os.path.relpath(p, root)
            if stat.S_ISLNK(st.st_mode):
                out[rel] = ("link", os.readlink(p).replace(root, "<ROOT>"))
            elif stat.S_ISDIR(st.st_mode):
                out[rel] = ("dir",)
            else:
                with open(p, "rb") as f:
                    out[rel] = ("file", f.read(), stat.S_IMODE(st.st_mode), int(st.st_mtime))
    return out
