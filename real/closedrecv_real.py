"""C03 on a real gateway: once the peer has closed a channel every receive() raises EOFError - also a timed receive() issued while
another receiver thread is inside receive() (it takes the end marker out of the queue and puts it back "for other receivers")."""

from __future__ import annotations

import sys
import threading

import execnet


def run(iterations=4000):
    gw = execnet.makegateway("popen")
    out = {"err": "", "eof": 0, "timeout": 0, "other": 0, "plain_eof": 0, "plain_other": 0}
    try:
        ch = gw.remote_exec("channel.send(1)")
        assert ch.receive(10) == 1
        ch.waitclose(10)
        stop = threading.Event()

        def plain():
            while not stop.is_set():
                try:
                    ch.receive()
                    out["plain_other"] += 1
                except EOFError:
                    out["plain_eof"] += 1
                except Exception:  # noqa: BLE001
                    out["plain_other"] += 1

        old = sys.getswitchinterval()
        sys.setswitchinterval(1e-6)
        t = threading.Thread(target=plain, daemon=True)
        t.start()
        try:
            for _ in range(iterations):
                try:
                    ch.receive(timeout=20)
                    out["other"] += 1
                except EOFError:
                    out["eof"] += 1
                except ch.TimeoutError:
                    out["timeout"] += 1
                except Exception:  # noqa: BLE001
                    out["other"] += 1
        finally:
            stop.set()
            t.join(10)
            sys.setswitchinterval(old)
    except Exception as e:  # noqa: BLE001
        out["err"] = type(e).__name__ + ":" + str(e)[:80]
    finally:
        gw.exit()
        execnet.default_group.terminate(timeout=3)
    return out
