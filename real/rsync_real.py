"""Materialise model entries of spec/RSync.tla on disk, run the real RSync through a real popen gateway,
observe the result (S2/S3 part of C17)."""

from __future__ import annotations

import os
import shutil
import stat

# concrete timestamps for the model's two mtime ids; the variants put boundary values (the epoch, sub-second parts) on either id
TIME_VARIANTS = [{1: 1500000000, 2: 1600000000}, {1: 0, 2: 1600000000.5}, {1: 1.25, 2: 0}]
TIMES = dict(TIME_VARIANTS[0])
CONTENT = {0: b"aaaa", 1: b"bbbb", 2: b"cccccc"}
LINKTXT = {"rel_inside": "sibling", "rel_up": "../up", "dangling": "nonexistent/x", "abs_outside": "/etc/hostname"}


def materialize(path, entry, root):
    k = entry[0]
    if k == "absent":
        return
    if k == "file":
        with open(path, "wb") as f:
            f.write(CONTENT[entry[1]])
        os.chmod(path, entry[2])
        os.utime(path, (TIMES[entry[3]], TIMES[entry[3]]))
    elif k == "dir":
        os.mkdir(path)
        materialize(os.path.join(path, "n"), entry[2], root)
        os.chmod(path, entry[1])
    elif k == "link":
        txt = os.path.join(root, "sibling") if entry[1] == "abs_inside" else os.path.join(root, "..cache", "x") if entry[1] == "abs_inside_dd" else LINKTXT[entry[1]]
        os.symlink(txt, path)


def observe(path, root):
    try:
        st = os.lstat(path)
    except OSError:
        return ["absent"]
    if stat.S_ISLNK(st.st_mode):
        txt = os.readlink(path)
        if txt == os.path.join(root, "sibling"):
            return ["link", "abs_inside"]
        if txt == os.path.join(root, "..cache", "x"):
            return ["link", "abs_inside_dd"]
        for k, v in LINKTXT.items():
            if txt == v:
                return ["link", k]
        return ["link", "other:" + txt[-40:]]
    if stat.S_ISDIR(st.st_mode):
        return ["dir", stat.S_IMODE(st.st_mode), observe(os.path.join(path, "n"), root)]
    with open(path, "rb") as f:
        data = f.read()
    cid = [k for k, v in CONTENT.items() if v == data]
    mt = [k for k, v in TIMES.items() if v == st.st_mtime]
    return ["file", cid[0] if cid else 9, stat.S_IMODE(st.st_mode), mt[0] if mt else 0]


def snapshot(path):
    out = []
    for dp, dn, fn in os.walk(path):
        for n in sorted(dn + fn):
            p = os.path.join(dp, n)
            st = os.lstat(p)
            # directories' and symlinks' own timestamps are not part of the comparison (symlinks are re-created by every send())
            out.append((p, st.st_mode, st.st_mtime_ns if stat.S_ISREG(st.st_mode) else 0, st.st_size if stat.S_ISREG(st.st_mode) else 0,
                        os.readlink(p) if stat.S_ISLNK(st.st_mode) else ""))
    return out


def run_case(gw, base, case):
    """case: {src, dst, del, cwd, sibling}; returns the case extended with the observations"""
    from execnet.rsync import RSync

    TIMES.clear()
    TIMES.update(TIME_VARIANTS[case.get("tv", 0)])
    shutil.rmtree(base, ignore_errors=True)
    srcroot, dstroot, elsewhere = os.path.join(base, "src"), os.path.join(base, "dst"), os.path.join(base, "cwd")
    for d in (srcroot, dstroot, elsewhere):
        os.makedirs(d)
    materialize(os.path.join(srcroot, "n"), case["src"], srcroot)
    materialize(os.path.join(dstroot, "n"), case["dst"], dstroot)
    if case["sibling"]:
        with open(os.path.join(dstroot, "other"), "wb") as f:
            f.write(b"unrelated")
    cwd = {"outside": elsewhere, "root": srcroot,
           "inside": os.path.join(srcroot, "n") if case["src"][0] == "dir" else srcroot}[case["cwd"]]
    sent: list = []

    class R(RSync):
        def _report_send_file(self, gateway, modified_rel_path):
            sent.append(modified_rel_path)

    old = os.getcwd()
    out = dict(case)
    out.update({"got": ["absent"], "got_sibling": False, "sent": [], "resent": [], "rechanged": False, "err": ""})
    try:
        os.chdir(cwd)
        try:
            # (the source directory may be given with a trailing slash: same result)
            r = R(srcroot + ("/" if case.get("slash") else ""), verbose=False)
            r.add_target(gw, dstroot, delete=case["del"])
            r.send()
            first = list(sent)
            out["got"] = observe(os.path.join(dstroot, "n"), dstroot)
            out["got_sibling"] = os.path.lexists(os.path.join(dstroot, "other"))
            before = snapshot(dstroot)
            del sent[:]
            r2 = R(srcroot, verbose=False)
            r2.add_target(gw, dstroot, delete=case["del"])
            r2.send()
            out["resent"] = [p.count("/") for p in sent]
            out["rechanged"] = snapshot(dstroot) != before
            out["sent"] = [p.count("/") for p in first]
        except Exception as e:  # noqa: BLE001
            out["err"] = type(e).__name__
    finally:
        os.chdir(old)
        for dp, dn, fn in os.walk(base):
            for n in dn:
                try:
                    os.chmod(os.path.join(dp, n), 0o700)
                except OSError:
                    pass
        shutil.rmtree(base, ignore_errors=True)
    return out
