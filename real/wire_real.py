"""Concurrent senders on real gateways (popen pipe, socket, proxied via=): S3 part of C08."""

from __future__ import annotations

import struct
import threading

import execnet

ECHO = """
import struct
for x in channel:
    channel.send((struct.unpack('!i', x[:4])[0], len(x), x[4:5] * (len(x) - 4) == x[4:]))
"""


def run_real(kind: str, nthreads: int, nitems: int, size: int, remote_execmodel="thread"):
    group = execnet.Group()
    try:
        if kind == "popen":
            gw = group.makegateway(f"popen//execmodel={remote_execmodel}")
        elif kind == "socket":
            group.makegateway("popen//id=m")
            gw = group.makegateway(f"socket//installvia=m//execmodel={remote_execmodel}")
        elif kind == "via":
            group.makegateway("popen//id=m")
            gw = group.makegateway(f"popen//via=m//execmodel={remote_execmodel}")
        else:
            raise ValueError(kind)
        chans = [gw.remote_exec(ECHO) for _ in range(nthreads)]
        sent = [[] for _ in range(nthreads)]
        got = [[] for _ in range(nthreads)]
        errors = []

        def sender(k):
            try:
                for i in range(nitems):
                    tok = k * 1000 + i + 1
                    chans[k].send(struct.pack("!i", tok) + bytes([k + 65]) * (size - 4))
                    sent[k].append(tok)
            except Exception as e:  # noqa: BLE001
                errors.append(repr(e)[:100])

        ts = [threading.Thread(target=sender, args=(k,)) for k in range(nthreads)]
        for t in ts:
            t.start()
        for t in ts:
            t.join(120)
        alive = not errors
        for k, ch in enumerate(chans):
            for _ in range(len(sent[k])):
                try:
                    tok, ln, uniform = ch.receive(30)
                except Exception as e:  # noqa: BLE001
                    errors.append("recv:" + repr(e)[:100])
                    alive = False
                    break
                got[k].append(tok if (ln == size and uniform) else -tok)
        alive = alive and gw.hasreceiver()
        return {"kind": "real", "transport": kind, "sent": sent, "got": got, "alive": bool(alive), "errors": errors[:3],
                "threads": nthreads, "items": nitems, "size": size}
    finally:
        group.terminate(timeout=3)


REMOTE_SENDERS = """
import struct
em = channel.gateway.execmodel
n, nitems, size = channel.receive()
chans = [channel.gateway.newchannel() for k in range(n)]
for c in chans:
    channel.send(c)
def sender(k, c):
    for i in range(nitems):
        c.send(struct.pack('!i', k * 1000 + i + 1) + bytes([k + 65]) * (size - 4))
for k, c in enumerate(chans):
    em.start(sender, (k, c))          # threads or greenlets, whatever the worker's execmodel provides
channel.receive()
"""


def run_remote_senders(host_execmodel: str, nsenders: int, nitems: int, size: int):
    """the WORKER sends big frames from several threads / greenlets at once over a socket connection; the worker is a socket
    server hosted by a gateway of the given execmodel (so with host_execmodel="gevent" the senders are greenlets)"""
    group = execnet.Group()
    try:
        group.makegateway(f"popen//execmodel={host_execmodel}//id=m")
        gw = group.makegateway("socket//installvia=m")
        ch = gw.remote_exec(REMOTE_SENDERS)
        ch.send((nsenders, nitems, size))
        chans = [ch.receive(30) for _ in range(nsenders)]
        import time

        time.sleep(1.0)  # let the socket buffers fill up: every sender is then stopped in the middle of a frame at least once
        sent = [[k * 1000 + i + 1 for i in range(nitems)] for k in range(nsenders)]
        got = [[] for _ in range(nsenders)]
        errors = []
        alive = True
        for k, c in enumerate(chans):
            for _ in range(nitems):
                try:
                    x = c.receive(60)
                    tok = struct.unpack("!i", x[:4])[0]
                    got[k].append(tok if (len(x) == size and x[4:5] * (size - 4) == x[4:]) else -tok)
                except Exception as e:  # noqa: BLE001
                    errors.append("recv:" + repr(e)[:100])
                    alive = False
                    break
        alive = alive and gw.hasreceiver()
        return {"kind": "real", "transport": f"socket, senders in a {host_execmodel} worker", "sent": sent, "got": got, "alive": bool(alive),
                "errors": errors[:3], "threads": nsenders, "items": nitems, "size": size}
    except Exception as e:  # noqa: BLE001
        return {"kind": "real", "transport": f"socket, senders in a {host_execmodel} worker", "sent": [[1]], "got": [[]], "alive": False,
                "errors": [repr(e)[:100]], "threads": nsenders, "items": nitems, "size": size}
    finally:
        group.terminate(timeout=3)
