"""Concurrent senders on real gateways (popen pipe, socket, proxied via=): S3 part of C08."""

from __future__ import annotations

import struct
import threading

import execnet

ECHO = """
import struct
for x in channel:
    channel.send((struct.unpack('!i', x[:4])[0], len(x), x[4:5] * (len(x) - 4) == x[4:]))
"""


def run_real(kind: str, nthreads: int, nitems: int, size: int, remote_execmodel="thread"):
    group = execnet.Group()
    try:
        if kind == "popen":
            gw = group.makegateway(f"popen//execmodel={remote_execmodel}")
        elif kind == "socket":
            group.makegateway("popen//id=m")
            gw = group.makegateway(f"socket//installvia=m//execmodel={remote_execmodel}")
        elif kind == "via":
            group.makegateway("popen//id=m")
            gw = group.makegateway(f"popen//via=m//execmodel={remote_execmodel}")
        else:
            raise ValueError(kind)
        chans = [gw.remote_exec(ECHO) for _ in range(nthreads)]
        sent = [[] for _ in range(nthreads)]
        got = [[] for _ in range(nthreads)]
        errors = []

        def sender(k):
            try:
                for i in range(nitems):
                    tok = k * 1000 + i + 1
                    chans[k].send(struct.pack("!i", tok) + bytes([k + 65]) * (size - 4))
                    sent[k].append(tok)
            except Exception as e:  # noqa: BLE001
                errors.append(repr(e)[:100])

        ts = [threading.Thread(target=sender, args=(k,)) for k in range(nthreads)]
        for t in ts:
            t.start()
        for t in ts:
            t.join(120)
        alive = not errors
        for k, ch in enumerate(chans):
            for _ in range(len(sent[k])):
                try:
                    tok, ln, uniform = ch.receive(30)
                except Exception as e:  # noqa: BLE001
                    errors.append("recv:" + repr(e)[:100])
                    alive = False
                    break
                got[k].append(tok if (ln == size and uniform) else -tok)
        alive = alive and gw.hasreceiver()
        return {"kind": "real", "transport": kind, "sent": sent, "got": got, "alive": bool(alive), "errors": errors[:3],
                "threads": nthreads, "items": nitems, "size": size}
    finally:
        group.terminate(timeout=3)
