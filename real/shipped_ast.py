"""AST projection of the shipped sources for spec/Bootstrap.tla (C15)."""

from __future__ import annotations

import ast
import inspect
import sys


def _imports(node, guarded):
    """(module top-level names imported unconditionally, [(try names, except names)] for ImportError-guarded pairs)"""
    needs, pairs = set(), []

    def mods(n):
        out = set()
        if isinstance(n, ast.Import):
            out |= {a.name.split(".")[0] for a in n.names}
        elif isinstance(n, ast.ImportFrom) and n.level == 0 and n.module:
            out.add(n.module.split(".")[0])
        return out

    def bound(stmts):
        names = set()
        for st in stmts:
            for n in ast.walk(st):
                if isinstance(n, (ast.Import, ast.ImportFrom)):
                    names |= {(a.asname or a.name).split(".")[0] for a in n.names}
        return names

    def walk(n, in_type_checking=False):
        if isinstance(n, ast.ClassDef) and ("Eventlet" in n.name or "Gevent" in n.name):
            return  # optional execmodels: their lazy imports are needed only when the spec asks for that execmodel
        if isinstance(n, ast.If):
            t = ast.unparse(n.test)
            if "TYPE_CHECKING" in t or "win32" in t or t.replace("'", '"') == '__name__ == "__main__"':
                # typing-only imports, the Windows branch, and the stand-alone script entry (not a shipped execution path)
                for o in n.orelse:
                    walk(o)
                return
        if isinstance(n, ast.Try) and any(isinstance(h.type, ast.Name) and h.type.id == "ImportError" or
                                          (isinstance(h.type, ast.Tuple) and any(getattr(e, "id", "") == "ImportError" for e in h.type.elts))
                                          for h in n.handlers if h.type is not None):
            handler = [h for h in n.handlers][0]
            tb, hb = bound(n.body), bound(handler.body)
            hmods = set()
            for st in handler.body:
                for x in ast.walk(st):
                    hmods |= mods(x)
            if hb:  # a fallback import exists: the try branch may fail, the handler's modules are what is needed
                pairs.append((tb, hb))
                needs.update(m for m in hmods if m != "__main__")
            # else: optional import (fcntl etc.): nothing needed
            for o in n.orelse + n.finalbody:
                walk(o)
            return
        needs.update(mods(n))
        for ch in ast.iter_child_nodes(n):
            walk(ch)

    walk(node)
    return needs, pairs


def unit(name, source):
    tree = ast.parse(source)
    needs, pairs = _imports(tree, False)
    unbalanced = set()
    for tb, hb in pairs:
        unbalanced |= tb ^ hb
    # names used in functions that are bound only by the try branch of a guarded import are caught by `unbalanced`
    return {"name": name, "needs": sorted(needs), "unbalanced": sorted(unbalanced)}


def projection():
    import execnet.gateway_base as gb
    import execnet.gateway_io as gio
    import execnet.gateway_socket as gs
    import execnet.rsync_remote as rr
    from execnet.script import socketserver as ss

    units = [unit("gateway_base", inspect.getsource(gb)), unit("gateway_io", inspect.getsource(gio)),
             unit("socketio", inspect.getsource(gs.SocketIO)), unit("socketserver", inspect.getsource(ss)),
             unit("rsync_remote", inspect.getsource(rr))]
    return {"units": units, "stdlib": sorted(sys.stdlib_module_names)}
