"""AST projection of the shipped sources for spec/Bootstrap.tla (C15)."""

from __future__ import annotations

import ast
import inspect
import sys


def _imports(node, guarded):
    """(module top-level names imported unconditionally, [(try names, except names)] for ImportError-guarded pairs)"""
    needs, pairs = set(), []

    def mods(n):
        out = set()
        if isinstance(n, ast.Import):
            out |= {a.name.split(".")[0] for a in n.names}
        elif isinstance(n, ast.ImportFrom) and n.level == 0 and n.module:
            out.add(n.module.split(".")[0])
        return out

    def bound(stmts):
        names = set()
        for st in stmts:
            for n in ast.walk(st):
                if isinstance(n, (ast.Import, ast.ImportFrom)):
                    names |= {(a.asname or a.name).split(".")[0] for a in n.names}
        return names

    def walk(n, in_type_checking=False):
        if isinstance(n, ast.ClassDef) and ("Eventlet" in n.name or "Gevent" in n.name):
            return  # optional execmodels: their lazy imports are needed only when the spec asks for that execmodel
        if isinstance(n, ast.If):
            t = ast.unparse(n.test)
            if "TYPE_CHECKING" in t or "win32" in t or t.replace("'", '"') == '__name__ == "__main__"':
                # typing-only imports, the Windows branch, and the stand-alone script entry (not a shipped execution path)
                for o in n.orelse:
                    walk(o)
                return
        if isinstance(n, ast.Try) and any(isinstance(h.type, ast.Name) and h.type.id == "ImportError" or
                                          (isinstance(h.type, ast.Tuple) and any(getattr(e, "id", "") == "ImportError" for e in h.type.elts))
                                          for h in n.handlers if h.type is not None):
            handler = [h for h in n.handlers][0]
            tb, hb = bound(n.body), bound(handler.body)
            hmods = set()
            for st in handler.body:
                for x in ast.walk(st):
                    hmods |= mods(x)
            if hb:  # a fallback import exists: the try branch may fail, the handler's modules are what is needed
                pairs.append((tb, hb))
                needs.update(m for m in hmods if m != "__main__")
            # else: optional import (fcntl etc.): nothing needed
            for o in n.orelse + n.finalbody:
                walk(o)
            return
        needs.update(mods(n))
        for ch in ast.iter_child_nodes(n):
            walk(ch)

    walk(node)
    return needs, pairs


def _bound_names(tree):
    """every name the text binds anywhere (over-approximation of what is visible: never reports a bound name as unresolved)"""
    names = set()
    for n in ast.walk(tree):
        if isinstance(n, (ast.FunctionDef, ast.AsyncFunctionDef, ast.ClassDef)):
            names.add(n.name)
        if isinstance(n, (ast.FunctionDef, ast.AsyncFunctionDef, ast.Lambda)):
            a = n.args
            for x in a.args + a.kwonlyargs + a.posonlyargs:
                names.add(x.arg)
            if a.vararg:
                names.add(a.vararg.arg)
            if a.kwarg:
                names.add(a.kwarg.arg)
        if isinstance(n, ast.Name) and isinstance(n.ctx, (ast.Store, ast.Del)):
            names.add(n.id)
        if isinstance(n, (ast.Import, ast.ImportFrom)):
            for a in n.names:
                names.add((a.asname or a.name).split(".")[0])
        if isinstance(n, ast.ExceptHandler) and n.name:
            names.add(n.name)
        if (isinstance(n, ast.Call) and isinstance(n.func, ast.Name) and n.func.id == "exec" and n.args
                and isinstance(n.args[0], ast.Constant) and isinstance(n.args[0].value, str)):
            try:  # exec("def name(...): ...") at module level binds what the literal text binds
                names |= _bound_names(ast.parse(n.args[0].value))
            except SyntaxError:
                pass
    return names


def _module_level(tree):
    names = set()
    for st in tree.body:
        if isinstance(st, (ast.FunctionDef, ast.AsyncFunctionDef, ast.ClassDef)):
            names.add(st.name)
        else:
            names |= _bound_names(ast.Module(body=[st], type_ignores=[]))
    return names


def _used_names(tree):
    """names read at run time (annotations are not evaluated: every shipped module has `from __future__ import annotations`)"""
    for n in ast.walk(tree):
        if isinstance(n, (ast.FunctionDef, ast.AsyncFunctionDef)):
            n.returns = None
            for a in n.args.args + n.args.kwonlyargs + n.args.posonlyargs:
                a.annotation = None
            if n.args.vararg:
                n.args.vararg.annotation = None
            if n.args.kwarg:
                n.args.kwarg.annotation = None
        if isinstance(n, ast.AnnAssign):
            n.annotation = ast.Constant(0)
    out = set()

    def walk(n):
        if isinstance(n, ast.If) and "TYPE_CHECKING" in ast.unparse(n.test):
            for o in n.orelse:
                walk(o)
            return
        if isinstance(n, ast.Call) and isinstance(n.func, ast.Name) and n.func.id == "cast" and n.args:
            for a in n.args[1:]:  # cast("Type", value): the first argument is a type expression, usually a string
                walk(a)
            return
        if isinstance(n, ast.Name) and isinstance(n.ctx, ast.Load):
            out.add(n.id)
        for ch in ast.iter_child_nodes(n):
            walk(ch)

    walk(tree)
    return out


def unit(name, source, env=()):
    """env: names the text that is executed before this unit (in the same namespace) has bound"""
    import builtins

    tree = ast.parse(source)
    needs, pairs = _imports(tree, False)
    unbalanced = set()
    for tb, hb in pairs:
        unbalanced |= tb ^ hb
    # names used in functions that are bound only by the try branch of a guarded import are caught by `unbalanced`
    bound = _bound_names(tree)
    unresolved = _used_names(ast.parse(source)) - bound - set(dir(builtins)) - set(env) - {"__file__", "__name__", "__doc__"}
    return {"name": name, "needs": sorted(needs), "unbalanced": sorted(unbalanced), "unresolved": sorted(unresolved)}


def projection():
    import execnet.gateway_base as gb
    import execnet.gateway_io as gio
    import execnet.gateway_socket as gs
    import execnet.rsync_remote as rr
    from execnet.script import socketserver as ss

    base_names = _module_level(ast.parse(inspect.getsource(gb)))
    # remote_exec of a module: its text runs with `channel` bound; bootstrap_socket: gateway_base's text, "import socket", then SocketIO's
    units = [unit("gateway_base", inspect.getsource(gb)), unit("gateway_io", inspect.getsource(gio), {"channel"}),
             unit("socketio", inspect.getsource(gs.SocketIO), base_names | {"socket"}), unit("socketserver", inspect.getsource(ss), {"channel"}),
             unit("rsync_remote", inspect.getsource(rr), {"channel"})]
    return {"units": units, "stdlib": sorted(sys.stdlib_module_names)}
