"""Replay of spec/RSyncRounds.tla behaviours: one RSync object, one target, a word over {edit, touch, none} - one letter before each
further add_target()+send() round.  Observed after every send(): does the target file equal the source file (content, mtime), and
did the file's content travel in that round."""

from __future__ import annotations

import itertools
import os
import shutil

from execnet import RSync


def words(maxlen):
    out = []
    for n in range(1, maxlen + 1):
        out += [list(w) for w in itertools.product(("edit", "touch", "none"), repeat=n)]
    return out


def run_word(gw, base, word, tag):
    root = os.path.join(base, f"w{tag}")
    shutil.rmtree(root, ignore_errors=True)
    src, dst = os.path.join(root, "src"), os.path.join(root, "dst")
    os.makedirs(src)
    path = os.path.join(src, "f.bin")
    version = 1

    def write(v, mtime):
        with open(path, "wb") as f:
            f.write(b"version-%06d" % v)        # same size for every version
        os.utime(path, (mtime, mtime))

    mtime = 1_600_000_000
    write(version, mtime)
    travelled = []

    class R(RSync):
        def _report_send_file(self, gateway, p):
            travelled.append(p)

    out = {"word": list(word), "equal": [], "travelled": [], "err": ""}

    def state(p):
        st = os.lstat(p)
        return (open(p, "rb").read(), int(st.st_mtime))

    try:
        r = R(src, verbose=False)
        for letter in ["first"] + list(word):
            if letter == "edit":
                version += 1
                mtime += 10
                write(version, mtime)
            elif letter == "touch":
                mtime += 10
                os.utime(path, (mtime, mtime))
            del travelled[:]
            r.add_target(gw, dst)
            r.send()
            tp = os.path.join(dst, "f.bin")
            out["equal"].append(os.path.exists(tp) and state(tp) == state(path))
            out["travelled"].append(bool(travelled))
    except Exception as e:  # noqa: BLE001
        out["err"] = type(e).__name__ + ":" + str(e)[:80]
    shutil.rmtree(root, ignore_errors=True)
    return out
