"""Replay of spec/MultiChan.tla behaviours on a real Group of three popen gateways: a word says in which order the members' remote
code ends and which of them fail; MultiChannel.waitclose() runs in a thread meanwhile.  Observed: whether every member was closed
when waitclose() was over, whose error it raised, and what send_each() does afterwards."""

from __future__ import annotations

import itertools
import threading

import execnet

BODY = "import sys\nx = channel.receive()\nif x == 'fail':\n    raise ValueError('boom-' + channel.gateway.id)\n"


def words():
    out = []
    for order in itertools.permutations((1, 2, 3)):
        for outcomes in itertools.product(("ok", "fail"), repeat=3):
            out.append({"order": list(order), "outcomes": list(outcomes)})
    return out


def run_words(ws):
    group = execnet.Group()
    res = []
    try:
        for i in range(3):
            group.makegateway(f"popen//id=m{i + 1}")
        for w in ws:
            out = dict(w, err="", raised=0, over_all_closed=False, send_each="", again="")
            try:
                mch = group.remote_exec(BODY)
                box = {}

                def waiter(mch=mch, box=box):
                    try:
                        mch.waitclose()
                        box["r"] = 0
                    except mch[0].RemoteError as e:
                        txt = str(e)
                        box["r"] = next((k for k in (1, 2, 3) if f"boom-m{k}-worker" in txt), -1)
                    except Exception as e:  # noqa: BLE001
                        box["r"] = -2
                        box["exc"] = type(e).__name__
                    box["closed"] = all(ch.isclosed() for ch in mch)

                t = threading.Thread(target=waiter, daemon=True)
                t.start()
                for k, member in enumerate(w["order"]):
                    mch[member - 1].send(w["outcomes"][member - 1])
                    if k < 2:
                        # give waitclose() the time to act on this ending before the next member ends (the model's interleavings where
                        # the loop runs between two endings); the last ending is followed by the join below
                        mch[member - 1].waitclose(10) if w["outcomes"][member - 1] == "ok" else _wait_closed(mch[member - 1])
                t.join(20)
                if t.is_alive():
                    out["err"] = "waitclose-never-ended"
                else:
                    out["raised"] = box["r"]
                    out["over_all_closed"] = bool(box["closed"])
                    try:
                        mch.send_each(1)
                        out["send_each"] = "accepted"
                    except OSError:
                        out["send_each"] = "OSError"
                    except Exception as e:  # noqa: BLE001
                        out["send_each"] = type(e).__name__
                    try:
                        mch.waitclose()
                        out["again"] = "returned"
                    except Exception as e:  # noqa: BLE001
                        out["again"] = type(e).__name__
            except Exception as e:  # noqa: BLE001
                out["err"] = type(e).__name__ + ":" + str(e)[:60]
            res.append(out)
    finally:
        group.terminate(timeout=3)
    return res


def _wait_closed(ch):
    import time

    for _ in range(1000):
        if ch.isclosed():
            return
        time.sleep(0.01)
