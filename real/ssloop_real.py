"""Replay of spec/SocketServerLoop.tla behaviours on the real stand-alone execnet/script/socketserver.py: one server process, a word of
connections; each connection's code reports the directory it starts in, changes directory as the word says and returns or raises."""

from __future__ import annotations

import itertools
import os
import re
import shutil
import socket
import subprocess
import sys
import tempfile
import time


def words(maxconns, rng=None, sample=None):
    per_conn = [(ch, end) for ch in ([], ["a"], ["b"], ["a", "b"], ["b", "launch"]) for end in ("return", "raise")]
    out = []
    for n in range(1, maxconns + 1):
        out += [list(w) for w in itertools.product(per_conn, repeat=n)]
    if sample and rng and len(out) > sample:
        out = rng.sample(out, sample)
    return out


def run_word(word):
    import execnet.script.socketserver as ss

    base = tempfile.mkdtemp(prefix="verif-ssl-")
    dirs = {d: os.path.join(base, d) for d in ("launch", "a", "b")}
    for p in dirs.values():
        os.mkdir(p)
    log = open(os.path.join(base, "server.log"), "wb")
    proc = subprocess.Popen([sys.executable, "-u", ss.__file__, "127.0.0.1:0"], stdout=log, stderr=subprocess.STDOUT, cwd=dirs["launch"],
                            env={**os.environ, "PYTHONPATH": os.path.dirname(os.path.dirname(os.path.dirname(ss.__file__)))})
    out = {"word": [[ch, end] for ch, end in word], "starts": [], "err": ""}
    try:
        port = None
        for _ in range(400):
            m = re.search(r"\('127\.0\.0\.1', (\d+)\)", open(log.name).read())
            if m:
                port = int(m.group(1))
                break
            time.sleep(0.025)
        if port is None:
            out["err"] = "server-did-not-come-up"
            return out
        back = {os.path.realpath(p): d for d, p in dirs.items()}
        for ch, end in word:
            code = "import os\nclientsock.sendall((os.getcwd() + '\\n').encode())\n"
            code += "".join(f"os.chdir({dirs[d]!r})\n" for d in ch)
            code += "clientsock.close()\n" + ("raise ValueError('code of this connection fails')\n" if end == "raise" else "")
            try:
                with socket.create_connection(("127.0.0.1", port), timeout=10) as s:
                    s.sendall(repr(code).encode() + b"\n")
                    s.settimeout(10)
                    data = b""
                    while not data.endswith(b"\n"):
                        piece = s.recv(4096)
                        if not piece:
                            break
                        data += piece
                out["starts"].append(back.get(os.path.realpath(data.decode().strip()), "elsewhere:" + data.decode().strip()[-40:]))
            except OSError as e:
                out["starts"].append("no-connection:" + type(e).__name__)
        return out
    finally:
        proc.kill()
        proc.wait()
        log.close()
        shutil.rmtree(base, ignore_errors=True)
