"""C04 on real transports: the worker process of a popen / socket / via gateway is SIGKILLed in the middle of a conversation;
what every blocked and later operation on the surviving initiator does is recorded (judged by spec/LossCases.tla)."""

from __future__ import annotations

import os
import signal
import threading
import time

import execnet

from real import matrix


def name(e):
    return type(e).__name__


def run_case(kind, execmodel="thread", python=None, mode="sigkill"):
    group = execnet.Group()
    out = {"kind": kind, "execmodel": execmodel, "mode": mode, "err": ""}
    try:
        gw = matrix.make_gateway(group, kind, execmodel, python, tag="loss")
        # a channel read through makefile("r"): two items arrive (before the pid below does, same wire), then the worker is lost
        ch5 = gw.remote_exec("import builtins\nchannel.send('xy')\nchannel.send('z\\n')\nbuiltins._verif_c5 = 1\nchannel.receive()")
        f5 = ch5.makefile("r")
        ch1 = gw.remote_exec("import os, time, builtins\nwhile not hasattr(builtins, '_verif_c5'): time.sleep(0.01)\nchannel.send(os.getpid())\nchannel.send('a')\nchannel.send('b')\nchannel.receive()")
        pid = ch1.receive(20)
        got = []
        ch2 = gw.remote_exec("channel.send(1)\nchannel.receive()")
        ch2.setcallback(got.append, endmarker="END")
        ch3 = gw.remote_exec("channel.receive()")
        ch4 = gw.remote_exec("channel.receive()")
        res = {}

        def blocked(key, fn):
            try:
                fn()
                res[key] = "returned"
            except BaseException as e:  # noqa: BLE001
                res[key] = name(e)

        ths = [threading.Thread(target=blocked, args=("blocked_receive", lambda: ch3.receive(30))),
               threading.Thread(target=blocked, args=("blocked_waitclose", lambda: ch4.waitclose(30)))]
        fileres = []

        def fileread():
            fileres.append(f5.read(100))
            fileres.append(f5.read(1))

        ths.append(threading.Thread(target=blocked, args=("blocked_fileread", fileread)))
        for t in ths:
            t.start()
        for _ in range(200):  # the callback item must have arrived before the loss
            if got:
                break
            time.sleep(0.01)
        time.sleep(0.3)
        if mode == "sigkill":
            os.kill(pid, signal.SIGKILL)
        else:  # "halfclose": the worker's sending side breaks while the process stays alive
            gw.remote_exec("channel.gateway._io.close_write()")
        for t in ths:
            t.join(40)
        out.update(res)
        out["blocked_done"] = not any(t.is_alive() for t in ths)
        out["file"] = [str(x) for x in fileres]
        out.setdefault("blocked_fileread", "")
        items = []
        try:
            while True:
                items.append(ch1.receive(20))
        except BaseException as e:  # noqa: BLE001
            out["later_receive"] = name(e)
        out["items"] = [str(x) for x in items]
        try:
            ch1.receive(5)
            out["receive_again"] = "returned"
        except BaseException as e:  # noqa: BLE001
            out["receive_again"] = name(e)
        try:
            ch1.waitclose(20)
            out["later_waitclose"] = "returned"
        except BaseException as e:  # noqa: BLE001
            out["later_waitclose"] = name(e)
        t0 = time.time()
        gw.join(20)
        out["joined"] = time.time() - t0 < 19
        for _ in range(200):
            if got and got[-1] == "END":
                break
            time.sleep(0.01)
        out["callback"] = [str(x) for x in got]
        for key, fn in (("send", lambda: ch1.send(1)), ("remote_exec", lambda: gw.remote_exec("pass")), ("newchannel", lambda: gw.newchannel().send(1))):
            try:
                fn()
                out[key] = "returned"
            except BaseException as e:  # noqa: BLE001
                out[key] = name(e)
        out["hasreceiver"] = bool(gw.hasreceiver())
    except BaseException as e:  # noqa: BLE001
        out["err"] = name(e) + ": " + str(e)[:100]
    finally:
        try:
            if out.get("mode") == "halfclose":
                os.kill(pid, signal.SIGKILL)
        except BaseException:  # noqa: BLE001
            pass
        try:
            group.terminate(timeout=2)
        except BaseException:  # noqa: BLE001
            pass
    return out
